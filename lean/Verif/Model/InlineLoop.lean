/-
  Faithful model of the INLINE DISPATCHER of pymarkdown (core Lean only).

  Sources:
    pymarkdown/inline/inline_text_block_helper.py   process_inline_text_block and every private helper it calls
                                                    (`__process_inline_text_block_prepare`, `__handle_next_inline_character`,
                                                    `__handle_next_inline_character_setup`, `__handle_next_special_character`,
                                                    `__cleanup_after_handling`, `__create_new_text_token`,
                                                    `__handle_next_inline_character_finish_handling`, `__adjust_line_and_column_number`,
                                                    `__fix_variables_before_next_loop`, `__complete_inline_loop`,
                                                    `__complete_inline_block_processing(_build_token)`)         tabified_text = None
    pymarkdown/inline/inline_line_end_helper.py     process_inline_new_line, `__handle_line_end`, `__setup_for_select_line_ending`,
                                                    `__select_line_ending(_normal)`, `__is_proper_hard_break`,
                                                    `__select_line_end_hard_break`, `__handle_line_end_adjust_block_quote`,
                                                    `__add_recombined_whitespace`                                tabified_text = None
    pymarkdown/inline/inline_handler_helper.py      process_inline_handled_character, has_handler / `__get_handler`, and the four handlers
                                                    that live in that file (`__handle_inline_control_character`,
                                                    `__handle_inline_special_single_character` for `*` `_` `[`,
                                                    `__handle_inline_image_link_start_character`)
    pymarkdown/inline/inline_processor.py           `__process_next_coalesce_item` (which text tokens go to the inline pass), the argument
                                                    assembly of `__parse_paragraph` / `__parse_atx_heading` / `__parse_setext_heading`
    pymarkdown/general/parser_helper.py             recombine_string_with_whitespace, collect_backwards_while_character, index_any_of

  A HANDLER is a parameter: `Handler := Request → Except LErr Response`.  `Response` carries, beside the fields of the Python
  `InlineResponse`, the three ways a real handler acts on its surroundings: the `inline_blocks` list after the call (the `]` handler
  rewrites it in place), whether the last list element is another object (the loop compares it by identity), and
  `para_owner.rehydrate_index` after the call.  The loop theorems (Props/InlineLoop.lean) hold for every table that meets the stated
  contract; `realTable` instantiates the table with the recogniser models of `Verif.Model.InlineRecog` and, for the link close
  handler `]` (`LinkSearchHelper.look_for_link_or_image`, not modelled), with an ORACLE that replays the real responses.

  NOT modelled (explicit `LErr.unmodelled`, never a default): `tabified_text` (paragraphs containing a tab),
  `reduce_remaining_line_by ≠ 0` (only the extended-autolinks extension sets it), a character reference that yields a lone
  surrogate (a Python `str` can hold it, a Lean `Char` cannot).
-/
import Verif.Model.InlineRecog
namespace Verif.Model.InlineLoop
open Verif.Model.Recognisers (Str slice scanOneOf SP TAB)
open Verif.Model

inductive LErr where
  | index        -- IndexError
  | assertion    -- AssertionError
  | value        -- ValueError
  | fuel         -- model fuel exhausted (proved unreachable under the contract)
  | hang         -- a recogniser's Python loop provably never ends
  | unmodelled   -- the input leaves the modelled fragment (see the header)
  deriving Repr, DecidableEq

def LErr.ofI : InlineRecog.IErr → LErr
  | .index => .index | .assertion => .assertion | .value => .value | .fuel => .fuel | .hang => .hang

def liftI {α : Type} : Except InlineRecog.IErr α → Except LErr α
  | .ok a => .ok a
  | .error e => .error (.ofI e)

/-! ## tokens -/

inductive Tok where
  /-- `TextMarkdownToken(token_text, extracted_whitespace, end_whitespace, line, column)` -/
  | text (txt ews : Str) (endWs : Option Str) (line col : Int)
  /-- `HardBreakMarkdownToken(line_end, line, column)` -/
  | hardBreak (lead : Str) (line col : Int)
  /-- `SpecialTextMarkdownToken(token_text, repeat_count, preceding_two, following_two, is_active, line, column)` -/
  | special (txt : Str) (rep : Int) (prec foll : Option Str) (active : Bool) (line col : Int)
  /-- any other inline token (code span, raw HTML, autolinks, link / image / end-link …): `token_name`, its fields -/
  | other (kind : Str) (fields : List Str) (line col : Int)
  deriving Repr, DecidableEq

def Tok.isText : Tok → Bool | .text .. => true | _ => false
def Tok.isHardBreak : Tok → Bool | .hardBreak .. => true | _ => false
def Tok.isSpecial : Tok → Bool | .special .. => true | _ => false
def RAW_HTML : Str := "raw-html".toList
def Tok.isRawHtml : Tok → Bool | .other k _ _ _ => k == RAW_HTML | _ => false
def Tok.line : Tok → Int | .text _ _ _ l _ => l | .hardBreak _ l _ => l | .special _ _ _ _ _ l _ => l | .other _ _ l _ => l
def Tok.col : Tok → Int | .text _ _ _ _ c => c | .hardBreak _ _ c => c | .special _ _ _ _ _ _ c => c | .other _ _ _ c => c

/-- `inline_blocks and inline_blocks[-1].is_inline_hard_break` -/
def lastIsHardBreak (b : List Tok) : Bool := match b.getLast? with | some t => t.isHardBreak | none => false

/-! ## strings -/

def NL : Char := '\n'
/-- `s.split("\n")` -/
def splitNl (s : Str) : List Str := InlineRecog.splitNl s []
/-- `"\n".join(parts)` -/
def joinNl : List Str → Str
  | [] => []
  | [a] => a
  | a :: b :: r => a ++ NL :: joinNl (b :: r)
/-- `ParserHelper.count_newlines_in_text` -/
def countNl (s : Str) : Nat := s.count NL
/-- `InlineHelper.append_text(a, b)` (default escape map, with text signature) -/
def appendText (a b : Str) : Str := a ++ InlineRecog.appendTextEscape b
/-- `s[-n:]` for `n > 0` -/
def lastN (s : Str) (n : Nat) : Str := s.drop (s.length - n)
/-- Python truthiness of `Optional[str]` -/
def truthy : Option Str → Bool | none => false | some s => !s.isEmpty

/-- first index `≥ k` (counting from `k` at the head of the list) holding one of `cs` -/
def firstFrom (cs : Str) : Str → Nat → Option Nat
  | [], _ => none
  | c :: r, k => if cs.contains c then some k else firstFrom cs r (k + 1)

/-- `ParserHelper.index_any_of(s, cs, start)` = the minimum over `cs` of `s.find(c, start)` = the first index `≥ start` holding one
of `cs` (`none` = `-1`).  (The literal `for` loop over `find_any` with its early `break` is `InlineRecog.indexAnyOf`; the tie checks on
every recorded turn that the real `next_index` IS the first start character at or after `start_index`.) -/
def indexAnyOf (s cs : Str) (start : Nat) : Option Nat := firstFrom cs (s.drop start) start

/-- the `for` loop of `recombine_string_with_whitespace` (pre-increment, white space in front, `start_text_index = 1`):
`split_whitespace_string[start_index]` is an `IndexError` when the white-space string has too few lines. -/
def recombineLines (wsLines : List Str) (marker : Bool) : List Str → Nat → Except LErr (List Str × Nat)
  | [], i => .ok ([], i)
  | l :: r, i =>
    match wsLines[i + 1]? with
    | none => .error .index
    | some ew =>
      let ew' := if marker && !ew.isEmpty then Codec.replaceWithNothing ew else ew
      match recombineLines wsLines marker r (i + 1) with
      | .error e => .error e
      | .ok (r', j) => .ok ((ew' ++ l) :: r', j)

/-- `recombine_string_with_whitespace(text, ws, start_index, add_replace_marker_if_empty)` → `(text, start_index)` -/
def recombineL (text : Str) (wsLines : List Str) (start : Nat) (marker : Bool) : Except LErr (Str × Nat) :=
  match splitNl text with
  | [] => .ok ([], start)
  | first :: rest =>
    match recombineLines wsLines marker rest start with
    | .error e => .error e
    | .ok (r, j) => .ok (joinNl (first :: r), j)

def recombine (text ws : Str) (start : Nat) (marker : Bool) : Except LErr (Str × Nat) :=
  recombineL text (splitNl ws) start marker

/-! ## requests, responses, tables -/

/-- the fields of `InlineRequest` the handlers read (plus `para_owner`'s two fields) -/
structure Request where
  src : Str
  next : Nat
  blocks : List Tok
  remaining : Str
  cur : Str
  curUnres : Str
  line : Int
  col : Int
  /-- `para_owner.extracted_whitespace.split("\n")`; `none` = no `para_owner` -/
  paraWs : Option (List Str)
  /-- `para_owner.rehydrate_index` -/
  rehydrate : Nat
  deriving Repr

/-- `InlineResponse` + the handler's side effects (see the header) -/
structure Response where
  newString : Option Str
  newStringUnres : Option Str
  newIndex : Option Nat
  newTokens : List Tok
  consumeRest : Bool
  original : Option Str
  dLine : Int
  dCol : Int
  reduceBy : Nat
  /-- `inline_request.inline_blocks` after the call -/
  blocks : List Tok
  /-- the last element of `inline_blocks` is not the object it was before the call -/
  lastReplaced : Bool
  /-- `para_owner.rehydrate_index` after the call -/
  rehydrate : Nat
  deriving Repr

/-- a response of a handler that touches nothing but the text -/
def Response.plain (q : Request) (ns : Str) (ni : Nat) (dCol : Int) : Response :=
  ⟨some ns, none, some ni, [], false, none, 0, dCol, 0, q.blocks, false, q.rehydrate⟩

abbrev Handler := Request → Except LErr Response

/-- `InlineHandlerHelper.valid_inline_text_block_sequence_starts` and `__inline_character_handlers` -/
structure Table where
  starts : Str
  handler : Char → Option Handler

/-! ## the environment of one call of `process_inline_text_block` -/

/-- the top of `coalesced_stack` when it is a block quote: the lengths of `bleading_spaces.split("\n")` (`none`: the field is
`None`) and `leading_text_index` -/
structure BQ where
  lead : Option (List Nat)
  idx : Nat
  deriving Repr

structure Env where
  src : Str                     -- `source_text` as passed
  startWs : Str                 -- `starting_whitespace`
  recomb : Option Str           -- `whitespace_to_recombine`
  isSetext : Bool
  isPara : Bool
  paraSpace : Option Str
  line : Int
  col : Int
  /-- `para_owner`: `(extracted_whitespace, rehydrate_index)` -/
  paraOwner : Option (Str × Nat)
  bq : Option BQ
  deriving Repr

structure St where
  line : Int
  col : Int
  endStr : Option Str
  cur : Str
  curUnres : Str
  startWs : Str
  splitPara : Option (List Str)
  lastLine : Int
  lastCol : Int
  start : Nat
  next : Option Nat
  blocks : List Tok
  bqIdx : Nat
  rehydrate : Nat
  deriving Repr

/-- what `sys.monitoring` sees of one turn of the `while next_index != -1` loop -/
structure Iter where
  start : Nat
  next : Nat
  ch : Char
  newIndex : Nat
  line : Int          -- `line_number` / `column_number` handed to the handler
  col : Int
  lastLine : Int      -- `last_line_number` / `last_column_number` at the start of the turn (what a text token gets)
  lastCol : Int
  changed : Bool      -- did `inline_blocks` change in this turn (then the last position moves to the new position)
  deriving Repr, DecidableEq

/-! ## `InlineLineEndHelper` -/

/-- `collect_backwards_while_character(line, -1, " ")`: `(line[:i], line[i:])` for the start `i` of the trailing spaces -/
def stripEnd (s : Str) : Str × Str :=
  let k := s.length - (s.reverse.takeWhile (· == ' ')).length
  (s.take k, s.drop k)

/-- `__is_proper_hard_break(current_string, removed_end_whitespace_size)` -/
def isProperHardBreak (cur : Str) (removedSize : Nat) : Bool :=
  removedSize == 0 && cur.getLast? == some '\\' && lastN cur.dropLast 2 != ['\\', Codec.BS]

/-- `__select_line_ending_normal` (no tabified line) → `(end_string, remaining_line)` -/
def selectLineEndingNormal (isSetext : Bool) (blocks : List Tok) (cur removed : Str) (endStr : Option Str) (remaining : Str) :
    Str × Str :=
  let p : Option Str × Str :=
    if isSetext && lastIsHardBreak blocks && cur.isEmpty then
      let ni := scanOneOf remaining [SP, TAB] 0
      ((if ni != 0 then some (slice remaining 0 ni ++ [Codec.WSPLIT]) else some []), remaining.drop ni)
    else (endStr, remaining)
  ((match p.1 with | none => removed ++ [NL] | some e => e ++ removed ++ [NL]), p.2)

structure LineEnd where
  newString : Str
  newTokens : List Tok
  remaining : Str
  endStr : Option Str
  cur : Str
  deriving Repr

/-- `__handle_line_end` without its block-quote side effect → `(append_to_current_string, new_tokens, remaining_line, end_string,
current_string)`; `whitespace_to_add` is always `None`. -/
def handleLineEnd (isSetext : Bool) (blocks : List Tok) (remaining : Str) (endStr : Option Str) (cur : Str) (line col : Int) :
    LineEnd :=
  let rem1 := (stripEnd remaining).1
  let removed := (stripEnd remaining).2
  let adj : Int := col + (rem1.length : Int)
  if isProperHardBreak cur removed.length then
    ⟨[], [.hardBreak ['\\'] line (adj - 1)], rem1, endStr, cur.dropLast⟩
  else if removed.length ≥ 2 then
    ⟨[], [.hardBreak removed line adj], rem1, endStr, cur⟩
  else
    let r := selectLineEndingNormal isSetext blocks cur removed endStr rem1
    ⟨[NL], [], r.2, some r.1, cur⟩

/-- `__add_recombined_whitespace` → `(new_index, end_string)` -/
def addRecombinedWhitespace (didRecombine : Bool) (src : Str) (newIndex : Nat) (endStr : Str) (isSetext : Bool) :
    Except LErr (Nat × Str) :=
  if didRecombine then
    match Recognisers.extractSpaces src newIndex with
    | none => .error .assertion
    | some (ni, ex) =>
      if !isSetext then .error .assertion
      else if !ex.isEmpty then .ok (ni, endStr ++ ex ++ [Codec.WSPLIT])
      else .ok (newIndex, endStr)
  else .ok (newIndex, endStr)

/-! ## one turn of the loop -/

/-- the values `__handle_next_special_character` hands on -/
structure Mid where
  resp : Response
  line : Int
  col : Int
  wasReset : Bool
  didLineChange : Bool
  wasNewLine : Bool
  remaining : Str
  endStr : Option Str
  cur : Str
  curUnres : Str
  bqIdx : Nat
  deriving Repr

/-- `count_newlines_in_text(raw_tag)` of the last new token when it is raw HTML -/
def rawHtmlNewlines (toks : List Tok) : Nat :=
  match toks.getLast? with
  | some (.other k fs _ _) => if k == RAW_HTML then countNl (fs.headD []) else 0
  | _ => 0

/-- `InlineHandlerHelper.process_inline_handled_character` + the `reduce_remaining_line_by` test that follows it -/
def handled (env : Env) (st : St) (h : Handler) (q : Request) : Except LErr Mid :=
  match h q with
  | .error e => .error e
  | .ok r =>
    let wasReset := decide (r.dCol < 0)
    let col := if wasReset then -r.dCol else st.col + r.dCol
    let bqIdx := if env.bq.isSome then st.bqIdx + rawHtmlNewlines r.newTokens else st.bqIdx
    if r.reduceBy != 0 then .error .unmodelled
    else .ok ⟨r, st.line + r.dLine, col, wasReset, decide (r.dLine ≠ 0), false, q.remaining, st.endStr, st.cur, st.curUnres, bqIdx⟩

/-- `InlineLineEndHelper.process_inline_new_line` (the caller found no handler for `source_text[next_index]`) -/
def newLine (env : Env) (src : Str) (st : St) (q : Request) (c : Char) : Except LErr Mid :=
  if c != NL then .error .assertion
  else
    let le := handleLineEnd env.isSetext st.blocks q.remaining st.endStr st.cur st.line st.col
    let bqIdx := if env.bq.isSome then st.bqIdx + 1 else st.bqIdx
    let rehydrate := if env.paraOwner.isSome then st.rehydrate + 1 else st.rehydrate
    let mk (ni : Nat) (e : Option Str) : Mid :=
      ⟨⟨some le.newString, none, some ni, le.newTokens, false, none, 0, 0, 0, st.blocks, false, rehydrate⟩,
        st.line, st.col, false, false, true, le.remaining, e, le.cur, st.curUnres, bqIdx⟩
    if le.newTokens.isEmpty then
      match le.endStr with
      | none => .error .assertion
      | some e =>
        match addRecombinedWhitespace (truthy env.recomb) src (q.next + 1) e env.isSetext with
        | .error err => .error err
        | .ok (ni, e') => .ok (mk ni (some e'))
    else .ok (mk (q.next + 1) le.endStr)

/-- what `__cleanup_after_handling` and `__create_new_text_token` leave -/
structure Mid2 where
  newString : Option Str
  newTokens : List Tok
  reset : Bool
  remaining : Str
  endStr : Option Str
  cur : Str
  curUnres : Str
  startWs : Str
  blocks : List Tok
  appended : Bool           -- did the loop itself append anything to `inline_blocks`
  deriving Repr

/-- `__cleanup_after_handling` then `__create_new_text_token` -/
def cleanupCreate (st : St) (m : Mid) : Mid2 :=
  let c : Option Str × List Tok × Bool × Str × Option Str × Str × Str :=
    if m.resp.consumeRest then (some [], [], true, [], none, m.cur, m.curUnres)
    else (m.resp.newString, m.resp.newTokens, false, m.remaining, m.endStr, appendText m.cur m.remaining,
          appendText m.curUnres m.remaining)
  let ns := c.1; let nt := c.2.1; let reset := c.2.2.1; let rem := c.2.2.2.1; let e := c.2.2.2.2.1
  let cur := c.2.2.2.2.2.1; let cu := c.2.2.2.2.2.2
  if nt.isEmpty then ⟨ns, nt, reset, rem, e, cur, cu, st.startWs, m.resp.blocks, false⟩
  else if !cur.isEmpty then
    ⟨ns, nt, true, rem, none, cur, cu, [], m.resp.blocks ++ [.text cur st.startWs e st.lastLine st.lastCol] ++ nt, true⟩
  else if !st.startWs.isEmpty then
    ⟨ns, nt, reset, rem, e, cur, cu, [],
      m.resp.blocks ++ [.text [] (Codec.replaceWithNothing st.startWs) none st.lastLine st.lastCol] ++ nt, true⟩
  else ⟨ns, nt, reset, rem, e, cur, cu, st.startWs, m.resp.blocks ++ nt, true⟩

/-- `split_leading_spaces[block_quote_token.leading_text_index]` when the top of the stack is a block quote; `0` otherwise -/
def bqLen (env : Env) (idx : Nat) : Except LErr Int :=
  match env.bq with
  | none => .ok 0
  | some b =>
    match b.lead with
    | none => .error .assertion
    | some ls =>
      match ls[idx]? with
      | none => .error .index
      | some n => .ok (n : Int)

/-- `__adjust_line_and_column_number` → `(line_number, column_number, split_para_space)` -/
def adjustLineCol (env : Env) (m : Mid) (remaining : Str) (splitPara : Option (List Str)) :
    Except LErr (Int × Int × Option (List Str)) :=
  if m.wasNewLine then
    match bqLen env m.bqIdx with
    | .error e => .error e
    | .ok b =>
      match splitPara with
      | none => .error .assertion
      | some [] => .error .assertion
      | some (_ :: rest) =>
        match rest with
        | [] => .error .index
        | p :: _ => .ok (m.line + 1, 1 + b + (p.length : Int), some rest)
  else if !m.wasReset then .ok (m.line, m.col + (remaining.length : Int), splitPara)
  else if !m.didLineChange then .error .assertion
  else
    match bqLen env m.bqIdx with
    | .error e => .error e
    | .ok b => .ok (m.line, m.col + b, splitPara)

/-- the first half of `__complete_inline_loop`: the new `current_string` -/
def completeCur (cur newString : Str) (original unres : Option Str) : Except LErr Str :=
  match original with
  | some o =>
    if unres.isSome && unres != some o then .error .assertion
    else .ok (cur ++ Codec.replacementMarkers o (appendText [] newString))
  | none => .ok (appendText cur newString)

/-- the second half: the new `current_string_unresolved` -/
def completeUnres (curUnres newString : Str) (endStr unres : Option Str) : Except LErr Str :=
  let ns : Except LErr Str :=
    if newString == [NL] && truthy endStr then
      let parts := splitNl (endStr.getD [])
      if parts.length < 2 then .error .assertion else .ok (parts.getD (parts.length - 2) [] ++ newString)
    else .ok newString
  match ns with
  | .error e => .error e
  | .ok ns => if truthy unres then .ok (curUnres ++ unres.getD []) else .ok (appendText curUnres ns)

/-- the request `__handle_next_inline_character_setup` builds -/
def mkRequest (env : Env) (src : Str) (st : St) (next : Nat) : Request :=
  ⟨src, next, st.blocks, slice src st.start next, st.cur, st.curUnres, st.line, st.col, env.paraOwner.map (fun p => splitNl p.1), st.rehydrate⟩

/-- `__handle_next_special_character`: a registered handler, or the line end -/
def dispatchChar (T : Table) (env : Env) (src : Str) (st : St) (q : Request) (c : Char) : Except LErr Mid :=
  match T.handler c with
  | some h => handled env st h q
  | none => newLine env src st q c

/-- the rest of `__handle_next_inline_character` after the character was handled -/
def finish (T : Table) (env : Env) (src : Str) (st : St) (next : Nat) (c : Char) (m : Mid) : Except LErr (St × Iter) :=
  let m2 := cleanupCreate st m
  match adjustLineCol env m m2.remaining st.splitPara with
  | .error e => .error e
  | .ok (line, col, splitPara) =>
    let cur1 := if m2.reset then [] else m2.cur
    let cu1 := if m2.reset then [] else m2.curUnres
    let changed := st.blocks.length != m2.blocks.length ||
      (!st.blocks.isEmpty && (m2.appended || m.resp.lastReplaced))
    let lastLine := if changed then line else st.lastLine
    let lastCol := if changed then col else st.lastCol
    match m.resp.newIndex, m2.newString with
    | none, _ => .error .assertion
    | some _, none => .error .assertion
    | some ni, some ns =>
      match completeCur cur1 ns m.resp.original m.resp.newStringUnres with
      | .error e => .error e
      | .ok cur2 =>
        match completeUnres cu1 ns m2.endStr m.resp.newStringUnres with
        | .error e => .error e
        | .ok cu2 =>
          .ok (⟨line, col, m2.endStr, cur2, cu2, m2.startWs, splitPara, lastLine, lastCol, ni,
                indexAnyOf src T.starts ni, m2.blocks, m.bqIdx, m.resp.rehydrate⟩,
               ⟨st.start, next, c, ni, st.line, st.col, st.lastLine, st.lastCol, changed⟩)

/-- `__handle_next_inline_character`: one turn of the loop. -/
def step (T : Table) (env : Env) (src : Str) (st : St) (next : Nat) : Except LErr (St × Iter) :=
  match src[next]? with
  | none => .error .index
  | some c =>
    match dispatchChar T env src st (mkRequest env src st next) c with
    | .error e => .error e
    | .ok m => finish T env src st next c m

/-- the `while next_index != -1` loop -/
def loop (T : Table) (env : Env) (src : Str) : Nat → St → List Iter → Except LErr (St × List Iter)
  | 0, st, tr =>
    match st.next with
    | none => .ok (st, tr)
    | some _ => .error .fuel
  | fuel + 1, st, tr =>
    match st.next with
    | none => .ok (st, tr)
    | some next =>
      match step T env src st next with
      | .error e => .error e
      | .ok (st', it) => loop T env src fuel st' (tr ++ [it])

/-- `__process_inline_text_block_prepare` → `(source_text, split_para_space)` -/
def prepare (env : Env) : Except LErr (Str × Option (List Str)) :=
  match (if truthy env.recomb then (recombine env.src (env.recomb.getD []) 0 false).map (·.1) else .ok env.src) with
  | .error e => .error e
  | .ok src =>
    if env.isPara || env.isSetext then
      match env.paraSpace with
      | none => .error .assertion
      | some p => .ok (src, some (splitNl p))
    else .ok (src, none)

/-- `__complete_inline_block_processing` up to (not including) the emphasis pass → `inline_blocks` -/
def complete (env : Env) (src : Str) (st : St) : List Tok :=
  let cur := if st.start < src.length then appendText st.cur (src.drop st.start) else st.cur
  let processedOnce := !st.blocks.isEmpty || st.start != 0
  if !cur.isEmpty || !processedOnce then
    let ni := scanOneOf cur [SP, TAB] 0
    if env.isSetext && st.endStr.isNone && lastIsHardBreak st.blocks && ni != 0 then
      st.blocks ++ [.text (cur.drop ni) st.startWs (some (slice cur 0 ni ++ [Codec.WSPLIT])) st.lastLine st.lastCol]
    else st.blocks ++ [.text cur st.startWs st.endStr st.lastLine st.lastCol]
  else st.blocks

/-- the state before the first turn -/
def initSt (T : Table) (env : Env) (src : Str) (splitPara : Option (List Str)) : St :=
  ⟨env.line, env.col, some [], [], [], env.startWs, splitPara, env.line, env.col, 0, indexAnyOf src T.starts 0, [],
    (match env.bq with | some b => b.idx | none => 0), (match env.paraOwner with | some p => p.2 | none => 0)⟩

structure Result where
  blocks : List Tok         -- `inline_blocks` handed to `EmphasisHelper.resolve_inline_emphasis`
  trace : List Iter
  bqIdx : Nat               -- `leading_text_index` of the block quote on top of the stack
  rehydrate : Nat           -- `para_owner.rehydrate_index`
  src : Str                 -- `source_text` after `__process_inline_text_block_prepare`
  lastLine : Int            -- `last_line_number` / `last_column_number` when the loop ends (the final text token gets them)
  lastCol : Int
  deriving Repr

/-- `process_inline_text_block` with explicit fuel -/
def runFuel (T : Table) (env : Env) (fuel : Nat) : Except LErr Result :=
  match prepare env with
  | .error e => .error e
  | .ok (src, sp) =>
    match loop T env src fuel (initSt T env src sp) [] with
    | .error e => .error e
    | .ok (st, tr) => .ok ⟨complete env src st, tr, st.bqIdx, st.rehydrate, src, st.lastLine, st.lastCol⟩

/-- one turn per character of the prepared text always suffices (`Props/InlineLoop.lean`, `inline_loop_terminates`) -/
def fuelOf (env : Env) : Nat :=
  match prepare env with
  | .ok (src, _) => src.length + 1
  | .error _ => 0

def run (T : Table) (env : Env) : Except LErr Result := runFuel T env (fuelOf env)

/-! ## the handlers of `inline_handler_helper.py` and the table of the default configuration -/

/-- `__handle_inline_control_character` -/
def controlHandler : Handler := fun q =>
  match q.src[q.next]? with
  | none => .error .index
  | some c => .ok (Response.plain q [Codec.ESC, c] (q.next + 1) 1)

/-- the column handed to a new token: `column_number + len(remaining_line)` -/
def Request.tokCol (q : Request) : Int := q.col + (q.remaining.length : Int)

/-- `__handle_inline_special` for an emphasis character (`__handle_inline_special_character_emphasis`) -/
def emphasisHandler (c : Char) : Handler := fun q =>
  match Recognisers.collectWhileCharVerified q.src q.next c with
  | .error e => .error (.ofI (.ofR e))
  | .ok (cnt, ni) =>
    .ok ⟨some [], none, some ni,
      [.special (slice q.src q.next ni) cnt (some (slice q.src (q.next - 2) q.next)) (some (slice q.src ni (min q.src.length (ni + 2))))
        true q.line q.tokCol],
      false, none, 0, cnt, 0, q.blocks, false, q.rehydrate⟩

/-- `__handle_inline_special` for `[` (task lists off) and for `![` -/
def bracketHandler (len : Nat) : Handler := fun q =>
  .ok ⟨some [], none, some (q.next + len),
    [.special (slice q.src q.next (q.next + len)) len none none true q.line q.tokCol],
    false, none, 0, len, 0, q.blocks, false, q.rehydrate⟩

/-- `__handle_inline_image_link_start_character` -/
def bangHandler : Handler := fun q =>
  if Recognisers.isCharAt q.src (q.next + 1) '[' then bracketHandler 2 q
  else .ok (Response.plain q ['!'] (q.next + 1) 1)

/-- `InlineBackslashHelper.handle_inline_backslash` -/
def backslashHandler : Handler := fun q =>
  match InlineRecog.handleInlineBackslash q.src q.next true with
  | .error e => .error (.ofI (.ofR e))
  | .ok r =>
    .ok ⟨some r.newString, some r.unresolved, some r.newIndex, [], false, none, 0, (r.newIndex : Int) - (q.next : Int), 0,
      q.blocks, false, q.rehydrate⟩

/-- code points → characters; a lone surrogate cannot be a Lean `Char` -/
def ofCps : List Nat → Except LErr Str
  | [] => .ok []
  | n :: r =>
    if h : n.isValidChar then
      match ofCps r with
      | .error e => .error e
      | .ok s => .ok (Char.ofNatAux n h :: s)
    else .error .unmodelled

/-- `InlineCharacterReferenceHelper.handle_character_reference` -/
def charRefHandler : Handler := fun q =>
  match InlineRecog.handleCharacterReference q.src q.next with
  | .error e => .error (.ofI e)
  | .ok r =>
    match ofCps r.newCps with
    | .error e => .error e
    | .ok ns =>
      .ok ⟨some ns, r.unresolved, some r.newIndex, [], false, r.original, 0, (r.newIndex : Int) - (q.next : Int), 0,
        q.blocks, false, q.rehydrate⟩

def ICODE : Str := "icode-span".toList

/-- `InlineBacktickHelper.handle_inline_backtick` -/
def backtickHandler : Handler := fun q =>
  match InlineRecog.handleInlineBacktick q.src q.next with
  | .error e => .error (.ofI e)
  | .ok r =>
    let toks : List Tok := match r.span with
      | none => []
      | some (t, k, l, tr) => [.other ICODE [t, k, l, tr] q.line q.tokCol]
    .ok ⟨some r.newString, none, some r.newIndex, toks, false, none, r.dLine, r.dCol, 0, q.blocks, false, q.rehydrate⟩

def kindName : Nat → Str
  | 1 => "uri-autolink".toList
  | 2 => "email-autolink".toList
  | _ => RAW_HTML

/-- `InlineAutoLinkHelper.handle_angle_brackets`; with a `para_owner`, `parse_raw_html` recombines the tag with the paragraph's
leading white space (`add_replace_marker_if_empty=True`) and moves `rehydrate_index`. -/
def angleHandler : Handler := fun q =>
  match InlineRecog.angleFind q.src q.next with
  | .error e => .error (.ofI e)
  | .ok none =>
    match InlineRecog.calculateDeltas ['<'] with
    | .error e => .error (.ofI e)
    | .ok (dl, dc) => .ok ⟨some ['<'], none, some (q.next + 1), [], false, none, dl, dc, 0, q.blocks, false, q.rehydrate⟩
  | .ok (some (kind, between, ci)) =>
    let rc : Except LErr (Str × Nat) :=
      match kind, q.paraWs with
      | 3, some ws => recombineL between ws q.rehydrate true
      | _, _ => .ok (between, q.rehydrate)
    match rc with
    | .error e => .error e
    | .ok (txt, reh) =>
      match InlineRecog.calculateDeltas ('<' :: txt ++ ['>']) with
      | .error e => .error (.ofI e)
      | .ok (dl, dc) =>
        .ok ⟨some [], none, some ci, [.other (kindName kind) [txt] q.line q.tokCol], false, none, dl, dc, 0, q.blocks, false, reh⟩

/-- `valid_inline_text_block_sequence_starts` of the default configuration (checked against the real value by the tie) -/
def realStarts : Str := ['\n', '`', '\\', '&', '<', '[', ']', '*', '_', '!', '\x08', '\x07', '\x02', '\x03', '\x05']

/-- the handler table of the default configuration; `oracle next` = the recorded real response of the `]` handler
(`LinkSearchHelper.look_for_link_or_image`) at source index `next`. -/
def realTable (oracle : Nat → Option Response) : Table where
  starts := realStarts
  handler := fun c =>
    if c == '`' then some backtickHandler
    else if c == '\\' then some backslashHandler
    else if c == '&' then some charRefHandler
    else if c == '<' then some angleHandler
    else if c == '[' then some (bracketHandler 1)
    else if c == ']' then some fun q => match oracle q.next with | some r => .ok r | none => .error .unmodelled
    else if c == '*' || c == '_' then some (emphasisHandler c)
    else if c == '!' then some bangHandler
    else if Codec.isSpecial c then some controlHandler
    else none

/-! ## `InlineProcessor.__process_next_coalesce_item`: which tokens go to the inline pass -/

inductive Leaf where
  | paragraph | setext | atx | fenced | indented | otherTok
  deriving Repr, DecidableEq

inductive Action where
  | copy            -- `coalesced_list.append(token)`
  | para            -- `__parse_paragraph`  (is_para, para_space = extracted_whitespace, para_owner)
  | setext          -- `__parse_setext_heading`  (is_setext, whitespace_to_recombine = para_space = extracted_whitespace)
  | atx             -- `__parse_atx_heading`  (starting_whitespace = extracted_whitespace, column shifted)
  | codeBlock       -- `__parse_code_block`: a fresh text token, no inline pass
  deriving Repr, DecidableEq

/-- the branch taken for a token (is it a text token?) given the LAST token of `coalesced_list` -/
def dispatch (isText : Bool) (last : Leaf) : Action :=
  if isText then
    match last with
    | .fenced | .indented => .codeBlock
    | .setext => .setext
    | .atx => .atx
    | .paragraph => .para
    | .otherTok => .copy
  else .copy

/-- the environment `__parse_atx_heading` builds: column = token column + len(extracted_whitespace) + hash_count -/
def atxEnv (txt ews : Str) (line col : Int) (hashCount : Nat) (bq : Option BQ) : Env :=
  ⟨txt, ews, none, false, false, none, line, col + (ews.length : Int) + (hashCount : Int), none, bq⟩

/-- the environment `__parse_setext_heading` builds -/
def setextEnv (txt ews : Str) (line col : Int) (bq : Option BQ) : Env :=
  ⟨txt, [], some ews, true, false, some ews, line, col, none, bq⟩

/-- the environment `__parse_paragraph` builds (`paraWs` = the paragraph token's `extracted_whitespace` after `add_whitespace`) -/
def paraEnv (txt ews : Str) (line col : Int) (paraWs : Str) (rehydrate : Nat) (bq : Option BQ) : Env :=
  ⟨txt, [], none, false, true, some ews, line, col, some (paraWs, rehydrate), bq⟩

end Verif.Model.InlineLoop
