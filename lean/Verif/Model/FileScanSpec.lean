/-
  Specification of file discovery written from the *documentation*
  (newdocs/src/user-guide.md, "Basic Scanning" and "Advanced Scanning", and the text of
  property C19), not from the code.  Files are identified by their component path
  (`Path`), so "the same file" means the same object whatever the spelling.

  Guide: "specifying one or more files and directories to scan for Markdown `.md` files";
  "will scan every Markdown `.md` file in the `examples` directory"; "if different path
  arguments specify the same filename, that filename will only be added once"; "that list of
  files to scan is also sorted into alphabetical order"; `--recurse`: "any directory below";
  `-ae`: "that set of filename extensions to be replaced with a comma-separated list";
  "If the path contains a `?` character or a `*` character, the Python glob library is
  used …  the `recursive` flag … is not enabled"; "only filenames ending with a `.md`
  extension will be processed".
  Property: "A path that does not exist, a named file that is not eligible, or a glob
  without a match is an error and nothing is scanned; arguments that select no file at all
  end in the no-files-to-scan result."
-/
import Verif.Model.FileScan
namespace Verif.Model.FileScan

/-- `"/".join(components)`. -/
def joinSlash : List Str → Str
  | [] => []
  | [a] => a
  | a :: b :: rest => a ++ '/' :: joinSlash (b :: rest)

/-- The canonical spelling of the file with identity `P`. -/
def render (P : Path) : Str := joinSlash P

/-- "filenames ending with an `.md` extension": a test on the file *name*. -/
def eligibleName (exts : List Str) (n : Str) : Bool := exts.any fun e => endsWith n e

def eligibleLast (exts : List Str) (P : Path) : Bool :=
  match P.getLast? with
  | some n => eligibleName exts n
  | none => false

/-- `q` lies directly in directory `P`, or anywhere below it with `--recurse`. -/
def isUnder (recurse : Bool) (P q : Path) : Bool :=
  match stripPrefix P q with
  | some [_] => true
  | some (_ :: _ :: _) => recurse
  | _ => false

/-- The eligible files a directory designates. -/
def dirFiles (t : Tree) (recurse : Bool) (exts : List Str) (P : Path) : List Path :=
  (t.filter fun e => e.2 == .file && isUnder recurse P e.1 && eligibleLast exts e.1).map (·.1)

/-- What a literal path designates; `none` = error (does not exist / named file not eligible). -/
def specPath (t : Tree) (recurse : Bool) (exts : List Str) (p : Str) : Option (List Path) :=
  match resolve t p with
  | none => none
  | some P =>
    if kindAt t P = some .dir then some (dirFiles t recurse exts P)
    else if eligibleLast exts P then some [P]
    else none

/-- What one argument designates.  A glob is expanded by the glob library and every match is
treated as a path; matches that are not eligible files are not "named" and are skipped. -/
def specArg (t : Tree) (recurse : Bool) (exts : List Str) (a : Str) : Option (List Path) :=
  if isGlobArg a then
    (if (glob t a).isEmpty then none
     else some ((glob t a).flatMap fun g => (specPath t recurse exts g).getD []))
  else specPath t recurse exts a

/-- The documented result: `none` = error, nothing is scanned; otherwise every designated file
once (by identity), in canonical spelling, in sorted order. -/
def spec (t : Tree) (o : Opts) (args : List Str) : Option (List Str) :=
  let exts := splitOn ',' o.exts
  if args.any fun a => (specArg t o.recurse exts a).isNone then none
  else some (sortStr (setAddAll []
    ((args.flatMap fun a => (specArg t o.recurse exts a).getD []).map render)))

/-- The documented end result of the invocation. -/
def specOutcome (t : Tree) (o : Opts) (args : List Str) : Outcome :=
  match spec t o args with
  | none => if o.listOnly then .listedNone else .noFiles            -- error: nothing is scanned
  | some [] => if o.listOnly then .listedNone else .noFiles          -- nothing selected
  | some (f :: fs) => if o.listOnly then .listed (f :: fs) else .scan (f :: fs)

/-- An argument whose spelling is canonical: no empty, `.` or `..` component
(so no `./`, `//`, leading or trailing `/`, `/.`). -/
def Normalised (a : Str) : Prop := ∀ c ∈ splitOn '/' a, c ≠ [] ∧ c ≠ ['.'] ∧ c ≠ ['.', '.']

instance (a : Str) : Decidable (Normalised a) := by unfold Normalised; infer_instance

end Verif.Model.FileScan
