/-
  RuleSpec — the documented conditions of the line-oriented rules MD009, MD010, MD012, MD013, MD047
  (REFERENCE, from newdocs/src/plugins/rule_md009.md … rule_md047.md).  Core Lean only.
-/
import Verif.Model.RuleSpec.Basic
namespace Verif.Model.RuleSpec
open Verif.Model.LeanMark

/-! ## MD009 — trailing spaces
  "This rule triggers when any line of the document ends with more than one space, except for the number
  of spaces specified by the `br_spaces` configuration value" — the example under that sentence ends with
  ONE space, and the Correct Scenarios say "does not trigger if a line does not end with any spaces or if
  the line ends with the exact number of spaces specified by `br_spaces`": so a line with n ≥ 1 trailing
  spaces triggers unless n = br_spaces.  `strict`: "can be triggered on any eligible line (non code block
  line) with trailing spaces, ignoring `br_spaces`".  "the Indented Code Blocks and Fenced Code Blocks do
  not trigger this rule for any of their lines."  `list_item_empty_lines`: a blank line inside a list item
  does not trigger when it carries exactly "the number of spaces required to satisfy the indentation
  requirements of the List element", "decided by the current List Item element that has the Blank Line".
  anchor: the line itself; column = the first trailing space (documented nowhere, not compared). -/
structure C009 where
  brSpaces : Nat := 2
  strict : Bool := false
  listItemEmptyLines : Bool := false

/-- text of `l` from visual column `target` (0-based) on; the part of a tab that reaches beyond `target`
    is given as spaces. -/
def dropToCol : List Char → Nat → Nat → List Char
  | [], _, _ => []
  | c :: cs, col, target =>
    if col ≥ target then c :: cs
    else if c == '\t' then
      let e := col + (4 - col % 4)
      if e > target then List.replicate (e - target) ' ' ++ cs else dropToCol cs e target
    else dropToCol cs (col + 1) target

/-- content indentation (in columns from the start of the line) required by the list item whose marker
    stands at 1-based column `col` of line `l` (CommonMark §5.2: W + N). -/
def itemIndent (l : Line) (col : Nat) : Nat :=
  let t := dropToCol l 0 (col - 1)
  match listMarker? t with
  | some (_, _, _, w) =>
    let after := t.drop w
    let sp := wsCols after (col - 1 + w)
    if isBlankChars after || sp ≥ 5 then col - 1 + w + 1 else col - 1 + w + sp
  | none => col - 1

/-- the innermost list item whose lines include line `i`. -/
def itemAt (cs : List Cont) (i : Nat) : Option Cont :=
  (cs.filter (fun c => c.k == .item && c.line ≤ i && i ≤ c.endLine)).getLast?

/-- the closest line above line `i` that is not made of white space only (`fuel` = `i`); 0 if none. -/
def lastTextAbove (ls : List Line) : Nat → Nat → Nat
  | 0, _ => 0
  | fuel + 1, i =>
    if i ≤ 1 then 0 else
    match lineAt ls (i - 1) with
    | some l => if isBlankChars l then lastTextAbove ls fuel (i - 1) else i - 1
    | none => 0

/-- the blank line `l` at line `i` is exempted by `list_item_empty_lines`: it carries exactly the
    indentation required by "the current List Item element" — the innermost item of the last line of
    text above it (the list that the spaces are meant to keep open). -/
def listBlankOk (ls : List Line) (cs : List Cont) (i : Nat) (l : Line) : Bool :=
  l.all (· == ' ') &&
  match itemAt cs (lastTextAbove ls i i) with
  | some it =>
    match lineAt ls it.line with
    | some il => l.length == itemIndent il it.col
    | none => false
  | none => false

def md009Line (c : C009) (ls : List Line) (bs : List Block) (cs : List Cont) (i : Nat) (l : Line) : Bool :=
  let n := trailingSpaces l
  n ≥ 1 && !inCode bs i && (c.strict || n != c.brSpaces) &&
  !(c.listItemEmptyLines && listBlankOk ls cs i l)

def md009 (c : C009) (ls : List Line) (evs : List Ev) : List Hit :=
  let bs := blocks evs
  let cs := conts evs
  perLine (fun i l => if md009Line c ls bs cs i l then [(i, none)] else []) ls

/-! ## MD010 — hard tabs
  "This rule triggers when any line of the document has a hard tab character … If multiple tab characters
  are present, each occurrence of a tab character will trigger this rule independently."
  `code_blocks` (default True): "Whether hard tabs are searched for within code blocks."
  anchor: the line; column = the (tab-expanded, 1-based) column of the tab character (the rule's message
  is "Column: n"). -/
structure C010 where
  codeBlocks : Bool := true

/-- 1-based visual columns of the tab characters of a line (`col` = 0-based column of the next character). -/
def tabCols : List Char → Nat → List Nat
  | [], _ => []
  | c :: cs, col =>
    if c == '\t' then (col + 1) :: tabCols cs (col + (4 - col % 4)) else tabCols cs (col + 1)

def md010 (c : C010) (ls : List Line) (evs : List Ev) : List Hit :=
  let bs := blocks evs
  perLine (fun i l => if c.codeBlocks || !inCodeContent bs i then (tabCols l 0).map (fun k => (i, some k)) else []) ls

/-! ## MD012 — multiple consecutive blank lines
  "This rule triggers if there are blank lines in any Container Block elements, in certain HTML Block
  elements, and between existing elements, and the count of consecutive Blank Line elements exceeds the
  configured maximum."  Blank lines inside code blocks are content ("except for when they are present
  within an Indented Code Block element or a Fenced Code Block element").  The three places are counted
  separately: a run of blank lines consists of consecutive blank lines with the same enclosing containers
  (a blank line in a block quote and the blank line after that block quote are not one run).
  anchor: the last line of the run (one report per run). -/
structure C012 where
  maximum : Nat := 1

/-- the containers whose lines include line `i` (identified by the position of their marker). -/
def scopeOf (v : View) (i : Nat) : List (Nat × Nat) :=
  (v.cs.filter (fun c => c.line ≤ i && i ≤ c.endLine)).map (fun c => (c.line, c.col))

def blank12 (v : View) (i : Nat) : Bool :=
  match lineAt v.ls i with
  | some l => isBlankLine v none i l
  | none => false

/-- number of consecutive blank lines with enclosing containers `sc` directly above line `i` (`fuel` = `i`). -/
def runAbove (v : View) (sc : List (Nat × Nat)) : Nat → Nat → Nat
  | 0, _ => 0
  | fuel + 1, i =>
    if i ≤ 1 then 0
    else if blank12 v (i - 1) && scopeOf v (i - 1) == sc then 1 + runAbove v sc fuel (i - 1) else 0

/-- line `i` is the last line of a run of more than `maximum` blank lines. -/
def md012Line (c : C012) (v : View) (i : Nat) : Bool :=
  blank12 v i &&
  !(blank12 v (i + 1) && scopeOf v (i + 1) == scopeOf v i) &&
  1 + runAbove v (scopeOf v i) i i > c.maximum

def md012 (c : C012) (ls : List Line) (evs : List Ev) : List Hit :=
  let v := view ls evs
  perLine (fun i _ => if md012Line c v i then [(i, none)] else []) ls

/-! ## MD013 — line length
  "This rule triggers if the length of any line exceeds a given character count."  Long last words: "a
  check is performed to see if there is any whitespace beyond the specified character count.  If there
  are no whitespace characters, then this rule will not trigger"; `strict` "forces this rule to trigger
  if any character is present past the specified line length".  Headings and code blocks have their own
  length (`heading_line_length`, `code_block_line_length`) and switch (`headings`, `code_blocks`).
  `stern` is NOT formalised: its sentence ("allowing lines without any spaces past the specified line
  length while triggering on lines that are too long") does not separate it from the default.
  anchor: the line (column 1). -/
structure C013 where
  lineLength : Nat := 80
  headingLineLength : Nat := 80
  codeBlockLineLength : Nat := 80
  headings : Bool := true
  codeBlocks : Bool := true
  strict : Bool := false

inductive LineKind where
  | normal | heading | code
  deriving DecidableEq, Repr

def kindOf (bs : List Block) (i : Nat) : LineKind :=
  if inCode bs i then .code else if inHeading bs i then .heading else .normal

def limit (c : C013) : LineKind → Nat
  | .normal => c.lineLength
  | .heading => c.headingLineLength
  | .code => c.codeBlockLineLength

def exempt (c : C013) : LineKind → Bool
  | .normal => false
  | .heading => !c.headings
  | .code => !c.codeBlocks

/-- there is white space at or beyond character index `n`. -/
def wsBeyond (l : Line) (n : Nat) : Bool := (l.drop n).any isSpTab

def md013Line (c : C013) (bs : List Block) (i : Nat) (l : Line) : Bool :=
  let k := kindOf bs i
  decide (l.length > limit c k) && !exempt c k && (c.strict || wsBeyond l (limit c k))

def md013 (c : C013) (ls : List Line) (evs : List Ev) : List Hit :=
  let bs := blocks evs
  perLine (fun i l => if md013Line c bs i l then [(i, some 1)] else []) ls

/-! ## MD047 — each file should end with a single newline character
  "This rule triggers when the document does not end with a single newline character.  This includes
  triggering on a final line that has a newline character followed by one or more whitespace characters."
  In the editor view: the last line of the document is not empty.  (A document ending with two or more
  newline characters ends with a blank line — Fix Description: "If the document does not end with a blank
  line, a blank line is added" — and its surplus newline is MD012's subject.)
  anchor: the last line. -/
def md047 (ls : List Line) (_evs : List Ev) : List Hit :=
  match ls.getLast? with
  | some l => if l.isEmpty then [] else [(ls.length, none)]
  | none => []

end Verif.Model.RuleSpec
