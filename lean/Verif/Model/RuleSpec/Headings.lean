/-
  RuleSpec — the documented conditions of the heading rules MD001, MD003, MD018, MD019, MD022, MD023,
  MD024, MD025, MD026, MD041 (REFERENCE, from newdocs/src/plugins/rule_md0xx.md).  Core Lean only.
  Front-matter is an extension that is off by default; the conditions are those of a document without
  front-matter (the `front_matter_title` items have no effect then).
-/
import Verif.Model.RuleSpec.Basic
import Verif.Model.RuleSpec.Lines
namespace Verif.Model.RuleSpec
open Verif.Model.LeanMark

/-! ## headings of a document -/
inductive HStyle where
  | atx | atxClosed | setext
  deriving DecidableEq, Repr, BEq

structure Heading where
  level : Nat
  style : HStyle
  line : Nat
  col : Nat
  endLine : Nat
  /-- raw heading text: the source lines of the heading without markers, joined by LF -/
  text : List Char
  b : Block

/-- the ATX heading on line text `t` (which starts at the first `#`) has a closing sequence. -/
def atxClosed (t : List Char) : Bool :=
  let n := countWhile (· == '#') t
  let r := stripWs (t.drop n)
  match atx? t with
  | some (_, body) => r.getLast? == some '#' && body != r
  | none => false

def headingOf (ls : List Line) (b : Block) : Option Heading :=
  match b.k with
  | .heading lvl setext =>
    let txt := joinLines (b.payload.map (·.text))
    let style :=
      if setext then HStyle.setext else
      match lineAt ls b.line with
      | some l => if atxClosed (dropToCol l 0 (b.col - 1)) then HStyle.atxClosed else HStyle.atx
      | none => HStyle.atx
    some ⟨lvl, style, b.line, b.col, b.endLine, txt, b⟩
  | _ => none

def headings (ls : List Line) (bs : List Block) : List Heading := bs.filterMap (headingOf ls)

/-- the line of the heading's marker: the `#` line of an Atx heading, the underline of a SetExt heading. -/
def Heading.markLine (h : Heading) : Nat := if h.style == .setext then h.endLine else h.line

/-- the line on which the heading text ends. -/
def Heading.lastTextLine (h : Heading) : Nat :=
  match h.b.payload.getLast? with
  | some p => p.line
  | none => h.line

/-! ## MD001 — heading levels should only increment by one level at a time
  "This rule triggers when a heading level is increased by more than one level"; "does not trigger when
  there is a single level increase between heading items or any decrease".
  anchor: the heading whose level jumps. -/
def md001Go : Option Nat → List Heading → List Hit
  | _, [] => []
  | none, h :: hs => md001Go (some h.level) hs
  | some p, h :: hs => (if h.level > p + 1 then [(h.line, none)] else []) ++ md001Go (some h.level) hs

def md001 (ls : List Line) (evs : List Ev) : List Hit := md001Go none (headings ls (blocks evs))

/-! ## MD003 — heading style
  style ∈ consistent | atx | atx_closed | setext | setext_with_atx | setext_with_atx_closed; the table
  of the page gives the meaning of each; `consistent`: "The first heading in the document specifies the
  style for the rest of the document".  `allow-setext-update`: with `consistent` and a document that
  started as `setext`, a level 3 (or higher) Atx heading switches the style to `setext_with_atx`.
  anchor: the marker line of the heading with the wrong style (the underline of a SetExt heading). -/
inductive S003 where
  | consistent | atx | atxClosed | setext | setextWithAtx | setextWithAtxClosed
  deriving DecidableEq, Repr, BEq

structure C003 where
  style : S003 := .consistent
  allowSetextUpdate : Bool := false

/-- heading `h` conforms to the (non-`consistent`) style `s`. -/
def okStyle (s : S003) (h : Heading) : Bool :=
  match s with
  | .consistent => true
  | .atx => h.style == .atx
  | .atxClosed => h.style == .atxClosed
  | .setext => h.style == .setext
  | .setextWithAtx => if h.level ≤ 2 then h.style == .setext else h.style == .atx
  | .setextWithAtxClosed => if h.level ≤ 2 then h.style == .setext else h.style == .atxClosed

def styleOfFirst (h : Heading) : S003 :=
  match h.style with
  | .atx => .atx
  | .atxClosed => .atxClosed
  | .setext => .setext

def md003Go (upd : Bool) : S003 → List Heading → List Hit
  | _, [] => []
  | s, h :: hs =>
    let s' := if upd && s == .setext && h.level ≥ 3 && h.style == .atx then S003.setextWithAtx else s
    (if okStyle s' h then [] else [(h.markLine, none)]) ++ md003Go upd s' hs

def md003 (c : C003) (ls : List Line) (evs : List Ev) : List Hit :=
  let hs := headings ls (blocks evs)
  match c.style, hs with
  | .consistent, h :: rest => md003Go c.allowSetextUpdate (styleOfFirst h) rest
  | .consistent, [] => []
  | s, _ => md003Go false s hs

/-! ## MD018 — no space after the hash on a possible Atx heading
  "triggers when a sequence of characters occurs at the start of a line in a paragraph after between 0
  and 3 leading spaces are removed … between 1 and 6 hash characters followed by at least one non-space
  character."  Not when "the line holding the otherwise eligible text has any inline elements within that
  same line", not when the text "has closing hash characters, such as `#Heading1#`" (that is MD020's).
  anchor: the paragraph line. -/
def md018Text (t : List Char) : Bool :=
  let n := countWhile (· == '#') t
  1 ≤ n && n ≤ 6 &&
  (match t.drop n with
   | c :: _ => !isSpTab c
   | [] => false) &&
  (rstripWs t).getLast? != some '#'

/-- 1-based line of an inline event that is an inline *element* (anything but plain text and soft line breaks;
    a hard line break is an element of the line it ends). -/
def ievElemLine : IEv → Option Nat
  | .text .. => none
  | .softbreak _ => none
  | .hardbreak p => some p.line
  | .code _ p => some p.line
  | .rawHtml _ p => some p.line
  | .autolink _ _ p => some p.line
  | .openEmph p => some p.line
  | .openStrong p => some p.line
  | .openLink _ _ p => some p.line
  | .openImage _ _ p => some p.line
  | _ => none


/-! ## MD019 — multiple spaces after the hash on an Atx heading
  "triggers when the start of an Atx Heading element has more than one space character between the last
  hash character and the first non-space character."  Measured in columns (a tab counts as the spaces up
  to its tab stop).  The rule is about the "normal Atx Heading" (Fix Description); headings with closing
  hashes are MD021's.
  anchor: the heading line. -/
def md019Text (t : List Char) (col0 : Nat) : Bool :=
  let n := countWhile (· == '#') t
  let r := t.drop n
  let w := countWhile isSpTab r
  wsCols r (col0 + n) > 1 && !(r.drop w).isEmpty

def md019 (ls : List Line) (evs : List Ev) : List Hit :=
  (headings ls (blocks evs)).flatMap (fun h =>
    if h.style != .atx then [] else
    match lineAt ls h.line with
    | some l => if md019Text (dropToCol l 0 (h.col - 1)) (h.col - 1) then [(h.line, none)] else []
    | none => [])

/-! ## MD022 — headings should be surrounded by blank lines
  "triggers when the configured number of blank lines before (above) or after (below) any heading element
  is not present"; "the first heading in the document … does not require any blank lines before it, but
  only in the scenario where there are no other Markdown elements before it".  No such exception is made
  below: a heading on the last line of a document has no blank line below it, and the empty last line of
  a document that ends with a newline character is one.  The count is compared exactly ("Number of
  lines that are expected").
  anchor: the first line of the heading; one report for "above" and one for "below". -/
structure C022 where
  linesAbove : Nat := 1
  linesBelow : Nat := 1

def md022 (c : C022) (ls : List Line) (evs : List Ev) : List Hit :=
  let v := view ls evs
  (headings ls v.bs).flatMap (fun h =>
    let sc : Scope := some h.b.stack
    (if !v.first sc 1 h.line && v.above sc h.line != c.linesAbove then [(h.line, none)] else []) ++
    (if v.below sc h.endLine != c.linesBelow then [(h.line, none)] else []))

/-! ## MD023 — headings must start at the beginning of the line
  "triggers when one or more whitespace characters precedes the Heading element"; for a SetExt heading
  "when any line within the SetExt Heading element has leading spaces" (the underline included, third
  example of the page).
  anchor: the marker line of the heading (the underline of a SetExt heading). -/
/-- 0-based column at which the content of the innermost of the containers `st` (innermost first) starts
    on line `l` with number `i`. -/
def baseCol (ls : List Line) (i : Nat) (l : Line) : List (Kind × Pos) → Nat
  | [] => 0
  | (k, p) :: outer =>
    let base := baseCol ls i l outer
    match k with
    | .quote =>
      let t := dropToCol l 0 base
      let sp := countWhile (· == ' ') t
      if sp ≤ 3 then
        match t.drop sp with
        | '>' :: r => base + sp + 1 + (match r with | c :: _ => if isSpTab c then 1 else 0 | [] => 0)
        | _ => base
      else base
    | .list .. => base
    | .item =>
      let ind := match lineAt ls p.line with
        | some il => itemIndent il p.col
        | none => p.col - 1
      if i == p.line then ind
      else if wsCols (dropToCol l 0 base) base + base ≥ ind then ind else base

/-- the text that starts at 0-based column `col0` of line `i` is preceded by white space inside its container. -/
def hasLeadingWs (ls : List Line) (st : List (Kind × Pos)) (i col0 : Nat) : Bool :=
  match lineAt ls i with
  | some l => col0 > baseCol ls i l st
  | none => false

/-- number of columns of white space before 0-based column `col0` of line `i` inside its containers. -/
def leadingWs (ls : List Line) (st : List (Kind × Pos)) (i col0 : Nat) : Nat :=
  match lineAt ls i with
  | some l => col0 - baseCol ls i l st
  | none => 0

def md018Block (ls : List Line) (refs : RefMap) (b : Block) : List Hit :=
  if !isParaK b.k then [] else
  let elemLines := (parseInlines refs b.payload).filterMap ievElemLine
  b.payload.flatMap (fun p =>
    if md018Text p.text && leadingWs ls b.stack p.line p.col0 ≤ 3 && !elemLines.contains p.line
    then [(p.line, none)] else [])

def md018 (ls : List Line) (evs : List Ev) : List Hit :=
  let refs := refMapOf evs
  (blocks evs).flatMap (md018Block ls refs)

def md023 (ls : List Line) (evs : List Ev) : List Hit :=
  let bs := blocks evs
  (headings ls bs).flatMap (fun h =>
    let lead :=
      if h.style == .setext then
        h.b.payload.any (fun p => hasLeadingWs ls h.b.stack p.line p.col0) ||
        (match lineAt ls h.endLine with
         | some l => let base := baseCol ls h.endLine l h.b.stack
                     (dropToCol l 0 base).head?.any isSpTab
         | none => false)
      else hasLeadingWs ls h.b.stack h.line (h.col - 1)
    if lead then [(h.markLine, none)] else [])

/-! ## MD024 — multiple headings cannot contain the same content
  "triggers when there are multiple headings that have the same text"; "A strict comparison is
  performed".  `siblings_only` / `allow_different_nesting`: the same text is allowed unless the earlier
  heading is a sibling (same level, no heading of a lower level between the two).
  anchor: the later heading. -/
structure C024 where
  siblingsOnly : Bool := false

/-- `seen` = earlier headings, latest first. -/
def isDupOf (sib : Bool) (h : Heading) : List Heading → Bool
  | [] => false
  | g :: gs =>
    if sib then
      if g.level < h.level then false
      else (g.level == h.level && g.text == h.text) || isDupOf sib h gs
    else g.text == h.text || isDupOf sib h gs

def md024Go (sib : Bool) : List Heading → List Heading → List Hit
  | _, [] => []
  | seen, h :: hs => (if isDupOf sib h seen then [(h.line, none)] else []) ++ md024Go sib (h :: seen) hs

def md024 (c : C024) (ls : List Line) (evs : List Ev) : List Hit :=
  md024Go c.siblingsOnly [] (headings ls (blocks evs))

/-! ## MD025 — multiple top-level headings in the same document
  "triggered when more than one top-level heading is found in the same document"; no difference between
  Atx and SetExt; `level` = "Heading level to be considered as the top-level".
  anchor: the marker line of every top-level heading after the first. -/
structure C025 where
  level : Nat := 1

def md025 (c : C025) (ls : List Line) (evs : List Ev) : List Hit :=
  (((headings ls (blocks evs)).filter (·.level == c.level)).drop 1).map (fun h => (h.markLine, none))

/-! ## MD026 — trailing punctuation in heading
  "triggers when a heading ends with a punctuation character" of the configured `punctuation` (default
  `.,;:!。，；：！`); "does not trigger when that character is used as part of one of the entity references".
  anchor: the line on which the heading text ends. -/
structure C026 where
  punctuation : List Char := ".,;:!。，；：！".toList

/-- `s` ends with an entity or numeric character reference. -/
def endsWithEntity (s : List Char) : Bool :=
  (List.range s.length).any (fun p =>
    s[p]? == some '&' &&
    match entityAt (s.drop (p + 1)) with
    | some (_, n) => p + 1 + n == s.length
    | none => false)

def md026Text (c : C026) (t : List Char) : Bool :=
  let s := rstripBy isWsChar t
  match s.getLast? with
  | some ch => c.punctuation.contains ch && !(ch == ';' && endsWithEntity s)
  | none => false

def md026 (c : C026) (ls : List Line) (evs : List Ev) : List Hit :=
  (headings ls (blocks evs)).flatMap (fun h => if md026Text c h.text then [(h.lastTextLine, none)] else [])

/-! ## MD041 — first line in file should be a top-level heading
  "triggered when the first element in the document is not a top-level or `h1` heading"; `level` changes
  the expected level; "a document started with a HTML block that begins with a valid `h1` token is
  acknowledged as a valid top-level document heading".
  A document without any element has no top-level heading either (Summary: "First line in file should be
  a top-level heading").
  anchor: the first element (the marker line if it is a heading); the last line of a document without elements. -/
structure C041 where
  level : Nat := 1

def startsWithH1 (t : List Char) : Bool :=
  startsWithCI "<h1".toList t &&
  (match t.drop 3 with
   | c :: _ => isSpTab c || c == '>'
   | [] => false)

def md041 (c : C041) (ls : List Line) (evs : List Ev) : List Hit :=
  match evs with
  | [] => [(ls.length, none)]
  | .leaf (.heading lvl setext) p e _ :: _ => if lvl == c.level then [] else [(if setext then e else p.line, none)]
  | .leaf .html p _ pl :: _ =>
    (match pl with
     | l0 :: _ => if startsWithH1 (lstripWs l0.text) then [] else [(p.line, none)]
     | [] => [(p.line, none)])
  | .leaf _ p _ _ :: _ => [(p.line, none)]
  | .open _ p :: _ => [(p.line, none)]
  | .close .. :: _ => []

end Verif.Model.RuleSpec
