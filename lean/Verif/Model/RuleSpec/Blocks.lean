/-
  RuleSpec — the documented conditions of the list / code block / thematic break / link rules
  MD004, MD031, MD032, MD035, MD040, MD042, MD045, MD046, MD048
  (REFERENCE, from newdocs/src/plugins/rule_md0xx.md).  Core Lean only.
-/
import Verif.Model.RuleSpec.Basic
import Verif.Model.RuleSpec.Lines
namespace Verif.Model.RuleSpec
open Verif.Model.LeanMark

/-! ## MD004 — unordered list style
  "triggers when the starting character for any Unordered List Start within the document does not match
  the configured style"; `consistent`: the first Unordered List Start of the document sets the style,
  "regardless of whether they are lists or sublists"; `sublist`: "each level of Unordered List Starts
  behaves as if the style `consistent` was specified for that level".
  anchor: the list start (every list whose bullet character is wrong; the items of one list share it). -/
inductive S004 where
  | consistent | asterisk | dash | plus | sublist
  deriving DecidableEq, Repr, BEq

structure C004 where
  style : S004 := .consistent

def bulletOf : Kind → Option Char
  | .list false d _ => some d
  | _ => none

/-- the unordered lists of a document: (bullet, line, nesting level among unordered lists, 0 = outermost). -/
def ulLists (evs : List Ev) : List (Char × Nat × Nat) :=
  (conts evs).filterMap (fun c =>
    match bulletOf c.k with
    | some ch => some (ch, c.line, (c.stack.filter (fun x => isUl x.1)).length)
    | none => none)

/-- `sublist`: per level, the first bullet seen. -/
def md004Sub : List (Nat × Char) → List (Char × Nat × Nat) → List Hit
  | _, [] => []
  | tbl, (ch, line, lvl) :: rest =>
    match tbl.lookup lvl with
    | some want => (if ch == want then [] else [(line, none)]) ++ md004Sub tbl rest
    | none => md004Sub ((lvl, ch) :: tbl) rest

def md004 (c : C004) (_ls : List Line) (evs : List Ev) : List Hit :=
  let us := ulLists evs
  let fixed (want : Char) (l : List (Char × Nat × Nat)) : List Hit :=
    l.flatMap (fun u => if u.1 == want then [] else [(u.2.1, none)])
  match c.style with
  | .asterisk => fixed '*' us
  | .dash => fixed '-' us
  | .plus => fixed '+' us
  | .consistent =>
    (match us with
     | u :: rest => fixed u.1 rest
     | [] => [])
  | .sublist => md004Sub [] us

/-! ## fenced code blocks -/
structure Fence where
  b : Block
  info : List Char
  /-- the block has a closing fence (its last line) -/
  closed : Bool
  ch : Char

def fenceOf (ls : List Line) (b : Block) : Option Fence :=
  match b.k with
  | .fenced info =>
    let closed := b.endLine > b.line && !b.payload.any (·.line == b.endLine)
    let ch := match lineAt ls b.line with
      | some l => (dropToCol l 0 (b.col - 1)).head?.getD '`'
      | none => '`'
    some ⟨b, info, closed, ch⟩
  | _ => none

def fences (ls : List Line) (bs : List Block) : List Fence := bs.filterMap (fenceOf ls)

/-! ## MD031 — fenced code blocks should be surrounded by blank lines
  "triggers when the Fenced Code Block element is either not prefaced with Blank Lines or [not] followed
  by Blank Lines"; not "at the very start or the very end of the document"; "if the Fenced Code Block
  element is either the first element or last element within a Block Quote element or a List Item
  element, the check for a Blank Line in that direction extends beyond the border of the container
  element" (so the check is on the neighbouring LINES).  `list_items = False`: "this rule will not trigger
  for lack of whitespace around Fenced Code Blocks" directly within a list item.
  anchor: the opening fence line for "before", the closing fence line for "after". -/
structure C031 where
  listItems : Bool := true

def directlyInItem (b : Block) : Bool :=
  match b.stack with
  | (k, _) :: _ => k == .item
  | [] => false

/-- "extends beyond the border of the container element": while the line above carries nothing but the
    markers of containers that enclose the block, the check moves above that line (`fuel` = `i`). -/
def borderStart (v : View) (st : List (Kind × Pos)) : Nat → Nat → Nat
  | 0, i => i
  | fuel + 1, i =>
    if i > 1 && (blockAt v.bs (i - 1)).isNone && st.any (fun c => !isList c.1 && c.2.line == i - 1)
    then borderStart v st fuel (i - 1) else i

def md031 (c : C031) (ls : List Line) (evs : List Ev) : List Hit :=
  let v := view ls evs
  (fences ls v.bs).flatMap (fun f =>
    if !c.listItems && directlyInItem f.b then [] else
    (let st := borderStart v f.b.stack f.b.line f.b.line
     let sc : Scope := some f.b.stack
     if st > 1 && v.above sc st == 0 then [(f.b.line, none)] else []) ++
    (if f.closed && f.b.endLine < ls.length && v.below (some f.b.stack) f.b.endLine == 0 then [(f.b.endLine, none)] else []))

/-! ## MD032 — lists should be surrounded by blank lines
  "triggers when the List element is either not prefaced with Blank Lines or [not] followed by Blank
  Lines"; not "at the very start or the very end of the document"; "will not trigger if a List element is
  found directly within the scope of another List element.  If a List element is found directly within
  the scope of a Block Quote element, then this rule behaves normally" — within that block quote, whose
  first and last lines take the place of the start and the end of the document.
  anchor: the first line of the list for "before"; the last line of the list for "after". -/
def nestedInList (c : Cont) : Bool :=
  match c.stack with
  | (k, _) :: _ => k == .item
  | [] => false

def md032 (ls : List Line) (evs : List Ev) : List Hit :=
  let v := view ls evs
  (v.cs.filter (fun c => isList c.k && !nestedInList c)).flatMap (fun c =>
    let sc : Scope := some c.stack
    -- the scope in which the list "behaves normally": the enclosing block quote, else the document
    let (lo, hi) := match c.stack with
      | (.quote, p) :: _ => (p.line, ((v.cs.find? (fun q => q.line == p.line && q.col == p.col)).map (·.endLine)).getD ls.length)
      | _ => (1, ls.length)
    (if !v.first sc lo c.line && v.above sc c.line == 0 then [(c.line, none)] else []) ++
    (if !v.last sc c.endLine hi && v.below sc c.endLine == 0 then [(c.endLine, none)] else []))

/-! ## MD035 — horizontal rule style
  "triggers if the horizontal rule marker style is not consistent throughout the document … with default
  configuration, the first marker sets the style"; "If the configuration specifies a specific style …
  this rule will trigger on every marker that is not that specific style"; "any leading whitespace is
  discarded before the comparison is made" (only leading: trailing white space is part of the marker text).
  anchor: the thematic break. -/
structure C035 where
  /-- `none` = consistent -/
  style : Option (List Char) := none

def hrText (ls : List Line) (b : Block) : List Char :=
  match lineAt ls b.line with
  | some l => dropToCol l 0 (b.col - 1)
  | none => []

def isHrK : LeafKind → Bool
  | .tbreak => true
  | _ => false

def md035 (c : C035) (ls : List Line) (evs : List Ev) : List Hit :=
  let hrs := (blocks evs).filter (fun b => isHrK b.k)
  let fixed (want : List Char) (l : List Block) : List Hit :=
    l.flatMap (fun b => if hrText ls b == want then [] else [(b.line, none)])
  match c.style, hrs with
  | some s, _ => fixed s hrs
  | none, b :: rest => fixed (hrText ls b) rest
  | none, [] => []

/-! ## MD040 — fenced code blocks should have a language specified
  "triggers when no characters or only whitespace characters follow the fenced code block start
  character sequence".
  anchor: the opening fence. -/
def md040 (ls : List Line) (evs : List Ev) : List Hit :=
  (fences ls (blocks evs)).flatMap (fun f => if (f.info.filter (fun c => !isWsChar c)).isEmpty then [(f.b.line, none)] else [])

/-! ## MD046 — code block style
  style ∈ consistent | fenced | indented; `consistent` "sets the current configuration type to either
  `indented` or `fenced` based on the first code block encountered in the document".
  anchor: every code block of the other style. -/
inductive S046 where
  | consistent | fenced | indented
  deriving DecidableEq, Repr, BEq

structure C046 where
  style : S046 := .consistent

def md046 (c : C046) (_ls : List Line) (evs : List Ev) : List Hit :=
  let cbs := (blocks evs).filter (fun b => isCodeK b.k)
  let fixed (wantFenced : Bool) (l : List Block) : List Hit :=
    l.flatMap (fun b => if isFencedK b.k == wantFenced then [] else [(b.line, none)])
  match c.style, cbs with
  | .fenced, _ => fixed true cbs
  | .indented, _ => fixed false cbs
  | .consistent, b :: rest => fixed (isFencedK b.k) rest
  | .consistent, [] => []

/-! ## MD048 — code fence style
  style ∈ consistent | backtick | tilde; `consistent`: "based on the first fenced code block encountered
  in the document".
  anchor: every fenced code block with the other fence character. -/
inductive S048 where
  | consistent | backtick | tilde
  deriving DecidableEq, Repr, BEq

structure C048 where
  style : S048 := .consistent

def md048 (c : C048) (ls : List Line) (evs : List Ev) : List Hit :=
  let fs := fences ls (blocks evs)
  let fixed (want : Char) (l : List Fence) : List Hit :=
    l.flatMap (fun f => if f.ch == want then [] else [(f.b.line, none)])
  match c.style, fs with
  | .backtick, _ => fixed '`' fs
  | .tilde, _ => fixed '~' fs
  | .consistent, f :: rest => fixed f.ch rest
  | .consistent, [] => []

/-! ## MD042 — no empty links
  "triggers when the link is empty and has no characters or only whitespace characters … also triggers on
  URI fragments that are also similarly empty" (`[empty link]()`, `![empty fragment](#)`): the
  destination of a link or image is empty, or is `#` followed by nothing.
  anchor: the line on which the link starts. -/
def emptyDest (d : List Char) : Bool :=
  let s := d.filter (fun c => !isUniWs c)
  s.isEmpty || s == ['#']

def inlineBlocks (evs : List Ev) : List (Block × List IEv) :=
  let refs := refMapOf evs
  (blocks evs).filterMap (fun b =>
    if isParaK b.k || isHeadingK b.k then some (b, parseInlines refs b.payload) else none)

def md042 (_ls : List Line) (evs : List Ev) : List Hit :=
  (inlineBlocks evs).flatMap (fun bi =>
    bi.2.flatMap (fun e =>
      match e with
      | .openLink d _ p => if emptyDest d then [(p.line, none)] else []
      | .openImage d _ p => if emptyDest d then [(p.line, none)] else []
      | _ => []))

/-! ## MD045 — images should have alternate text
  "triggers when the link label for an image has no characters or only whitespace characters … the
  whitespace characters compared against are the set of Unicode whitespace characters."
  anchor: the line on which the image starts. -/
/-- the text between an `openImage` and its matching close: returns (alt text, rest after the close). -/
def altText : List IEv → Nat → List Char → List Char × List IEv
  | [], _, acc => (acc, [])
  | e :: es, depth, acc =>
    match e with
    | .closeImage => if depth = 0 then (acc, es) else altText es (depth - 1) acc
    | .openImage .. => altText es (depth + 1) acc
    | .text s _ => altText es depth (acc ++ s)
    | .code s _ => altText es depth (acc ++ s)
    | .softbreak _ => altText es depth (acc ++ [' '])
    | .hardbreak _ => altText es depth (acc ++ [' '])
    | .rawHtml s _ => altText es depth (acc ++ s)
    | .autolink _ t _ => altText es depth (acc ++ t)
    | _ => altText es depth acc

def md045Go : List IEv → List Hit
  | [] => []
  | e :: es =>
    match e with
    | .openImage _ _ p =>
      let (alt, _) := altText es 0 []
      (if alt.all isUniWs then [(p.line, none)] else []) ++ md045Go es
    | _ => md045Go es

def md045 (_ls : List Line) (evs : List Ev) : List Hit :=
  (inlineBlocks evs).flatMap (fun bi => md045Go bi.2)

end Verif.Model.RuleSpec
