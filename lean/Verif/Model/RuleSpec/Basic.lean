/-
  RuleSpec — Basic.lean: what every documented rule condition is written over.
  REFERENCE model (written from /repo/newdocs/src/plugins/rule_md*.md, never from the rule code):
  a condition is a function of the rule's documented configuration items, the lines of the document
  and LeanMark's block event stream (never pymarkdown tokens).  Core Lean only.

  Lines.  The documentation speaks about lines the way an editor shows them (rule_md047.md: a file that
  ends with a newline character "will appear to be a line with nothing on it"; its Fix Description
  calls that last piece "a blank line").  `rawLines` is that view: the pieces between newline
  characters, so a document with n newline characters has n + 1 lines.  LeanMark's own `docLines`
  drops the last piece when it is empty; the line numbers of both views coincide.

  Anchors.  The pages say WHEN a rule triggers, rarely WHERE the report is put.  Where a page is silent
  the anchor line is a convention fixed per rule in its file (marked "anchor:").
-/
import Verif.Model.LeanMark.Html
namespace Verif.Model.RuleSpec
open Verif.Model.LeanMark

/-- a verdict: 1-based line, and the 1-based column where the page documents one. -/
abbrev Hit := Nat × Option Nat

/-- editor view of the lines of a document. -/
def rawLines (doc : List Char) : List Line := splitLinesGo doc [] []

/-- the reference block structure of a document. -/
def evsOf (doc : List Char) : List Ev := events (docLines doc)

/-! ## numbered lines -/
def numberedFrom {α : Type} : Nat → List α → List (Nat × α)
  | _, [] => []
  | n, x :: xs => (n, x) :: numberedFrom (n + 1) xs

/-- a rule that looks at one line at a time (`f` gets the 1-based line number and the line). -/
def perLine (f : Nat → Line → List Hit) (ls : List Line) : List Hit :=
  (numberedFrom 1 ls).flatMap (fun p => f p.1 p.2)

/-- the line with 1-based number `i`. -/
def lineAt (ls : List Line) (i : Nat) : Option Line := if i = 0 then none else ls[i - 1]?

/-! ## leaf blocks with their enclosing containers -/
structure Block where
  k : LeafKind
  line : Nat
  col : Nat
  endLine : Nat
  payload : List PLine
  /-- enclosing containers, innermost first, each with the position of its opening marker -/
  stack : List (Kind × Pos)

def blocksGo : List Ev → List (Kind × Pos) → List Block
  | [], _ => []
  | .open k p :: es, st => blocksGo es ((k, p) :: st)
  | .close _ _ :: es, st => blocksGo es st.tail
  | .leaf k p e pl :: es, st => ⟨k, p.line, p.col, e, pl, st⟩ :: blocksGo es st

def blocks (evs : List Ev) : List Block := blocksGo evs []

def Block.covers (b : Block) (i : Nat) : Bool := b.line ≤ i && i ≤ b.endLine

/-- the leaf block whose line range contains line `i`. -/
def blockAt (bs : List Block) (i : Nat) : Option Block := bs.find? (·.covers i)

def isCodeK : LeafKind → Bool
  | .fenced _ => true
  | .indented => true
  | _ => false

def isFencedK : LeafKind → Bool
  | .fenced _ => true
  | _ => false

def isHeadingK : LeafKind → Bool
  | .heading .. => true
  | _ => false

def isParaK : LeafKind → Bool
  | .para => true
  | _ => false

def isLrdK : LeafKind → Bool
  | .lrd .. => true
  | _ => false

/-- line `i` is one of the lines of a fenced or indented code block (fence lines included). -/
def inCode (bs : List Block) (i : Nat) : Bool :=
  match blockAt bs i with
  | some b => isCodeK b.k
  | none => false

/-- line `i` is a content line of a code block: any line of an indented code block, or a line strictly
    between the fences of a fenced one (the payload lines). -/
def inCodeContent (bs : List Block) (i : Nat) : Bool :=
  match blockAt bs i with
  | some b =>
    match b.k with
    | .indented => true
    | .fenced _ => b.payload.any (·.line == i)
    | _ => false
  | none => false

def inHeading (bs : List Block) (i : Nat) : Bool :=
  match blockAt bs i with
  | some b => isHeadingK b.k
  | none => false

/-! ## containers -/
structure Cont where
  k : Kind
  line : Nat
  col : Nat
  endLine : Nat
  /-- enclosing containers, innermost first -/
  stack : List (Kind × Pos)

/-- end line of the container opened by the first event of the list (depth counting). -/
def closeLine : List Ev → Nat → Option Nat
  | [], _ => none
  | .open _ _ :: es, d => closeLine es (d + 1)
  | .close _ e :: es, d => if d = 0 then some e else closeLine es (d - 1)
  | .leaf .. :: es, d => closeLine es d

def contsGo : List Ev → List (Kind × Pos) → List Cont
  | [], _ => []
  | .open k p :: es, st =>
    ⟨k, p.line, p.col, (closeLine es 0).getD p.line, st⟩ :: contsGo es ((k, p) :: st)
  | .close _ _ :: es, st => contsGo es st.tail
  | .leaf .. :: es, st => contsGo es st

/-- every container of the document in document order. -/
def conts (evs : List Ev) : List Cont := contsGo evs []

def isList : Kind → Bool
  | .list .. => true
  | _ => false

def isUl : Kind → Bool
  | .list false _ _ => true
  | _ => false

/-- number of lists among the containers -/
def listDepth (st : List (Kind × Pos)) : Nat := (st.filter (fun c => isList c.1)).length

/-! ## blank lines -/
/-- only spaces, tabs and block quote markers -/
def blankChars (l : Line) : Bool := l.all (fun c => c == ' ' || c == '\t' || c == '>')

/-- the lines, leaf blocks and containers of a document -/
structure View where
  ls : List Line
  bs : List Block
  cs : List Cont

/-- a fenced code block without closing fence runs to the end of the document: when the document ends
    with a newline character, the empty last line of the editor view still belongs to it (unless the block
    is in a block quote, which that line — it has no `>` — ends). -/
def extendUnclosed (n : Nat) (b : Block) : Block :=
  match b.k with
  | .fenced _ =>
    let closed := b.endLine > b.line && !b.payload.any (·.line == b.endLine)
    if !closed && b.endLine + 1 == n && !b.stack.any (fun c => c.1 == .quote) then { b with endLine := n } else b
  | _ => b

def view (ls : List Line) (evs : List Ev) : View :=
  let n := ls.length
  let bs := (blocks evs).map (extendUnclosed n)
  -- the containers of an extended block reach the last line with it
  let ext := bs.filter (fun b => b.endLine == n && isFencedK b.k)
  let cs := (conts evs).map (fun c =>
    if ext.any (fun b => b.stack.any (fun x => x.2.line == c.line && x.2.col == c.col)) then { c with endLine := n } else c)
  ⟨ls, bs, cs⟩

/-- the point of view from which a line is judged blank: from inside everything (`none`), or from an
    element with the given enclosing containers (`some stack`). -/
abbrev Scope := Option (List (Kind × Pos))

def Scope.encloses (sc : Scope) (c : Cont) : Bool :=
  match sc with
  | none => true
  | some st => st.any (fun x => x.2.line == c.line && x.2.col == c.col)

/-- line `i` (text `l`) is a Blank Line element of the document, seen from `sc`: outside every leaf block
    it carries nothing but white space and block quote markers, and a container that opens on it encloses
    the point of view (seen from outside, the line on which a block quote opens is that element's line,
    not a blank line; seen from inside it is a blank line in that container); inside an HTML block it is
    a blank payload line; the blank lines inside code blocks are code, not Blank Line elements. -/
def isBlankLine (v : View) (sc : Scope) (i : Nat) (l : Line) : Bool :=
  match blockAt v.bs i with
  | none => blankChars l && v.cs.all (fun c => c.line != i || sc.encloses c)
  | some b =>
    match b.k with
    | .html => b.payload.any (fun p => p.line == i && isBlankChars p.text)
    | _ => false

/-- number of consecutive blank lines directly above line `i` (`fuel` = `i`). -/
def blanksAbove (v : View) (sc : Scope) : Nat → Nat → Nat
  | 0, _ => 0
  | fuel + 1, i =>
    if i ≤ 1 then 0 else
    match lineAt v.ls (i - 1) with
    | some l => if isBlankLine v sc (i - 1) l then 1 + blanksAbove v sc fuel (i - 1) else 0
    | none => 0

/-- number of consecutive blank lines directly below line `i` (`fuel` = number of lines). -/
def blanksBelow (v : View) (sc : Scope) : Nat → Nat → Nat
  | 0, _ => 0
  | fuel + 1, i =>
    match lineAt v.ls (i + 1) with
    | some l => if isBlankLine v sc (i + 1) l then 1 + blanksBelow v sc fuel (i + 1) else 0
    | none => 0

def View.above (v : View) (sc : Scope) (i : Nat) : Nat := blanksAbove v sc i i
def View.below (v : View) (sc : Scope) (i : Nat) : Nat := blanksBelow v sc v.ls.length i

/-- nothing but blank lines between line `lo` and line `i`: the element is the first one of its scope
    (`lo` = 1: of the document). -/
def View.first (v : View) (sc : Scope) (lo i : Nat) : Bool := i - lo ≤ v.above sc i

/-- nothing but blank lines between line `i` and line `hi`: the element is the last one of its scope. -/
def View.last (v : View) (sc : Scope) (i hi : Nat) : Bool := i + v.below sc i ≥ hi

/-! ## small helpers -/
def trailingSpaces (l : Line) : Nat := countWhile (· == ' ') l.reverse

def boolStr (b : Bool) : String := if b then "1" else "0"

end Verif.Model.RuleSpec
