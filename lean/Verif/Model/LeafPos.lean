import Verif.Model.Recognisers
/-
  Positions of leaf-block tokens (core Lean only) — extends `Verif.Model.LeafFields` (which pieces of the line a leaf token
  stores) with WHERE the block pass says the token is.

  Sources:
    container_blocks/container_block_processor.py   __prepare_container_start_variables: the physical line is tab-expanded once
                                                    (`TabHelper.detabify_string`) and remembered as `original_line_to_parse`
    container_blocks/container_block_leaf_processor.py
        handle_leaf_tokens (l.61-80)      index_indent = len(original_line_to_parse) - len(line_to_parse), index_number = 0
        __handle_block_leaf_tokens        extract_spaces_verified(text_to_parse, index_number) → index_number, leaf_token_whitespace
    general/position_marker.py            PositionMarker(line_number, index_number, text_to_parse, index_indent)
    tokens/markdown_token.py (l.82-86)    column_number = index_number + index_indent + 1 when a position marker is given
    leaf_blocks/atx_leaf_block_processor.py        __parse_atx_heading_add_tokens: AtxHeadingMarkdownToken(…, position_marker)
    leaf_blocks/thematic_leaf_block_processor.py   parse_thematic_break: ThematicBreakMarkdownToken(…, position_marker=position_marker)
    leaf_blocks/fenced_leaf_block_processor.py     __add_fenced_tokens_create: FencedCodeBlockMarkdownToken(…, position_marker)
                                                   (NOT modelled: `__process_fenced_start_adjust`, taken only when the fence closes
                                                   list levels — it re-creates the token with `indent_level - index_indent` added)
    leaf_blocks/setext_leaf_block_processor.py     __create_setext_token: SetextHeadingMarkdownToken(char, count, extra, position_marker,
                                                   paragraph_token) — position of the underline, original_line/column_number = the paragraph's
    leaf_blocks/indented_leaf_block_processor.py   parse_indented_code_block (the test), __create_indented_block (l.534-567):
                                                   column = index_number + index_indent - len(extracted_whitespace) + 1 + 4
    leaf_blocks/leaf_block_processor_paragraph.py  ParagraphMarkdownToken(extracted_whitespace, position_marker)

  The container phase is NOT modelled: it is summarised by `indent` = `index_indent`, the number of characters of the
  tab-expanded line the containers consumed; the leaf phase sees `text_to_parse` = the rest.
-/
namespace Verif.Model.LeafPos
open Verif.Model.Recognisers

/-- `PositionMarker` -/
structure Marker where
  line : Nat        -- line_number
  index : Nat       -- index_number
  text : Str        -- text_to_parse
  indent : Nat      -- index_indent
  deriving Repr, DecidableEq

/-- the position marker and `leaf_token_whitespace` every leaf processor receives for the line `text` (`__handle_block_leaf_tokens`) -/
def leafMarker (lineNo indent : Nat) (text : Str) : Marker × Str :=
  (⟨lineNo, (leadWs text).1, text, indent⟩, (leadWs text).2)

/-- `MarkdownToken.__init__(…, position_marker=m)` → `(line_number, column_number)` -/
def tokenPos (m : Marker) : Nat × Nat := (m.line, m.index + m.indent + 1)

structure Pos where
  line : Nat
  col : Nat
  /-- setext only: `original_line_number`, `original_column_number` -/
  orig : Option (Nat × Nat) := none
  deriving Repr, DecidableEq

def mk (p : Nat × Nat) : Pos := ⟨p.1, p.2, none⟩

/-- `LeafBlockHelper.realize_leading_whitespace(parser_state, position_marker, extracted_whitespace, original_line)` on a stack
where no list follows the block quote: behind a block-quote marker (`original_line[:index_indent]` ends with `>` or `> `; note that
`original_line` is the PHYSICAL line while `index_indent` counts characters of the tab-expanded line) the leading white space is
"realised" as the empty string, `best_indent` being never set — which switches the at-most-three-spaces test of the ATX, thematic-break
and fence recognisers off inside block quotes (known finding of C03: `>     # x` is a heading).
NOT modelled: the `assert indent_delta > len(extracted_whitespace)` in the loop over the lists that follow the block quote on the stack. -/
def realizeWs (phys : Str) (indent : Nat) (ws : Str) : Str :=
  if !ws.isEmpty && indent != 0 then
    let pre := phys.take indent
    if ['>'].isSuffixOf pre || ['>', ' '].isSuffixOf pre then [] else ws
  else ws

/-- ATX heading token -/
def atxPos (lineNo indent : Nat) (phys text : Str) : Except Err (Option Pos) :=
  let m := leafMarker lineNo indent text
  match isAtxHeading text m.1.index (realizeWs phys indent m.2) with
  | .error e => .error e
  | .ok none => .ok none
  | .ok (some _) => .ok (some (mk (tokenPos m.1)))

/-- thematic break token -/
def thematicPos (lineNo indent : Nat) (phys text : Str) : Except Err (Option Pos) :=
  let m := leafMarker lineNo indent text
  match isThematicBreak text m.1.index (realizeWs phys indent m.2) with
  | .error e => .error e
  | .ok none => .ok none
  | .ok (some _) => .ok (some (mk (tokenPos m.1)))

/-- fenced code block start token (no list level closed by the fence) -/
def fenceOpenPos (lineNo indent : Nat) (phys text : Str) : Except Err (Option Pos) :=
  let m := leafMarker lineNo indent text
  match isFenceOpen text m.1.index (realizeWs phys indent m.2) with
  | .error e => .error e
  | .ok false => .ok none
  | .ok true => .ok (some (mk (tokenPos m.1)))

/-- setext heading token, created on the underline line; `para` = position of the paragraph token it replaces -/
def setextPos (lineNo indent : Nat) (text : Str) (para : Nat × Nat) : Except Err (Option Pos) :=
  let m := leafMarker lineNo indent text
  match isSetextUnderline text m.1.index m.2 with
  | .error e => .error e
  | .ok false => .ok none
  | .ok true => .ok (some ⟨(tokenPos m.1).1, (tokenPos m.1).2, some para⟩)

/-- indented code block start token: `is_length_greater_than_or_equal_to(extracted_whitespace, 4, start_index=removed_chars_at_start)
and not token_stack[-1].is_paragraph`, then `__create_indented_block` (the line is not blank: blank lines never reach the leaf
processors) -/
def icodePos (lineNo indent : Nat) (text : Str) (removedChars : Nat) (inPara : Bool) : Option Pos :=
  if Nat.ble 4 (calcLength (leadWs text).2 removedChars) && !inPara then
    some ⟨lineNo, (leadWs text).1 + indent - (leadWs text).2.length + 1 + 4, none⟩
  else none

/-- paragraph start token (the fall-through of the leaf dispatch) -/
def paraPos (lineNo indent : Nat) (text : Str) : Option Pos :=
  let m := leafMarker lineNo indent text
  if m.1.index < text.length then some (mk (tokenPos m.1)) else none

/-! ### the physical line -/

/-- what the leaf phase sees of the physical line `orig` when the containers consumed `indent` characters of its tab expansion:
`(original_line_to_parse, text_to_parse)` -/
def leafView (orig : Str) (indent : Nat) : Except Err (Str × Str) :=
  match detabify orig 0 with
  | .error e => .error e
  | .ok d => .ok (d, d.drop indent)

end Verif.Model.LeafPos
