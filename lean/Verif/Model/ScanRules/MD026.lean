import Verif.Model.ScanRules.Basic
/-
  MD026 no-trailing-punctuation — faithful model of pymarkdown/plugins/rule_md_026.py :: RuleMd026
  (`initialize_from_config`, `starting_new_file`, `next_token`, `__next_token_end`).
  State: `__start_token`, `__heading_text`.
-/
namespace Verif.Model.ScanRules

structure C026 where
  /-- `__punctuation` -/
  punctuation : Str := ".,;:!。，；：！".toList
  deriving DecidableEq, Repr

def init026 (p : CVal) : C026 := { punctuation := getStr p ".,;:!。，；：！".toList }

structure S026 where
  startTok : Option Tok := none
  text : Str := []
  deriving DecidableEq, Repr

/-- the text after the last newline character (`split("\n")[-1]`) -/
def lastSegment (s : Str) : Str := (s.reverse.takeWhile (· != '\n')).reverse

/-- (`use_original_position`, `line_delta`, `column_delta`) of `__next_token_end` for a non-empty heading text -/
def deltas026 (atxEnd : Bool) (txt : Str) : Bool × Int × Int :=
  if atxEnd then (false, 0, (txt.length : Int) - 1)
  else
    let ld := txt.count '\n'
    (true, (ld : Int), if ld ≠ 0 then ((lastSegment txt).length : Int) - 1 else (txt.length : Int) - 1)

def next026 (c : C026) (s : S026) (t : Tok) : Except Err (S026 × List Report) :=
  if t.isHeading then .ok ({ startTok := some t, text := [] }, [])
  else if t.isEnd then
    -- `__next_token_end`
    if t.isHeadingEnd then
      match s.text.getLast? with
      | none => .ok ({ s with startTok := none }, [])
      | some lastCh =>
        if c.punctuation.contains lastCh then
          match s.startTok with
          | none => .error .assertion
          | some h =>
            match mkReport h (deltas026 (t.kind == .atxEnd) s.text).1 (deltas026 (t.kind == .atxEnd) s.text).2.1
                (deltas026 (t.kind == .atxEnd) s.text).2.2 none with
            | .error e => .error e
            | .ok r => .ok ({ s with startTok := none }, [r])
        else .ok ({ s with startTok := none }, [])
    else .ok ({ s with text := [] }, [])
  else
    match s.startTok with
    | some _ => .ok ({ s with text := if t.kind == .text then s.text ++ t.text else [] }, [])
    | none => .ok (s, [])

def md026 : Rule C026 S026 := ⟨{}, fun _ _ => {}, next026⟩

end Verif.Model.ScanRules
