import Verif.Model.ScanRules.MD003
import Verif.Model.ScanRules.MD022
import Verif.Model.ScanRules.MD024
import Verif.Model.ScanRules.MD025
import Verif.Model.ScanRules.MD026
import Verif.Model.ScanRules.MD036
import Verif.Model.ScanRules.MD041
import Verif.Model.ScanRules.Simple
/-
  Several rules in one token pass — pymarkdown/plugin_manager/plugin_manager.py :: PluginManager.next_token
  (every enabled plug-in, in plug-in order, gets the token; the first exception ends the pass; the reports of all
  rules go to ONE list of the scan context, in the order they are made).
-/
namespace Verif.Model.ScanRules

/-- the rule's reports carry its number -/
def Rule.tag {C S : Type} (id : Nat) (r : Rule C S) : Rule C S :=
  ⟨r.fresh, r.start, fun c s t =>
    match r.next c s t with
    | .error e => .error e
    | .ok (s', rp) => .ok (s', rp.map (fun x => { x with rule := id }))⟩

def Rule.prod {C1 S1 C2 S2 : Type} (r1 : Rule C1 S1) (r2 : Rule C2 S2) : Rule (C1 × C2) (S1 × S2) :=
  ⟨(r1.fresh, r2.fresh),
   fun c s => (r1.start c.1 s.1, r2.start c.2 s.2),
   fun c s t =>
     match r1.next c.1 s.1 t with
     | .error e => .error e
     | .ok (s1, rp1) =>
       match r2.next c.2 s.2 t with
       | .error e => .error e
       | .ok (s2, rp2) => .ok ((s1, s2), rp1 ++ rp2)⟩

infixr:70 " ⊗ " => Rule.prod

/-- the ten rules enabled together, in plug-in order -/
def allTen :=
  md003.tag 3 ⊗ md022.tag 22 ⊗ md024.tag 24 ⊗ md025.tag 25 ⊗ md026.tag 26 ⊗ md036.tag 36 ⊗ md040.tag 40 ⊗
  md041.tag 41 ⊗ md042.tag 42 ⊗ md045.tag 45

end Verif.Model.ScanRules
