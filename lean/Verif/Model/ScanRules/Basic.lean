/-
  ScanRules.Basic — the shared part of the FAITHFUL models of ten scan-only token rules
  (MD003 MD022 MD024 MD025 MD026 MD036 MD040 MD041 MD042 MD045).

  Python modelled here
    pymarkdown/plugin_manager/rule_plugin.py :: RulePlugin.report_next_token_error          → `mkReport`
    pymarkdown/plugin_manager/plugin_scan_context.py :: add_triggered_rule (scan mode)      → the report list
    pymarkdown/file_scan_helper.py :: __process_file_scan (the `next_token` loop)           → `scanFrom`
    application_properties :: get_string_property / get_integer_property / get_boolean_property
                              (non-strict mode: wrong type or failed validation = default)   → `getStr` `getInt` `getBool`
    str.strip(chars)                                                                          → `stripBy`

  Abstract token = `kind` (the partition of the token classes that the ten rules' `is_…` predicates induce)
  + exactly the fields the ten rules read.  A rule object's fields are split as in `Model/TokenRules`:
  the configuration (`Cfg`, written by `initialize_from_config` only) and the per-file state (`St`).
  `Rule.start` is `starting_new_file` as the code has it: it assigns only the fields the Python assigns,
  every other field keeps the value the previous file left (`mdX_state_reset` proves that none of those is read
  before it is written).  Core Lean only.
-/
namespace Verif.Model.ScanRules

abbrev Str := List Char

/-- the token classes, as far as the ten rules can tell them apart.
    `leafEnd` = end of an HTML block / fenced code block / indented code block (`is_leaf_end_token`, none of the
    three end kinds named separately); `listEnd` = end of an ordered or unordered list; `otherEnd` = every other
    end token (`end-link`, …); `other` = every other token (list starts, list items, block quote starts,
    code spans, raw HTML, hard breaks, autolinks, indented code block starts, end-of-stream, pragma …). -/
inductive Kind where
  | atx | setext | atxEnd | setextEnd | frontMatter | para | paraEnd | text | blank | tbreak | lrd
  | fence | html | leafEnd | listEnd | bquoteEnd | emphasis | emphasisEnd | link | image | otherEnd | other
  deriving DecidableEq, Repr

structure Tok where
  kind : Kind
  /-- `line_number`, `column_number` -/
  line : Int := 0
  col : Int := 0
  /-- `original_line_number`, `original_column_number` (SetExt heading only: any other class has no such attribute) -/
  oline : Int := 0
  ocol : Int := 0
  /-- `hash_count` (atx, setext) -/
  hashCount : Int := 0
  /-- `remove_trailing_count` (atx) -/
  trailing : Int := 0
  /-- keys of `matter_map` (front matter) -/
  keys : List Str := []
  /-- `token_text` (text), `extracted_text` (fence: the info string's first word) -/
  text : Str := []
  /-- `active_link_uri` (link, image) -/
  uri : Str := []
  /-- `text_from_blocks` (image) -/
  alt : Str := []
  /-- `debug_string(include_column_row_info=False)` -/
  dbg : Str := []
  deriving DecidableEq, Repr

structure Report where
  line : Int
  col : Int
  extra : Option Str := none
  /-- the number of the reporting rule; 0 in the single-rule models, set by `Rule.tag` for a pass of several rules -/
  rule : Nat := 0
  deriving DecidableEq, Repr

/-- the exceptions a rule body can end with -/
inductive Err where
  | assertion | indexError
  /-- `original_line_number` of a token that is not a SetExt heading -/
  | attributeError
  deriving DecidableEq, Repr

/-! ## token predicates (`MarkdownToken.is_…`) -/
def Tok.isHeading (t : Tok) : Bool := t.kind == .atx || t.kind == .setext
def Tok.isHeadingEnd (t : Tok) : Bool := t.kind == .atxEnd || t.kind == .setextEnd
/-- `is_end_token` -/
def Tok.isEnd (t : Tok) : Bool :=
  match t.kind with
  | .atxEnd | .setextEnd | .paraEnd | .leafEnd | .listEnd | .bquoteEnd | .emphasisEnd | .otherEnd => true
  | _ => false
/-- `is_leaf_end_token` of an end token (the property is also true of a thematic break, which is no end token) -/
def Tok.isLeafEnd (t : Tok) : Bool :=
  match t.kind with
  | .atxEnd | .setextEnd | .paraEnd | .leafEnd => true
  | _ => false

/-! ## `report_next_token_error` -/
/-- the position the report starts from (`use_original_position` reads two attributes only the SetExt token has) -/
def posOf (t : Tok) (orig : Bool) : Except Err (Int × Int) :=
  if orig then (if t.kind = .setext then .ok (t.oline, t.ocol) else .error .attributeError)
  else .ok (t.line, t.col)

/-- `line_number + line_number_delta`, `column_number + column_number_delta if column_number_delta >= 0 else -column_number_delta` -/
def mkReport (t : Tok) (orig : Bool) (dl dc : Int) (extra : Option Str) : Except Err Report :=
  match posOf t orig with
  | .error e => .error e
  | .ok (l, c) => .ok ⟨l + dl, if dc ≥ 0 then c + dc else -dc, extra, 0⟩

/-- a report at the token's own position, no deltas: cannot fail -/
def reportAt (t : Tok) (extra : Option Str := none) : Report := ⟨t.line, t.col, extra, 0⟩

theorem mkReport_plain (t : Tok) (extra : Option Str) : mkReport t false 0 0 extra = .ok (reportAt t extra) := by
  simp [mkReport, posOf, reportAt]

/-! ## configuration values and the typed getters (non-strict mode) -/
/-- a value of the flat property map; `absent` = the key is not there -/
inductive CVal where
  | absent
  | bool (b : Bool)
  | int (i : Int)
  | str (s : Str)
  deriving DecidableEq, Repr

/-- `get_string_property(key, default_value=d, valid_value_fn=valid)`: a value of another type, or one the validator
    raises on, gives the default -/
def getStr (v : CVal) (d : Str) (valid : Str → Bool := fun _ => true) : Str :=
  match v with
  | .str s => if valid s then s else d
  | _ => d

/-- `get_integer_property` (a `bool` is not an `int` here) -/
def getInt (v : CVal) (d : Int) (valid : Int → Bool := fun _ => true) : Int :=
  match v with
  | .int i => if valid i then i else d
  | _ => d

/-- `get_boolean_property` -/
def getBool (v : CVal) (d : Bool) : Bool :=
  match v with
  | .bool b => b
  | _ => d

/-! ## small Python helpers -/
/-- `s.strip(chars)` with `p` = membership in `chars` -/
def stripBy (p : Char → Bool) (s : Str) : Str := ((s.dropWhile p).reverse.dropWhile p).reverse

/-- `Constants.ascii_whitespace` = "\x20\x09\x0a\x0b\x0c\x0d" -/
def isAsciiWs (c : Char) : Bool :=
  c == ' ' || c == '\t' || c == '\n' || c == '\x0b' || c == '\x0c' || c == '\r'

/-- `Constants.unicode_whitespace` -/
def unicodeWsChars : List Nat :=
  [0x20, 0x09, 0x0a, 0x0c, 0x0d, 0xa0, 0x1680, 0x2000, 0x2001, 0x2002, 0x2003, 0x2004, 0x2005, 0x2006, 0x2007,
   0x2008, 0x2009, 0x200a, 0x202f, 0x205f, 0x3000]

def isUnicodeWs (c : Char) : Bool := unicodeWsChars.contains c.toNat

/-- `str.lower()` on ASCII (the tie compares with CPython on every configuration value it uses and on all of ASCII) -/
def lowerAscii (s : Str) : Str := s.map Char.toLower

/-- `s.startswith(p)` -/
def startsWith (p s : Str) : Bool := p.isPrefixOf s

/-- `str(n)` for an `int` -/
def pyStr (n : Int) : Str :=
  if n < 0 then '-' :: Nat.toDigits 10 n.natAbs else Nat.toDigits 10 n.toNat

/-- `lst[i]` with Python's negative-index wrap; `none` = `IndexError` -/
def pyIdx (n : Nat) (i : Int) : Option Nat :=
  if 0 ≤ i ∧ i < n then some i.toNat
  else if -(n : Int) ≤ i ∧ i < 0 then some (i + n).toNat
  else none

/-! ## a rule and its runs -/
structure Rule (Cfg St : Type) where
  /-- the field values `__init__` leaves -/
  fresh : St
  /-- `starting_new_file` (reads the configuration, assigns SOME fields of the state) -/
  start : Cfg → St → St
  /-- `next_token(context, token)` in scan mode -/
  next : Cfg → St → Tok → Except Err (St × List Report)

variable {Cfg St : Type}

/-- the `next_token` loop of one file from a given state: the reports in the order they are made, or the first exception -/
def scanFrom (r : Rule Cfg St) (c : Cfg) : St → List Tok → Except Err (List Report)
  | _, [] => .ok []
  | s, t :: ts =>
    match r.next c s t with
    | .error e => .error e
    | .ok (s', rp) =>
      match scanFrom r c s' ts with
      | .error e => .error e
      | .ok rps => .ok (rp ++ rps)

/-- the state the loop leaves (on an exception: the state before the failing call — the Python may have updated
    some fields already; `mdX_state_reset` quantifies over EVERY state, so it covers those too) -/
def stateFrom (r : Rule Cfg St) (c : Cfg) : St → List Tok → St
  | s, [] => s
  | s, t :: ts =>
    match r.next c s t with
    | .error _ => s
    | .ok (s', _) => stateFrom r c s' ts

/-- one file, scanned by a rule object that has scanned nothing before -/
def scan (r : Rule Cfg St) (c : Cfg) (toks : List Tok) : Except Err (List Report) :=
  scanFrom r c (r.start c r.fresh) toks

/-- file `b`, scanned by the rule object that scanned file `a` before (the same `PluginManager`) -/
def scanAfter (r : Rule Cfg St) (c : Cfg) (a b : List Tok) : Except Err (List Report) :=
  scanFrom r c (r.start c (stateFrom r c (r.start c r.fresh) a)) b

/-- a rule without state: one decision per token -/
def stateless (f : Cfg → Tok → List Report) : Rule Cfg Unit :=
  ⟨(), fun _ _ => (), fun c _ t => .ok ((), f c t)⟩

/-! ## the shape of the `mdX_scan_iff` statements -/
/-- every token of a stream with the tokens before it (`seen` = what precedes the stream) -/
def splits : List Tok → List Tok → List (List Tok × Tok)
  | _, [] => []
  | seen, t :: ts => (seen, t) :: splits (seen ++ [t]) ts

/-- at every token, `f (tokens before it) token`; in stream order -/
def byPrefix (f : List Tok → Tok → List Report) (seen ts : List Tok) : List Report :=
  (splits seen ts).flatMap (fun p => f p.1 p.2)

end Verif.Model.ScanRules
