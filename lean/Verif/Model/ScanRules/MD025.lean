import Verif.Model.ScanRules.Basic
/-
  MD025 single-title — faithful model of pymarkdown/plugins/rule_md_025.py :: RuleMd025
  (`initialize_from_config`, `starting_new_file`, `next_token`).  State: `__have_top_level`.
-/
namespace Verif.Model.ScanRules

structure C025 where
  /-- `__level` -/
  level : Int := 1
  /-- `__front_matter_title` (lower-cased, NOT stripped) -/
  title : Str := "title".toList
  deriving DecidableEq, Repr

/-- `__validate_configuration_title`: not empty after `strip(" ")`, no colon -/
def validTitle025 (s : Str) : Bool := !(stripBy (· == ' ') s).isEmpty && !s.contains ':'

/-- `initialize_from_config` -/
def init025 (level title : CVal) : C025 :=
  { level := getInt level 1 (fun i => decide (1 ≤ i ∧ i ≤ 6)),
    title := lowerAscii (getStr title "title".toList validTitle025) }

def next025 (c : C025) (have_ : Bool) (t : Tok) : Except Err (Bool × List Report) :=
  if t.isHeading then
    if t.hashCount = c.level ∧ have_ then .ok (have_, [reportAt t])
    else if t.hashCount = c.level then .ok (true, [])       -- `or (not is_token_heading)` is dead here
    else .ok (have_, [])
  else if t.kind == .frontMatter then .ok (have_ || t.keys.contains c.title, [])
  else .ok (have_, [])

def md025 : Rule C025 Bool := ⟨false, fun _ _ => false, next025⟩

end Verif.Model.ScanRules
