import Verif.Model.ScanRules.Basic
/-
  MD022 blanks-around-headings — faithful model of pymarkdown/plugins/rule_md_022.py :: RuleMd022
  (`initialize_from_config`, `starting_new_file`, `next_token`, `__next_token_heading_start`,
   `__next_token_heading_end`, `perform_close_check`, `report_any_match_failures`).
  The rule has no `completed_file`: the heading that ends a document is judged at the end-of-stream token.
  `starting_new_file` does NOT assign `__start_heading_blank_line_count` (field `shbc`).
-/
namespace Verif.Model.ScanRules

structure C022 where
  /-- `__lines_above`, `__lines_below` -/
  above : Int := 1
  below : Int := 1
  deriving DecidableEq, Repr

/-- `initialize_from_config`: both items are integers ≥ 0, default 1 -/
def init022 (above below : CVal) : C022 :=
  { above := getInt above 1 (fun i => decide (0 ≤ i)), below := getInt below 1 (fun i => decide (0 ≤ i)) }

structure S022 where
  /-- `__blank_line_count` (−1 = nothing that ends a block was seen yet) -/
  blc : Int := -1
  /-- `__did_above_line_count_match` -/
  aboveOk : Bool := false
  /-- `__start_heading_token` -/
  startTok : Option Tok := none
  /-- `__did_heading_end` -/
  ended : Bool := false
  /-- `__start_heading_blank_line_count` -/
  shbc : Int := -1
  /-- `__last_blank_line` (only its `line_number` is read) -/
  lastBlank : Option Int := none
  deriving DecidableEq, Repr

def extra022 (expected actual : Int) (which : String) : Str :=
  "Expected: ".toList ++ pyStr expected ++ "; Actual: ".toList ++ pyStr actual ++ "; ".toList ++ which.toList

/-- `report_any_match_failures` (the heading token's own position, the original one for a SetExt heading: cannot fail) -/
def reports022 (c : C022) (s : S022) (h : Tok) (endMatch : Bool) : List Report :=
  let pos : Int × Int := if h.kind = .setext then (h.oline, h.ocol) else (h.line, h.col)
  (if !s.aboveOk then [⟨pos.1, pos.2, some (extra022 c.above s.shbc "Above"), 0⟩] else []) ++
  (if !endMatch then [⟨pos.1, pos.2, some (extra022 c.below s.blc "Below"), 0⟩] else [])

/-- `not is_simple_blank_line`: a blank line token directly after a blank line token that is not on the previous line -/
def nonSimple022 (s : S022) (t : Tok) : Bool :=
  t.kind == .blank &&
  (match s.lastBlank with
   | some l => decide (t.line - l ≠ 1)
   | none => false)

/-- `perform_close_check` judges the remembered heading at this token: the heading has ended, and the token is neither an
    eligible (= simple) blank line nor the end of a block quote -/
def fires022 (s : S022) (t : Tok) : Bool :=
  s.startTok.isSome && s.ended && !(t.kind == .blank && !nonSimple022 s t) && t.kind != Kind.bquoteEnd

/-- `perform_close_check` -/
def close022 (c : C022) (s : S022) (t : Tok) : S022 × List Report :=
  let rp : List Report :=
    match s.startTok with
    | some h => if fires022 s t then reports022 c s h (decide (s.blc = c.below)) else []
    | none => []
  let s1 := if fires022 s t then { s with startTok := none } else s
  (if nonSimple022 s t then { s1 with blc := 0 } else s1, rp)

/-- first part of `next_token`: the close check (count known), or the restart of the count at a blank line that does not
    follow the previous one (count unknown) -/
def phase1_022 (c : C022) (s : S022) (t : Tok) : S022 × List Report :=
  if s.blc ≠ -1 ∧ s.blc ≥ 0 then close022 c s t
  else if s.blc = -1 ∧ nonSimple022 s t then ({ s with blc := 0 }, [])
  else (s, [])

/-- second part: a blank line counts when the count is known -/
def phase2_022 (s : S022) (t : Tok) : S022 :=
  if t.kind == .blank ∧ s.blc ≠ -1 ∧ s.blc ≥ 0 then { s with blc := s.blc + 1 } else s

/-- third part: `__next_token_heading_start`, thematic break / link reference definition, `__next_token_heading_end` -/
def phase3_022 (c : C022) (s : S022) (t : Tok) : S022 :=
  if t.isHeading then
    { s with aboveOk := decide (s.blc = -1 ∨ s.blc = c.above), startTok := some t, shbc := s.blc, ended := false }
  else if t.kind == .tbreak || t.kind == .lrd then { s with blc := 0 }
  else if t.isEnd then
    let s := if t.kind != Kind.listEnd && t.kind != Kind.bquoteEnd then { s with blc := if t.isLeafEnd then 0 else -1 } else s
    if t.isHeadingEnd then { s with ended := true } else s
  else s

def next022 (c : C022) (s : S022) (t : Tok) : Except Err (S022 × List Report) :=
  .ok ({ phase3_022 c (phase2_022 (phase1_022 c s t).1 t) t with
           lastBlank := if t.kind == .blank then some t.line else none },
       (phase1_022 c s t).2)

/-- `starting_new_file`: five assignments; `shbc` keeps its value -/
def start022 (s : S022) : S022 :=
  { s with blc := -1, aboveOk := false, startTok := none, ended := false, lastBlank := none }

def md022 : Rule C022 S022 := ⟨{}, fun _ s => start022 s, next022⟩

end Verif.Model.ScanRules
