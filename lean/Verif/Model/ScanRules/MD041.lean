import Verif.Model.ScanRules.Basic
/-
  MD041 first-line-heading — faithful model of pymarkdown/plugins/rule_md_041.py :: RuleMd041
  (`initialize_from_config`, `starting_new_file`, `next_token`).
  State: `__have_seen_first_token`, `__seen_html_block_start`.
-/
namespace Verif.Model.ScanRules

structure C041 where
  /-- `__start_level` -/
  level : Int := 1
  /-- `__front_matter_title` (lower-cased and stripped of spaces) -/
  title : Str := "title".toList
  deriving DecidableEq, Repr

/-- `initialize_from_config`: the title validator only refuses a colon (an empty title is allowed: it switches the
    front-matter branch off) -/
def init041 (level title : CVal) : C041 :=
  { level := getInt level 1 (fun i => decide (1 ≤ i ∧ i ≤ 6)),
    title := stripBy (· == ' ') (lowerAscii (getStr title "title".toList (fun s => !s.contains ':'))) }

structure S041 where
  seen : Bool := false
  html : Option Tok := none
  deriving DecidableEq, Repr

/-- the HTML block's first text starts with `<h1 ` or `<h1>` after `strip(" ")` -/
def startsH1 (s : Str) : Bool :=
  let b := stripBy (· == ' ') s
  startsWith "<h1 ".toList b || startsWith "<h1>".toList b

def next041 (c : C041) (s : S041) (t : Tok) : Except Err (S041 × List Report) :=
  if s.seen then .ok (s, [])
  else if t.isHeading then .ok ({ s with seen := true }, if t.hashCount ≠ c.level then [reportAt t] else [])
  else if t.kind == .frontMatter && !c.title.isEmpty then
    .ok (if t.keys.contains c.title then { s with seen := true } else s, [])
  else if t.kind == .html then .ok ({ s with html := some t }, [])
  else
    match s.html with
    | some h =>
      if t.kind == .text then .ok ({ s with seen := true }, if !startsH1 t.text then [reportAt h] else [])
      else .error .assertion
    | none =>
      if !(t.kind == .blank) then .ok ({ s with seen := true }, [reportAt t]) else .ok (s, [])

def md041 : Rule C041 S041 := ⟨{}, fun _ _ => {}, next041⟩

end Verif.Model.ScanRules
