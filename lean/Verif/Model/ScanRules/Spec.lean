import Verif.Model.ScanRules.Product
/-
  ScanRules.Spec — the conditions the `mdX_scan_iff` theorems are stated with: for each rule, WHEN a token of a stream
  is reported, as a sentence over the tokens before it (and, for MD036 / MD041, the tokens after it) — no state machine.
  Written from the rule pages (newdocs/src/plugins/rule_md0xx.md) and the observed behaviour, not from the code's structure;
  where a sentence needs an auxiliary notion ("the heading that is open", "the style in force") the notion is a function
  of the token list.  Core Lean only.
-/
namespace Verif.Model.ScanRules

/-! ## shared notions -/
/-- the heading that is open after the tokens `seen`: the last heading start with no heading start or end after it,
    together with the tokens that follow it -/
def openHeading (seen : List Tok) : Option (Tok × List Tok) :=
  match seen.reverse.dropWhile (fun x => !x.isHeading && !x.isHeadingEnd) with
  | h :: _ => if h.isHeading then some (h, (seen.reverse.takeWhile (fun x => !x.isHeading && !x.isHeadingEnd)).reverse) else none
  | [] => none

/-! ## MD003 -/
/-- the (style, level ≤ 2) of every heading, in order -/
def headStyles (toks : List Tok) : List (Sty003 × Bool) := toks.filterMap headingProps003

/-- the style in force after the tokens `seen`: the configured one, or with `consistent` the style of the first heading;
    with `allow-setext-update`, `setext` becomes `setext_with_atx` once an open ATX heading of level ≥ 3 was seen -/
def inForce003 (c : C003) (seen : List Tok) : Option Sty003 :=
  let hs := headStyles seen
  let base := match start003 c with
    | some s => some s
    | none => hs.head?.map (·.1)
  if c.allowUpdate && base == some .setext && hs.any (fun p => p.1 == .atx && !p.2) then some .setextWithAtx else base

/-- a heading of style `hs` (level ≤ 2: `l12`) conforms to the style `a` -/
def conforms003 (a hs : Sty003) (l12 : Bool) : Bool :=
  match a with
  | .consistent => true
  | .atx | .atxClosed | .setext => hs == a
  | .setextWithAtx => if l12 then hs == .setext else hs == .atx
  | .setextWithAtxClosed => if l12 then hs == .setext else hs == .atxClosed

/-- the "Expected:" text of the report (the quirk: `setext_with_atx` names itself for a level-1/2 heading) -/
def expected003 (a : Sty003) (l12 : Bool) : Str :=
  match a with
  | .setextWithAtx => if l12 then Sty003.setextWithAtx.name else Sty003.atx.name
  | .setextWithAtxClosed => if l12 then Sty003.setext.name else Sty003.atxClosed.name
  | a => a.name

/-- a heading is reported iff a style was in force before it and it does not conform to the style in force after it -/
def cond003 (c : C003) (seen : List Tok) (t : Tok) : List Report :=
  match headingProps003 t, inForce003 c seen, inForce003 c (seen ++ [t]) with
  | some (hs, l12), some _, some a' =>
    if conforms003 a' hs l12 then [] else [reportAt t (some (extra003 (expected003 a' l12) hs))]
  | _, _, _ => []

/-! ## MD025 -/
/-- a token that establishes the top-level heading: a heading of the configured level, or front matter with the title key -/
def top025 (c : C025) (t : Tok) : Bool :=
  (t.isHeading && decide (t.hashCount = c.level)) || (t.kind == .frontMatter && t.keys.contains c.title)

/-- a heading of the top level is reported iff something before it established the top-level heading -/
def cond025 (c : C025) (seen : List Tok) (t : Tok) : List Report :=
  if t.isHeading && decide (t.hashCount = c.level) && seen.any (top025 c) then [reportAt t] else []

/-! ## MD041 -/
/-- tokens that do not count as the first element: blank lines, and (when a title key is configured) front matter
    without that key -/
def skip041 (c : C041) (t : Tok) : Bool :=
  t.kind == .blank || (t.kind == .frontMatter && !c.title.isEmpty && !t.keys.contains c.title)

/-- the verdict on the first element `d` (followed by `rest`): a heading must have the configured level; front matter
    with the title key is a title; an HTML block must start with `<h1 ` / `<h1>` (its text is the next token);
    anything else is reported -/
def verdict041 (c : C041) : List Tok → List Report
  | [] => []
  | d :: rest =>
    if d.isHeading then (if d.hashCount ≠ c.level then [reportAt d] else [])
    else if d.kind == .frontMatter && !c.title.isEmpty then []
    else if d.kind == .html then
      match rest with
      | x :: _ => if !startsH1 x.text then [reportAt d] else []
      | [] => []
    else [reportAt d]

/-! ## MD036 -/
/-- the text of an emphasis-only paragraph that looks like a heading: one line, not ending in punctuation -/
def eligible036 (c : C036) (x : Tok) : Bool :=
  x.kind == .text && !x.text.contains '\n' &&
  (match x.text.getLast? with
   | some ch => !c.punctuation.contains ch
   | none => false)

/-- the five tokens from here on are: paragraph, emphasis, eligible text, end of emphasis, end of paragraph -/
def window036 (c : C036) : List Tok → Bool
  | p :: e :: x :: ee :: pe :: _ =>
    p.kind == .para && e.kind == .emphasis && eligible036 c x && ee.kind == .emphasisEnd && pe.kind == .paraEnd
  | _ => false

def spec036 (c : C036) : List Tok → List Report
  | [] => []
  | t :: ts => (if window036 c (t :: ts) then [reportAt t] else []) ++ spec036 c ts

/-! ## MD026 -/
/-- the heading text the rule looks at: the texts of the unbroken run of text tokens at the end of `inner` -/
def trailingText (inner : List Tok) : Str :=
  ((inner.reverse.takeWhile (fun x => x.kind == .text)).reverse.map (·.text)).flatten

/-- the end of a heading is reported iff the text run before it is not empty and ends in a configured punctuation
    character; the position is computed by `deltas026` from the start of the heading -/
def cond026 (c : C026) (seen : List Tok) (t : Tok) : List Report :=
  if t.isHeadingEnd then
    match openHeading seen with
    | some (h, inner) =>
      match (trailingText inner).getLast? with
      | some ch =>
        if c.punctuation.contains ch then
          let d := deltas026 (t.kind == .atxEnd) (trailingText inner)
          match mkReport h d.1 d.2.1 d.2.2 none with
          | .ok r => [r]
          | .error _ => []
        else []
      | none => []
    | none => []
  else []

/-! ## MD024 -/
/-- the text of a heading as MD024 compares it: the debug strings of the tokens inside it, concatenated -/
def innerText (inner : List Tok) : Str := (inner.map (·.dbg)).flatten

/-- the completed headings of a stream, LATEST FIRST: (level — 1 for every heading unless `siblings_only` —, text) where
    the text is the concatenation of the debug strings of the tokens inside the heading -/
def closed024 (sib : Bool) : List Tok → List Tok → List (Int × Str)
  | _, [] => []
  | seen, t :: ts =>
    let rest := closed024 sib (seen ++ [t]) ts
    if t.isHeadingEnd then
      match openHeading seen with
      | some (h, inner) => rest ++ [(if sib then h.hashCount else 1, innerText inner)]
      | none => rest
    else rest

/-- an earlier heading (list: latest first) with the same level and text, with no heading of a lower level in between -/
def sibHas (lvl : Int) (txt : Str) : List (Int × Str) → Bool
  | [] => false
  | (l, x) :: gs => if l < lvl then false else (l == lvl && x == txt) || sibHas lvl txt gs

/-- the end of a heading is reported (at the heading's start) iff an earlier sibling has the same text -/
def cond024 (c : C024) (seen : List Tok) (t : Tok) : List Report :=
  if t.isHeadingEnd then
    match openHeading seen with
    | some (h, inner) =>
      if sibHas (if c.siblingsOnly then h.hashCount else 1) (innerText inner) (closed024 c.siblingsOnly [] seen) then
        match mkReport h (t.kind == .setextEnd) 0 0 none with
        | .ok r => [r]
        | .error _ => []
      else []
    | none => []
  else []

/-! ## MD022
  Three notions over the tokens seen so far, given LATEST FIRST (`rev` = `seen.reverse`): the blank-line count, whether the latest
  heading has ended, and the heading that still waits for its verdict.  The six-field state of the rule is these three functions. -/

/-- a blank line token directly after a blank line token that is NOT on the previous line (inside a block quote the `>`-only lines
    are blank line tokens too; a gap in the line numbers means something that is not a token lies between) -/
def nonSimpleRev (t : Tok) (before : List Tok) : Bool :=
  t.kind == .blank &&
  (match before with
   | b :: _ => b.kind == .blank && decide (t.line - b.line ≠ 1)
   | [] => false)

/-- the blank-line count: −1 = nothing that ends a block was seen yet.  A thematic break, a link reference definition and the end of
    a leaf block set it to 0; any other end token (an inline's) makes it unknown again, except the end of a list or block quote, which
    leaves it; a blank line adds one to a known count — or restarts the count at 1 when it does not directly follow the previous
    blank line; every other token leaves it. -/
def cnt022 : List Tok → Int
  | [] => -1
  | t :: before =>
    if t.kind == .tbreak || t.kind == .lrd then 0
    else if t.isEnd then
      (if t.kind == .listEnd || t.kind == .bquoteEnd then cnt022 before else if t.isLeafEnd then 0 else -1)
    else if t.kind == .blank then
      (if nonSimpleRev t before then 1 else if cnt022 before ≥ 0 then cnt022 before + 1 else cnt022 before)
    else cnt022 before

/-- the latest heading start has been followed by a heading end -/
def ended022 : List Tok → Bool
  | [] => false
  | t :: before => if t.isHeading then false else if t.isHeadingEnd then true else ended022 before

/-- a token that lets a finished heading go on waiting: the end of a block quote, or a blank line that follows on -/
def transparent022 (t : Tok) (before : List Tok) : Bool :=
  t.kind == .bquoteEnd || (t.kind == .blank && !nonSimpleRev t before)

/-- the heading that waits for its verdict, with the tokens before it (latest first): the latest heading start, unless it has ended
    and a token that is not transparent came after its end -/
def pend022 : List Tok → Option (Tok × List Tok)
  | [] => none
  | t :: before =>
    if t.isHeading then some (t, before)
    else
      match pend022 before with
      | none => none
      | some hp => if ended022 before && !transparent022 t before then none else some hp

/-- a token is the verdict point of the waiting heading iff that heading has ended and the token is not transparent; the heading is
    then reported "Above" unless the count before it was unknown or the configured one, and "Below" unless the count now (= the blank
    lines since its end) is the configured one -/
def cond022 (c : C022) (seen : List Tok) (t : Tok) : List Report :=
  match pend022 seen.reverse with
  | some (h, beforeH) =>
    if ended022 seen.reverse && !transparent022 t seen.reverse then
      reports022 c { blc := cnt022 seen.reverse, shbc := cnt022 beforeH,
                     aboveOk := decide (cnt022 beforeH = -1 ∨ cnt022 beforeH = c.above) } h
        (decide (cnt022 seen.reverse = c.below))
    else []
  | none => []

end Verif.Model.ScanRules
