import Verif.Model.ScanRules.Basic
/-
  MD024 no-duplicate-heading — faithful model of pymarkdown/plugins/rule_md_024.py :: RuleMd024
  (`initialize_from_config`, `starting_new_file`, `next_token`, `handle_heading_start`, `handler_heading_end`).
  `__heading_content_map` is a list of dictionaries used as sets (key = value = heading text): modelled as a list of
  lists of strings.  The list index `hash_count - 1` goes through Python's negative-index wrap (`pyIdx`): a level-0
  heading uses the LAST dictionary, a level above the list's length is an `IndexError`.
  The heading text is the concatenation of `debug_string(include_column_row_info=False)` of the tokens between the
  heading's start and its end.
-/
namespace Verif.Model.ScanRules

structure C024 where
  /-- `__siblings_only` = `siblings_only or allow_different_nesting` -/
  siblingsOnly : Bool := false
  deriving DecidableEq, Repr

def init024 (sib nest : CVal) : C024 := { siblingsOnly := getBool sib false || getBool nest false }

structure S024 where
  /-- `__heading_text` -/
  text : Option Str := none
  /-- `__start_token` -/
  startTok : Option Tok := none
  /-- `__hash_count` -/
  hc : Int := -1
  /-- `__last_hash_count` -/
  last : Int := 0
  /-- `__heading_content_map` -/
  maps : List (List Str) := []
  deriving DecidableEq, Repr

/-- `maps[i] = {}` -/
def clearAt (maps : List (List Str)) (i : Int) : Except Err (List (List Str)) :=
  match pyIdx maps.length i with
  | some k => .ok (maps.set k [])
  | none => .error .indexError

/-- `while last < hc: last += 1; maps[last - 1] = {}` (`fuel` = `hc - last`) -/
def climb024 : Nat → Int → List (List Str) → Except Err (List (List Str))
  | 0, _, maps => .ok maps
  | fuel + 1, last, maps =>
    match clearAt maps last with          -- index (last + 1) - 1
    | .error e => .error e
    | .ok maps' => climb024 fuel (last + 1) maps'

/-- `while last > hc: maps[last - 1] = {}; last -= 1` (`fuel` = `last - hc`) -/
def descend024 : Nat → Int → List (List Str) → Except Err (List (List Str))
  | 0, _, maps => .ok maps
  | fuel + 1, last, maps =>
    match clearAt maps (last - 1) with
    | .error e => .error e
    | .ok maps' => descend024 fuel (last - 1) maps'

/-- the two `while` loops of `handler_heading_end` (skipped while no heading has been completed: `if self.__last_hash_count:`) -/
def loops024 (s : S024) : Except Err (List (List Str)) :=
  if s.last ≠ 0 then
    match climb024 (s.hc - s.last).toNat s.last s.maps with
    | .error e => .error e
    | .ok m => descend024 (s.last - s.hc).toNat s.last m
  else .ok s.maps

/-- `handler_heading_end` -/
def end024 (s : S024) (t : Tok) : Except Err (S024 × List Report) :=
  match loops024 s with
  | .error e => .error e
  | .ok maps =>
    match pyIdx maps.length (s.hc - 1) with
    | none => .error .indexError
    | some k =>
      match s.text with
      | none => .error .assertion
      | some txt =>
        if (maps.getD k []).contains txt then
          match s.startTok with
          | none => .error .assertion
          | some h =>
            match mkReport h (t.kind == .setextEnd) 0 0 none with
            | .error e => .error e
            | .ok r => .ok ({ s with maps := maps, text := none, last := s.hc }, [r])
        else .ok ({ s with maps := maps.set k (maps.getD k [] ++ [txt]), text := none, last := s.hc }, [])

def next024 (c : C024) (s : S024) (t : Tok) : Except Err (S024 × List Report) :=
  if t.isHeading then
    -- `handle_heading_start`; the start token itself is skipped by the text accumulation
    .ok ({ s with text := some [], startTok := some t, hc := if c.siblingsOnly then t.hashCount else 1 }, [])
  else
    match (if t.isHeadingEnd then end024 s t else .ok (s, []) : Except Err (S024 × List Report)) with
    | .error e => .error e
    | .ok (s, rp) =>
      match s.text with
      | some txt => .ok ({ s with text := some (txt ++ t.dbg) }, rp)
      | none => .ok (s, rp)

/-- `starting_new_file`: all five fields -/
def start024 (c : C024) : S024 :=
  { text := none, startTok := none, hc := -1, last := 0,
    maps := if c.siblingsOnly then [[], [], [], [], [], []] else [[]] }

def md024 : Rule C024 S024 := ⟨{}, fun c _ => start024 c, next024⟩

end Verif.Model.ScanRules
