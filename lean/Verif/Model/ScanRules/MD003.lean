import Verif.Model.ScanRules.Basic
/-
  MD003 heading-style — faithful model of pymarkdown/plugins/rule_md_003.py :: RuleMd003
  (`initialize_from_config`, `starting_new_file`, `next_token`, `__get_heading_properties`,
   `__handle_simple_styles`, `__handle_complex_styles`).
  State: `__actual_style_type` — "" (`none`) or a style name.
-/
namespace Verif.Model.ScanRules

/-- the six style names of the configuration item `style` (and of `__actual_style_type`) -/
inductive Sty003 where
  | consistent | atx | atxClosed | setext | setextWithAtx | setextWithAtxClosed
  deriving DecidableEq, Repr

def Sty003.name : Sty003 → Str
  | .consistent => "consistent".toList
  | .atx => "atx".toList
  | .atxClosed => "atx_closed".toList
  | .setext => "setext".toList
  | .setextWithAtx => "setext_with_atx".toList
  | .setextWithAtxClosed => "setext_with_atx_closed".toList

def allSty003 : List Sty003 := [.consistent, .atx, .atxClosed, .setext, .setextWithAtx, .setextWithAtxClosed]

/-- `found_value in __valid_styles` -/
def parseSty003 (s : Str) : Option Sty003 := allSty003.find? (fun x => x.name == s)

structure C003 where
  /-- `__style_type` -/
  style : Sty003 := .consistent
  /-- `__allow_consistent_setext_update` -/
  allowUpdate : Bool := false
  deriving DecidableEq, Repr

/-- `initialize_from_config`: `style` (validated against the six names, default `consistent`);
    `allow-setext-update` is read only when the style is `consistent`. -/
def init003 (style allow : CVal) : C003 :=
  let st := (parseSty003 (getStr style Sty003.consistent.name (fun s => (parseSty003 s).isSome))).getD .consistent
  { style := st, allowUpdate := if st = .consistent then getBool allow false else false }

/-- `__simple_styles` -/
def Sty003.simple : Sty003 → Bool
  | .atx | .atxClosed | .setext => true
  | _ => false

/-- `__get_heading_properties`: (`heading_style_type`, `is_heading_level_1_or_2`); `none` = "" (not a heading) -/
def headingProps003 (t : Tok) : Option (Sty003 × Bool) :=
  match t.kind with
  | .atx => some (if t.trailing ≠ 0 then .atxClosed else .atx, decide (t.hashCount < 3))
  | .setext => some (.setext, true)
  | _ => none

def extra003 (expected : Str) (actual : Sty003) : Str :=
  "Expected: ".toList ++ expected ++ "; Actual: ".toList ++ actual.name

/-- `__handle_complex_styles`: (`is_heading_bad`, `expected_style_type`) -/
def complex003 (actual hs : Sty003) (l12 : Bool) : Except Err (Bool × Str) :=
  let base : Except Err Sty003 :=
    if actual = .setextWithAtx then .ok .atx
    else if actual = .setextWithAtxClosed then .ok .atxClosed else .error .assertion
  match base with
  | .error e => .error e
  | .ok base =>
    if (l12 && hs == .setext) || (!l12 && hs == base) then .ok (false, [])
    else
      let expected := if l12 then Sty003.setext else base
      let expected := if expected = .setext ∧ l12 ∧ actual = .setextWithAtx then Sty003.setextWithAtx else expected
      .ok (true, expected.name)

def next003 (c : C003) (actual : Option Sty003) (t : Tok) : Except Err (Option Sty003 × List Report) :=
  match headingProps003 t with
  | none => .ok (actual, [])
  | some (hs, l12) =>
    match actual with
    | none => .ok (some hs, [])
    | some a =>
      if a.simple then
        -- `__handle_simple_styles`
        if hs ≠ a ∧ c.allowUpdate ∧ a = .setext ∧ hs = .atx ∧ ¬ l12 then .ok (some .setextWithAtx, [])
        else if hs ≠ a then .ok (some a, [reportAt t (some (extra003 a.name hs))])
        else .ok (some a, [])
      else
        match complex003 a hs l12 with
        | .error e => .error e
        | .ok (bad, expected) => .ok (some a, if bad then [reportAt t (some (extra003 expected hs))] else [])

/-- `starting_new_file`: `__actual_style_type = style if style != "consistent" else ""` -/
def start003 (c : C003) : Option Sty003 := if c.style ≠ .consistent then some c.style else none

def md003 : Rule C003 (Option Sty003) := ⟨none, fun c _ => start003 c, next003⟩

end Verif.Model.ScanRules
