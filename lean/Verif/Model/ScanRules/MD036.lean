import Verif.Model.ScanRules.Basic
/-
  MD036 no-emphasis-as-heading — faithful model of pymarkdown/plugins/rule_md_036.py :: RuleMd036
  (`initialize_from_config`, `starting_new_file`, `next_token` and its five `__handle_look_for_…`).
  State: `__current_state`, `__start_token`.
-/
namespace Verif.Model.ScanRules

structure C036 where
  punctuation : Str := ".,;:!?。，；：？".toList
  deriving DecidableEq, Repr

def init036 (p : CVal) : C036 := { punctuation := getStr p ".,;:!?。，；：？".toList }

/-- `RuleMd036States` -/
inductive Q036 where
  | para | emStart | eligibleText | emEnd | paraEnd
  deriving DecidableEq, Repr

structure S036 where
  q : Q036 := .para
  startTok : Option Tok := none
  deriving DecidableEq, Repr

def next036 (c : C036) (s : S036) (t : Tok) : Except Err (S036 × List Report) :=
  match s.q with
  | .para => if t.kind == .para then .ok ({ q := .emStart, startTok := some t }, []) else .ok ({ s with q := .para }, [])
  | .emStart => .ok ({ s with q := if t.kind == .emphasis then .eligibleText else .para }, [])
  | .eligibleText =>
    if t.kind == .text then
      if !t.text.contains '\n' then
        -- `token_text[-1]`: evaluated only when there is no newline in the text
        match t.text.getLast? with
        | none => .error .indexError
        | some ch => .ok ({ s with q := if !c.punctuation.contains ch then .emEnd else .para }, [])
      else .ok ({ s with q := .para }, [])
    else .ok ({ s with q := .para }, [])
  | .emEnd => .ok ({ s with q := if t.kind == .emphasisEnd then .paraEnd else .para }, [])
  | .paraEnd =>
    if t.kind == .paraEnd then
      match s.startTok with
      | none => .error .assertion
      | some p => .ok ({ s with q := .para }, [reportAt p])
    else .ok ({ s with q := .para }, [])

def md036 : Rule C036 S036 := ⟨{}, fun _ _ => {}, next036⟩

end Verif.Model.ScanRules
