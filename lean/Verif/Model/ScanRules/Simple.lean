import Verif.Model.ScanRules.Basic
/-
  MD040 fenced-code-language, MD042 no-empty-links, MD045 no-alt-text — faithful models of
  pymarkdown/plugins/rule_md_040.py, rule_md_042.py, rule_md_045.py (`next_token`; no state, no configuration).
-/
namespace Verif.Model.ScanRules

/-- MD040: `not fenced_token.extracted_text.strip(Constants.ascii_whitespace)` -/
def trig040 (t : Tok) : Bool := t.kind == .fence && (stripBy isAsciiWs t.text).isEmpty

/-- MD042: the stripped `active_link_uri` of a link or image is empty or `#` -/
def trig042 (t : Tok) : Bool :=
  (t.kind == .link || t.kind == .image) &&
  (let u := stripBy isAsciiWs t.uri
   u.isEmpty || u == ['#'])

/-- MD045: `not image_token.text_from_blocks.strip(Constants.unicode_whitespace)` -/
def trig045 (t : Tok) : Bool := t.kind == .image && (stripBy isUnicodeWs t.alt).isEmpty

def md040 : Rule Unit Unit := stateless (fun _ t => if trig040 t then [reportAt t] else [])
def md042 : Rule Unit Unit := stateless (fun _ t => if trig042 t then [reportAt t] else [])
def md045 : Rule Unit Unit := stateless (fun _ t => if trig045 t then [reportAt t] else [])

end Verif.Model.ScanRules
