/-
  Specification-side definitions for the HTML generator (core Lean only, executable: the driver evaluates them on real
  token streams).

  * the token TREE of a stream (`treeOf`) and the CommonMark definition of a loose list over it (`specLoose`),
    written from the specification's sentence, not from the code:
      "A list is loose if any of its constituent list items are separated by blank lines, or if any of its
       constituent list items directly contain two block-level elements with a blank line between them."
  * the tag language of the renderer's own output and its balance check (`tagRun`, `Balanced`);
  * `Safe` strings (nothing that needs escaping) and the per-chunk escaping predicate;
  * the payload-level success predicate `PayloadOK` (everything that can fail inside a handler because of a token's
    TEXT, as opposed to the stream's structure).
-/
import Verif.Model.GfmRender
namespace Verif.Model.GfmSpec
open Verif.Model.GfmRender
open Verif.Model.Codec (Str)

/-! ## The token tree -/

/-- the token opens a scope (`requires_end_token`, and not the new-list-item token) -/
def isStartTok (t : Tok) : Bool :=
  match t.kind? with
  | some k => k.requiresEnd && k != .li
  | none => false

inductive Node
  | leaf (i : Nat) (t : Tok)
  | node (i : Nat) (s : Tok) (kids : List Node) (e : Tok)
  deriving Repr

/-- an open start token: its index, the token, and the children of its PARENT collected so far (reversed) -/
structure Frame where
  i : Nat
  s : Tok
  saved : List Node

/-- one pass with a stack; `acc` = children of the innermost open start so far, reversed. -/
def treeGo : List Tok → Nat → List Frame → List Node → Option (List Node)
  | [], _, [], acc => some acc.reverse
  | [], _, _ :: _, _ => none
  | t :: ts, i, frs, acc =>
    match t.body with
    | .end_ .. =>
      match frs with
      | [] => none
      | f :: frs' => treeGo ts (i + 1) frs' (.node f.i f.s acc.reverse t :: f.saved)
    | _ =>
      if isStartTok t then treeGo ts (i + 1) (⟨i, t, acc⟩ :: frs) []
      else treeGo ts (i + 1) frs (.leaf i t :: acc)

/-- the forest of a stream (`none` if the brackets do not match) -/
def treeOf (ts : List Tok) : Option (List Node) := treeGo ts 0 [] []

def Node.idx : Node → Nat
  | .leaf i _ => i
  | .node i .. => i

def Node.tok : Node → Tok
  | .leaf _ t => t
  | .node _ s _ _ => s

mutual
  /-- the subtree whose first token has index `i` -/
  def Node.find (i : Nat) : Node → Option Node
    | .leaf j t => if i == j then some (.leaf j t) else none
    | .node j s kids e => if i == j then some (.node j s kids e) else findIn i kids
  def findIn (i : Nat) : List Node → Option Node
    | [] => none
    | n :: ns =>
      match n.find i with
      | some r => some r
      | none => findIn i ns
end

/-! ## Loose lists, from the specification -/

/-- scanning the children of a container in order: are we at the first child of a list item (`first`), and the line of
a blank line that ends what we have seen and is visible from outside (`tb`). -/
structure TB where
  first : Bool
  tb : Option Nat

mutual
  /-- the line number of a blank line that ENDS the node and is visible to the node's parent:
  a blank line itself; a list whose last item ends with one; a block quote ends with one only if that blank line lies
  after the quote's own lines (pymarkdown keeps such a BLANK token inside the quote's token range: the quote spans
  `line_number … line_number + (number of its per-line prefixes) − 1`). -/
  def Node.trailingBlank : Node → Option Nat
    | .leaf _ t => if t.isBlank then some t.line else none
    | .node _ s kids _ =>
      if s.isListStart then trailingBlankSeq kids ⟨true, none⟩
      else
        match s.body with
        | .bquote bl =>
          match trailingBlankSeq kids ⟨false, none⟩ with
          | some ln => if s.line + splitCount bl ≤ ln then some ln else none
          | none => none
        | _ => none
  /-- fold over the children.  Link reference definitions are not structural elements: skipped.  A blank line that is
  the FIRST child of a list item is the item's own (empty) first line, not a blank line after something. -/
  def trailingBlankSeq : List Node → TB → Option Nat
    | [], st => st.tb
    | n :: ns, st =>
      if n.tok.isLrd then trailingBlankSeq ns st
      else if n.tok.isLi then trailingBlankSeq ns ⟨true, none⟩
      else if n.tok.isBlank then
        (if st.first then trailingBlankSeq ns ⟨false, none⟩ else trailingBlankSeq ns ⟨false, n.trailingBlank⟩)
      else trailingBlankSeq ns ⟨false, n.trailingBlank⟩
end

structure LS where
  first : Bool := true          -- at the first child of the current item
  seenBlock : Bool := false     -- the current item already has a block-level child
  gap : Bool := false           -- a blank line since that child
  tb : Bool := false            -- the current item (so far) ends with a visible blank line

/-- the two clauses of the definition, scanning the children of the list (items are separated by `li` tokens). -/
def looseKids : List Node → LS → Bool
  | [], _ => false
  | n :: ns, st =>
    if n.tok.isLrd then looseKids ns st
    else if n.tok.isLi then
      (if st.tb then true                                  -- two items separated by a blank line
       else looseKids ns {})
    else if n.tok.isBlank then
      (if st.first then looseKids ns { st with first := false }
       else looseKids ns { st with first := false, gap := st.seenBlock, tb := true })
    else
      (if st.seenBlock && st.gap then true                 -- two block-level children with a blank line between them
       else
        let t := n.trailingBlank.isSome
        looseKids ns { first := false, seenBlock := true, gap := t, tb := t })

/-- CommonMark: is the list (a `node` whose start token is a list start) loose? -/
def specLoose : Node → Bool
  | .node _ _ kids _ => looseKids kids {}
  | .leaf .. => false

/-- the specification's flag for the list starting at index `i` of the stream -/
def specLooseAt (ts : List Tok) (i : Nat) : Option Bool :=
  match treeOf ts with
  | none => none
  | some f => (findIn i f).map specLoose

/-! ## The tag language of the renderer's output -/

inductive TagEv
  | opn (t : Tag)
  | cls (t : Tag)
  deriving DecidableEq, Repr

/-- the tags a chunk list contains; void elements, newlines and payloads (text, raw HTML) are neutral atoms -/
def tagsOf : Out → List TagEv
  | [] => []
  | .opn t _ :: cs => .opn t :: tagsOf cs
  | .cls t :: cs => .cls t :: tagsOf cs
  | _ :: cs => tagsOf cs

/-- read tag events with a stack of open tags (innermost first); `none` = a closing tag that does not match -/
def tagRun : List Tag → List TagEv → Option (List Tag)
  | st, [] => some st
  | st, .opn t :: es => tagRun (t :: st) es
  | [], .cls _ :: _ => none
  | t' :: st, .cls t :: es => if t = t' then tagRun st es else none

/-- every tag the renderer opens is closed, in nesting order, and nothing else is closed -/
def Balanced (o : Out) : Prop := tagRun [] (tagsOf o) = some []

instance (o : Out) : Decidable (Balanced o) := by unfold Balanced; infer_instance

/-! ## Escaping -/

def entityTails : List Str := ["amp;", "lt;", "gt;", "quot;"].map String.toList

/-- no `<`, `>`, `"`; every `&` begins one of the four entities the escaping function writes -/
def Safe : Str → Bool
  | [] => true
  | c :: cs =>
    if c == '<' || c == '>' || c == '"' then false
    else if c == '&' then entityTails.any (fun e => e.isPrefixOf cs) && Safe cs
    else Safe cs

/-- the values that come from a token field (`href`, `src`, `title`, `alt`, `class`); `Src.fixed` values are constants of
the renderer (`type="checkbox"`, `checked=""`, the decimal `start` number) -/
def attrsSafe (as : List Attr) : Bool := as.all fun a => a.src == .fixed || Safe a.value

/-- raw HTML (inline tag, HTML block line) is an opaque atom: it is meant to reach the output unescaped -/
def srcOpaque : Src → Bool
  | .rawHtml | .htmlBlockText => true
  | _ => false

def Chunk.escaped : Chunk → Bool
  | .opn _ as => attrsSafe as
  | .void _ as => attrsSafe as
  | .payload from_ s => srcOpaque from_ || Safe s
  | _ => true

/-- every attribute value and every non-opaque payload of the output is `Safe` -/
def Escaped (o : Out) : Bool := o.all Chunk.escaped

/-! ### the hypothesis of `render_escapes`: what the PARSER has to have done -/

/-- the three mode flags of `TransformState` that select the branch of the text handler -/
structure Mode where
  inCode : Bool := false
  inHtml : Bool := false
  inSetext : Bool := false

def Mode.step (m : Mode) (t : Tok) : Mode :=
  match t.body with
  | .fcode _ => { m with inCode := true }
  | .icode => { m with inCode := true }
  | .htmlBlock => { m with inHtml := true }
  | .setext _ => { m with inSetext := true }
  | .end_ .fcode _ _ => { m with inCode := false }
  | .end_ .icode _ _ => { m with inCode := false }
  | .end_ .htmlBlock _ _ => { m with inHtml := false }
  | .end_ .setext _ _ => { m with inSetext := false }
  | _ => m

/-- the generator itself escapes nothing (except in the URI autolink handler): every field it copies into an
attribute or into text must already be `Safe` — after `resolve_all_from_text` where the handler applies it.
Text inside an HTML block is raw HTML (opaque). -/
def tokEscaped (m : Mode) (t : Tok) : Bool :=
  match t.body with
  | .text tt ws ew =>
    match resolve tt with
    | .error _ => true
    | .ok a =>
      if m.inCode then (match resolve ws with | .ok l => Safe (l ++ a) | .error _ => true)
      else if m.inHtml then true
      else if m.inSetext then Safe a
      else (match textNormal tt ew a with | .ok s => Safe s | .error _ => true)
  | .codeSpan s => (match resolve s with | .ok r => Safe r | .error _ => true)
  | .fcode info => Safe info
  | .emailAutolink s => Safe s
  | .link u ti => Safe u && Safe ti
  | .image u a ti => Safe u && Safe a && Safe ti
  | _ => true

def payloadsEscapedFrom : List Tok → Mode → Bool
  | [], _ => true
  | t :: ts, m => tokEscaped m t && payloadsEscapedFrom ts (m.step t)

def PayloadsEscaped (ts : List Tok) : Prop := payloadsEscapedFrom ts {} = true

instance (ts : List Tok) : Decidable (PayloadsEscaped ts) := by unfold PayloadsEscaped; infer_instance

/-! ## Payload-level success -/

def resolves (s : Str) : Bool :=
  match resolve s with
  | .ok _ => true
  | .error _ => false

/-- what can fail inside a handler because of the TEXT of a token (never because of the stream's structure) -/
def payloadOK (t : Tok) : Bool :=
  match t.body with
  | .text tt ws ew =>
    resolves ws &&
    (match resolve tt with
     | .ok adj => (match textNormal tt ew adj with | .ok _ => true | .error _ => false)
     | .error _ => false)
  | .codeSpan s => resolves s
  | .rawHtml s => resolves s
  | _ => true

def PayloadOK (ts : List Tok) : Prop := ∀ t ∈ ts, payloadOK t = true

instance (ts : List Tok) : Decidable (PayloadOK ts) := by unfold PayloadOK; infer_instance

/-! ## Where a token stands -/

/-- the innermost CONTAINER (block quote / list) that is open just before index `k`: `(index, token)` -/
def openContainers : List Tok → Nat → List (Nat × Tok) → List (Nat × Tok)
  | [], _, st => st
  | t :: ts, i, st =>
    if t.isBqStart || t.isListStart then openContainers ts (i + 1) ((i, t) :: st)
    else if t.isBqEnd || t.isListEnd then openContainers ts (i + 1) st.tail
    else openContainers ts (i + 1) st

/-- the containers open just before index `k`, innermost first -/
def containersAt (ts : List Tok) (k : Nat) : List (Nat × Tok) := openContainers (ts.take k) 0 []

/-! ## Paragraph tightness -/

/-- `<p>` as the CommonMark rule prescribes it for a block at index `k`: suppressed exactly when the block is a direct
child of an item of a list whose loose flag (`flags j`, `j` = index of the list's start token) is false. -/
def expectedLoose (ts : List Tok) (flags : Nat → Bool) (k : Nat) : Bool :=
  match containersAt ts k with
  | (j, c) :: _ => if c.isListStart then flags j else true
  | [] => true

/-- no list or block quote starts directly inside a block quote that itself lies inside a list -/
def quoteInListFlatAt (ts : List Tok) (k : Nat) : Bool :=
  match containersAt ts k with
  | (_, c) :: rest => !c.isBqStart || rest.all fun x => !x.2.isListStart
  | [] => true

def quoteInListFlat (ts : List Tok) : Bool :=
  ts.zipIdx.all fun x => !(x.1.isListStart || x.1.isBqStart) || quoteInListFlatAt ts x.2

def QuoteInListFlat (ts : List Tok) : Prop := quoteInListFlat ts = true

instance (ts : List Tok) : Decidable (QuoteInListFlat ts) := by unfold QuoteInListFlat; infer_instance

/-- the state of the generator just before it processes the token at index `k` -/
def stateBefore (ts : List Tok) (k : Nat) : R (St × Out) := runToks ts (ts.take k) ({}, [])

end Verif.Model.GfmSpec
