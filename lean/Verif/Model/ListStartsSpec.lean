/-
  What a list-item start IS, written from the CommonMark 0.31.2 text (§2.2 tabs, §4.1 thematic breaks, §5.2 list items,
  §5.3 lists), not from pymarkdown's code.  Core Lean only.

  §5.2  "A list marker is a bullet list marker or an ordered list marker.
         A bullet list marker is a -, +, or * character.
         An ordered list marker is a sequence of 1–9 arabic digits (0-9), followed by either a . character or a ) character."
  rule 1 (basic case)  "… M is a list marker of width W followed by 1 ≤ N ≤ 4 spaces of indentation, then the result of prepending
         M and the following spaces to the first line of Ls, and indenting subsequent lines of Ls by W + N spaces, is a list item …
         Exceptions: When the first list item in a list interrupts a paragraph—that is, when it starts on a line that would
         otherwise count as paragraph continuation text—then (a) the lines Ls must not begin with a blank line, and (b) if the
         list item is ordered, the start number must be 1.  If any line is a thematic break then that line is not a list item."
  rule 2 (item starting with indented code)  "… M is a list marker of width W followed by one space of indentation, then … indenting
         subsequent lines of Ls by W + 1 spaces, is a list item" (five or more columns after the marker: one belongs to the marker).
  rule 3 (item starting with a blank line)  "… M is a list marker of width W, then the result of prepending M to the first line of
         Ls, and preceding subsequent lines of Ls by W + 1 spaces of indentation, is a list item"
  rule 4 (indentation)  "… preceding each line of Ls by up to three spaces of indentation (the same for each line) also constitutes
         a list item"
  §5.3  "Two list items are of the same type if they begin with a list marker of the same type.  Two list markers are of the same
         type if (a) they are bullet list markers using the same character (-, +, or *) or (b) they are ordered list numbers with the
         same delimiter (either . or )).";  "Changing the bullet or ordered list delimiter starts a new list."
         "… we allow only lists starting with 1 to interrupt paragraphs."
-/
namespace Verif.Model.ListStartsSpec

abbrev Str := List Char

def isBulletChar (c : Char) : Bool := c == '-' || c == '+' || c == '*'
def isDelim (c : Char) : Bool := c == '.' || c == ')'
def digitChars : Str := ['0', '1', '2', '3', '4', '5', '6', '7', '8', '9']
def isDigit (c : Char) : Bool := digitChars.contains c
def isSpTab (c : Char) : Bool := c == ' ' || c == '\t'

/-- a list marker -/
inductive Marker where
  | bullet (c : Char)
  | ordered (digits : Str) (delim : Char)
  deriving Repr, DecidableEq

def Marker.text : Marker → Str
  | .bullet c => [c]
  | .ordered ds d => ds ++ [d]

/-- the width W of the marker -/
def Marker.width (m : Marker) : Nat := m.text.length

def Marker.isOrdered : Marker → Bool
  | .bullet _ => false
  | .ordered _ _ => true

/-- the two sentences that define list markers -/
def Marker.Valid : Marker → Prop
  | .bullet c => c = '-' ∨ c = '+' ∨ c = '*'
  | .ordered ds d => 1 ≤ ds.length ∧ ds.length ≤ 9 ∧ (∀ x ∈ ds, isDigit x = true) ∧ (d = '.' ∨ d = ')')

/-- the start number of an ordered list item -/
def numberOf (ds : Str) : Nat := ds.foldl (fun a ch => a * 10 + (ch.toNat - 48)) 0

/-- what may follow a list marker: a space, a tab, or the end of the line (rules 1–3) -/
def FollowOK (rest : Str) : Prop := rest = [] ∨ ∃ c r, rest = c :: r ∧ (c = ' ' ∨ c = '\t')

/-- `d` (a line from its first non-indentation character on) begins with the list marker `m`, and `rest` follows it -/
def MarkerAt (d : Str) (m : Marker) (rest : Str) : Prop := m.Valid ∧ d = m.text ++ rest ∧ FollowOK rest

/-- a blank remainder: only spaces and tabs -/
def Blank (rest : Str) : Prop := ∀ c ∈ rest, c = ' ' ∨ c = '\t'

/-- §4.1: three or more matching `-`, `_` or `*`, each followed optionally by any number of spaces or tabs, nothing else -/
def IsThematic (d : Str) : Prop :=
  ∃ (c : Char) (rest : Str), (c = '*' ∨ c = '_' ∨ c = '-') ∧ d = c :: rest ∧
    (∀ x ∈ rest, x = c ∨ x = ' ' ∨ x = '\t') ∧ 3 ≤ (c :: rest).count c

/-- rules 1–4 with the thematic-break exception: `cols` columns of indentation relative to the container, then `d` -/
def ItemStart (cols : Nat) (d : Str) (m : Marker) (rest : Str) : Prop :=
  cols ≤ 3 ∧ MarkerAt d m rest ∧ ¬ IsThematic d

/-- §2.2: the next tab stop after column `n` (columns counted from 0, tab stops every 4) -/
def nextTabStop (n : Nat) : Nat := n + (4 - n % 4)

/-- the column reached after the whitespace `ws` that begins at column `col` -/
def advance (col : Nat) : Str → Nat
  | [] => col
  | c :: cs => advance (if c == '\t' then nextTabStop col else col + 1) cs

/-- columns of indentation `ws` provides when it begins at column `col` -/
def colsFrom (col : Nat) (ws : Str) : Nat := advance col ws - col

/-- the padding N that belongs to the marker: rule 3 (blank: 1), rule 2 (five or more columns: 1), rule 1 (1 ≤ N ≤ 4) -/
def padding (spaces : Nat) (blank : Bool) : Nat := if blank then 1 else if spaces ≥ 5 then 1 else spaces

/-- the content offset of the item relative to its container: indentation + W + N (what following lines must be indented by) -/
def contentOffset (cols W spaces : Nat) (blank : Bool) : Nat := cols + W + padding spaces blank

/-- the two conditions under which the first item of a list may interrupt a paragraph -/
def CanInterrupt (m : Marker) (rest : Str) : Prop :=
  ¬ Blank rest ∧ (∀ ds d, m = .ordered ds d → numberOf ds = 1)

/-- §5.3 markers of the same type -/
def SameType : Marker → Marker → Prop
  | .bullet a, .bullet b => a = b
  | .ordered _ d1, .ordered _ d2 => d1 = d2
  | _, _ => False

instance : ∀ a b, Decidable (SameType a b)
  | .bullet a, .bullet b => inferInstanceAs (Decidable (a = b))
  | .ordered _ d1, .ordered _ d2 => inferInstanceAs (Decidable (d1 = d2))
  | .bullet _, .ordered _ _ => isFalse (fun h => h)
  | .ordered _ _, .bullet _ => isFalse (fun h => h)

/-! ## the same, executable (evaluated by the driver as the tie's direct oracle; proved equivalent in Lemmas/ListStartsSpec) -/

def followOkB : Str → Bool
  | [] => true
  | c :: _ => isSpTab c

/-- decision procedure for `MarkerAt` -/
def parseMarker (d : Str) : Option (Marker × Str) :=
  match d with
  | [] => none
  | c :: r =>
    if isBulletChar c then
      if followOkB r then some (.bullet c, r) else none
    else
      let ds := d.takeWhile isDigit
      if 1 ≤ ds.length && ds.length ≤ 9 then
        match d.dropWhile isDigit with
        | dl :: r2 => if isDelim dl && followOkB r2 then some (.ordered ds dl, r2) else none
        | [] => none
      else none

def blankB (rest : Str) : Bool := rest.all isSpTab

def isThematicB (d : Str) : Bool :=
  match d with
  | c :: rest =>
    (c == '*' || c == '_' || c == '-') && rest.all (fun x => x == c || x == ' ' || x == '\t') &&
      decide (3 ≤ (c :: rest).count c)
  | [] => false

def canInterruptB (m : Marker) (rest : Str) : Bool :=
  !blankB rest && (match m with
    | .bullet _ => true
    | .ordered ds _ => numberOf ds == 1)

def bit (b : Bool) : String := if b then "1" else "0"

/-- `line`, index `start` of the first non-indentation character, the indentation `ews` before it (relative to the container,
beginning at a column ≡ 0 mod 4) → `start|ordered|W|N|content|interrupt`: whether an item starts here (not interrupting a
paragraph), its kind, marker width, padding, content offset and whether it may interrupt a paragraph -/
def specLine (line : Str) (start : Nat) (ews : Str) (_inPara : Bool) : String :=
  let d := line.drop start
  let cols := colsFrom 0 ews
  match parseMarker d with
  | none => "0"
  | some (m, rest) =>
    let ok := decide (cols ≤ 3) && !isThematicB d
    let spaces := colsFrom (cols + m.width) (rest.takeWhile isSpTab)
    let blank := blankB rest
    s!"{bit ok}|{bit m.isOrdered}|{m.width}|{padding spaces blank}|{contentOffset cols m.width spaces blank}|{bit (canInterruptB m rest)}"

end Verif.Model.ListStartsSpec
