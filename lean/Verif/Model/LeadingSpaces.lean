/-
  `LeadingSpaces` — the per-line prefix store of the container tokens (core Lean only).

  A list token and a block-quote token record, for every line of the document they span, the characters the
  container consumed in front of the line (`"  "`, `"> "`, …).  The record is ONE string, the per-line parts
  joined with `"\n"`; the Markdown regenerator splits it again and walks through the parts with an index.

  Faithful models of
    pymarkdown/tokens/list_start_markdown_token.py   __leading_spaces (Optional[str], starts as None),
                                                     add_leading_spaces, remove_last_leading_space
    pymarkdown/tokens/block_quote_markdown_token.py  __leading_spaces (str, starts as ""), leading_text_index,
                                                     __tabbed_leading_spaces, weird_kludge_five,
                                                     add_bleading_spaces, remove_last_bleading_space,
                                                     calculate_next_bleading_space_part
    pymarkdown/transform_markdown/transform_containers.py
                                                     __adjust (the store part),
                                                     __apply_primary_transformation_adjust_container_line
  The two token classes differ exactly in how "nothing recorded yet" is written: `None` for lists, `""` for
  block quotes.  `"".split("\n") == [""]`, so the block-quote store cannot tell "no part" from "one empty part";
  the list store can.  The model keeps both representations as they are.

  Python exceptions are explicit results: `AssertionError` (`Err.assertion`), `IndexError` (`Err.index`),
  `KeyError` (`Err.key`).  A negative list index is Python's: it counts from the end (`pyGet`).
  `ListStartMarkdownToken.leading_spaces_index` is set to 0 by the constructor and never written again anywhere in
  pymarkdown (the regenerator keeps its own `container_token_indices`); it is therefore not part of the state.
-/
import Verif.Model.Lines
namespace Verif.Model.LeadingSpaces
open Verif.Model.Lines (Str NL splitNL joinNL)

inductive Err where
  | assertion   -- AssertionError
  | index       -- IndexError
  | key         -- KeyError
  deriving Repr, DecidableEq

/-- `s.rfind("\n")`; `none` is Python's `-1`. -/
def rfindNL : Str → Option Nat
  | [] => none
  | c :: cs =>
    match rfindNL cs with
    | some i => some (i + 1)
    | none => if c = NL then some 0 else none

/-- Python `l[i]` for an `int` index: `0 ≤ i` counts from the front, `-len ≤ i < 0` from the end, anything else is an
`IndexError` (`none`). -/
def pyGet {α : Type} (l : List α) (i : Int) : Option α :=
  if 0 ≤ i then l[i.toNat]?
  else if -(l.length : Int) ≤ i then l[((l.length : Int) + i).toNat]?
  else none

/-- `ParserHelper.count_newlines_in_text`. -/
def countNL (s : Str) : Nat := s.count NL

/-! ## the list token -/

/-- the part of a `ListStartMarkdownToken` that concerns the store. -/
structure ListTok where
  /-- `__leading_spaces : Optional[str]` -/
  leading : Option Str
  deriving Repr, DecidableEq

/-- after `__init__`: `self.__leading_spaces = None`. -/
def ListTok.new : ListTok := ⟨none⟩

/-- `add_leading_spaces(ws_add)`: `ws_add if self.__leading_spaces is None else f"{self.__leading_spaces}\n{ws_add}"`. -/
def ListTok.add (t : ListTok) (ws : Str) : ListTok :=
  match t.leading with
  | none => ⟨some ws⟩
  | some s => ⟨some (s ++ NL :: ws)⟩

/-- `remove_last_leading_space()` → the removed part; `assert self.__leading_spaces is not None`. -/
def ListTok.removeLast (t : ListTok) : Except Err (Str × ListTok) :=
  match t.leading with
  | none => .error .assertion
  | some s =>
    match rfindNL s with
    | none => .ok (s, ⟨none⟩)
    | some i => .ok (s.drop (i + 1), ⟨some (s.take i)⟩)

/-! ## the block-quote token -/

/-- Python `dict` with `int` keys: `d[k] = v`. -/
def dictSet (d : List (Int × Str)) (k : Int) (v : Str) : List (Int × Str) :=
  if d.any (fun e => e.1 == k) then d.map (fun e => if e.1 == k then (k, v) else e) else d ++ [(k, v)]

/-- `d[k]` (`none` is a `KeyError`) / `k in d`. -/
def dictGet (d : List (Int × Str)) (k : Int) : Option Str := (d.find? (fun e => e.1 == k)).map (·.2)

/-- the part of a `BlockQuoteMarkdownToken` that concerns the store. -/
structure BqTok where
  /-- `__leading_spaces : str` (the property `bleading_spaces`) -/
  leading : Str
  /-- `leading_text_index` (a public attribute; the parser also writes it directly) -/
  idx : Int
  /-- `__tabbed_leading_spaces : Dict[int, str]` -/
  tabbed : List (Int × Str)
  /-- `weird_kludge_five` -/
  kludge5 : Bool
  deriving Repr, DecidableEq

/-- after `__init__`: `("", 0, {}, False)`. -/
def BqTok.new : BqTok := ⟨[], 0, [], false⟩

/-- `add_bleading_spaces(leading_spaces_to_add, skip_adding_newline, tabbed_leading_spaces)`.
`if self.__leading_spaces` is Python truthiness: the store is not the empty string. -/
def BqTok.add (t : BqTok) (ws : Str) (skipNL : Bool := false) (tab : Option Str := none) : BqTok :=
  let l' := if skipNL then t.leading ++ ws
            else if t.leading ≠ [] then t.leading ++ NL :: ws
            else ws
  let tb := match tab with
    | some v => if !skipNL && v ≠ [] then dictSet t.tabbed (countNL l') v else t.tabbed
    | none => t.tabbed
  { leading := l', idx := t.idx, tabbed := tb, kludge5 := true }

/-- `remove_last_bleading_space()` → the removed part.  The index is decremented unconditionally. -/
def BqTok.removeLast (t : BqTok) : Str × BqTok :=
  match rfindNL t.leading with
  | none => (t.leading, { t with leading := [], idx := t.idx - 1, kludge5 := false })
  | some i => (t.leading.drop (i + 1), { t with leading := t.leading.take i, idx := t.idx - 1 })

/-- `calculate_next_bleading_space_part(increment_index, delta, allow_overflow)`.
Order of the failures as in the code: the dictionary lookup (`KeyError`), the assertion, the list index
(`IndexError`, after Python's negative-index wrap).  Nothing is written before the last of them. -/
def BqTok.calcNext (t : BqTok) (inc : Bool := true) (delta : Int := 0) (allowOverflow : Bool := false) :
    Except Err (Str × BqTok) :=
  let tabbedLeading : Except Err (Option Str) :=
    if inc && !t.tabbed.isEmpty then
      match dictGet t.tabbed t.idx with
      | some v => .ok (some v)
      | none => .error .key
    else .ok none
  match tabbedLeading with
  | .error e => .error e
  | .ok tl =>
    let parts := splitNL t.leading
    let abs := t.idx + delta
    if allowOverflow && decide ((parts.length : Int) ≤ abs) then .error .assertion
    else
      match pyGet parts abs with
      | none => .error .index
      | some p =>
        let t' := if inc then { t with idx := t.idx + 1 } else t
        .ok ((match tl with | some v => v | none => p), t')

/-- `token.leading_text_index += n` (block_quote_non_fenced_helper.py, block_quote_processor.py, inline_*). -/
def BqTok.incIdx (t : BqTok) (n : Int := 1) : BqTok := { t with idx := t.idx + n }

/-- `token.leading_text_index = 0` (inline_processor.py; `TransformBlockQuote.__rehydrate_block_quote_start` on the copy). -/
def BqTok.resetIdx (t : BqTok) : BqTok := { t with idx := 0 }

/-- the parser's per-line step (`__do_block_quote_leading_spaces_adjustments_adjust_bleading`):
`add_bleading_spaces(text, special_case, tabbed)` and then `leading_text_index += 1`. -/
def BqTok.addLine (t : BqTok) (ws : Str) (tab : Option Str := none) : BqTok := (t.add ws false tab).incIdx 1

/-! ## the regenerator's look-ups (transform_containers.py) -/

/-- the store part of `TransformContainers.__adjust`:
`leading_spaces = "" if token.(b)leading_spaces is None else …; split = leading_spaces.split("\n");
assert inner_token_index < len(split); prefix = split[inner_token_index]; indices[k] = inner_token_index + 1`
→ `(prefix, new index)`. -/
def adjustPart (leading : Option Str) (idx : Nat) : Except Err (Str × Nat) :=
  let s : Str := match leading with | none => [] | some s => s
  match (splitNL s)[idx]? with
  | some p => .ok (p, idx + 1)
  | none => .error .assertion

/-- `__apply_primary_transformation_adjust_container_line` with a list token on top of the stack:
`assert prev_list_token.leading_spaces is not None`, then the prefix `split[idx]` **if `idx < len(split)`** — past the
end the line is silently left without a prefix (`none`; `did_adjust_due_to_block_quote_start = False`). -/
def primaryList (t : ListTok) (idx : Nat) : Except Err (Option Str) :=
  match t.leading with
  | none => .error .assertion
  | some s => .ok (splitNL s)[idx]?

/-- the same with a block-quote token on top: the tabbed original of the part wins if there is a (non-empty) one. -/
def primaryBq (t : BqTok) (idx : Nat) : Option Str :=
  match (splitNL t.leading)[idx]? with
  | none => none
  | some p =>
    match dictGet t.tabbed idx with
    | some tb => if tb ≠ [] then some tb else some p
    | none => some p

/-! ## whole-store producer and consumer -/

/-- record the prefixes of consecutive lines. -/
def storeAllList (ps : List Str) : ListTok := ps.foldl ListTok.add ListTok.new
def storeAllBq (ps : List Str) : BqTok := ps.foldl (fun t p => t.addLine p) BqTok.new

/-- `n` consecutive look-ups with `__adjust`, starting at index `idx`. -/
def drain (leading : Option Str) : Nat → Nat → Except Err (List Str)
  | 0, _ => .ok []
  | n + 1, idx =>
    match adjustPart leading idx with
    | .error e => .error e
    | .ok (p, idx') =>
      match drain leading n idx' with
      | .error e => .error e
      | .ok ps => .ok (p :: ps)

/-- number of parts the regenerator sees in a store: `len(s.split("\n"))`, and 0 for `None`
(`__manage_records_check`, `__apply_container_transformation_removed`). -/
def partCount (leading : Option Str) : Nat :=
  match leading with
  | none => 0
  | some s => (splitNL s).length

/-- read a list token's store back, part by part, with the regenerator's `__adjust`. -/
def consumeAllList (t : ListTok) : Except Err (List Str) := drain t.leading (partCount t.leading) 0

/-- `n` consecutive `calculate_next_bleading_space_part()` calls. -/
def drainBq : Nat → BqTok → Except Err (List Str)
  | 0, _ => .ok []
  | n + 1, t =>
    match t.calcNext with
    | .error e => .error e
    | .ok (p, t') =>
      match drainBq n t' with
      | .error e => .error e
      | .ok ps => .ok (p :: ps)

/-- read a block-quote token's store back with its own method, the way the regenerator starts
(`new_instance.leading_text_index = 0`). -/
def consumeAllBq (t : BqTok) : Except Err (List Str) := drainBq (splitNL t.leading).length t.resetIdx

/-- what the block-quote store makes of a list of parts: leading empty parts are swallowed (adding to the store
`""` overwrites it), and nothing at all reads back as one empty part. -/
def bqNormal (ps : List Str) : List Str :=
  match ps.dropWhile (fun p => p.isEmpty) with
  | [] => [[]]
  | r => r

/-! ## operations as data (for the index invariant and for the driver) -/

inductive BqOp where
  | addLine (ws : Str) (tab : Option Str)     -- add + `leading_text_index += 1`
  | add (ws : Str) (skipNL : Bool) (tab : Option Str)
  | removeLast
  | next                                      -- `calculate_next_bleading_space_part()`
  | peek (delta : Int)                        -- `calculate_next_bleading_space_part(increment_index=False, delta=…)`
  | incIdx
  | resetIdx
  | setIdx (v : Int)                          -- any other direct write `leading_text_index = v` (e.g. `+= newline_count`)
  deriving Repr, DecidableEq

/-- state after the operation (an operation that raises leaves the token unchanged). -/
def BqTok.apply (t : BqTok) : BqOp → BqTok
  | .addLine ws tab => t.addLine ws tab
  | .add ws skip tab => t.add ws skip tab
  | .removeLast => t.removeLast.2
  | .next => match t.calcNext with | .ok (_, t') => t' | .error _ => t
  | .peek d => match t.calcNext false d with | .ok (_, t') => t' | .error _ => t
  | .incIdx => t.incIdx 1
  | .resetIdx => t.resetIdx
  | .setIdx v => { t with idx := v }

/-- number of parts of the store as the code counts them: `len(bleading_spaces.split("\n"))`. -/
def BqTok.count (t : BqTok) : Nat := (splitNL t.leading).length

/-- the protocol under which the index stays inside the store. -/
def BqTok.Legal (t : BqTok) : BqOp → Prop
  | .addLine ws _ => NL ∉ ws ∧ (t.leading ≠ [] ∨ t.idx = 0)
  | .add _ _ _ => True
  | .removeLast => 1 ≤ t.idx
  | .next => t.idx < t.count
  | .peek _ => True
  | .incIdx => t.idx < t.count
  | .resetIdx => True
  | .setIdx v => 0 ≤ v ∧ v ≤ t.count

instance (t : BqTok) (op : BqOp) : Decidable (t.Legal op) := by
  cases op <;> unfold BqTok.Legal <;> infer_instance

inductive BqTok.LegalRun : BqTok → List BqOp → BqTok → Prop where
  | nil (t : BqTok) : LegalRun t [] t
  | cons {t : BqTok} {op : BqOp} {ops : List BqOp} {t' : BqTok} :
      t.Legal op → LegalRun (t.apply op) ops t' → LegalRun t (op :: ops) t'

end Verif.Model.LeadingSpaces
