/-
  RegenLeaf — faithful model of the container-free part of the Markdown regenerator (core Lean only).

  Sources
    pymarkdown/transform_markdown/transform_to_markdown.py   `transform` (main loop), `__process_next_token`,
                                                            `__correct_for_final_newline`; the three sentinel removals
                                                            (`Codec.stripSentinels`) and `__handle_pragma_processing`
                                                            (`Tabs.reinsert`) are reused
    pymarkdown/transform_markdown/markdown_transform_context.py   `MarkdownTransformContext.block_stack`
    pymarkdown/general/parser_helper.py                     `recombine_string_with_whitespace`, `repeat_string`,
                                                            `count_newlines_in_text`; `remove_all_from_text`,
                                                            `resolve_all_from_text` are `Codec.removeAllN` / `resolveAll`
    pymarkdown/tokens/*.py                                  every `register_for_markdown_transform` handler of the leaf,
                                                            inline and special token classes (see each `h…` below)
    pymarkdown/extensions/front_matter_markdown_token.py    `__rehydrate_front_matter`
    pymarkdown/tokens/markdown_token.py                     `EndMarkdownToken.__compose_data_field` (the `extra_data`
                                                            string `__rehydrate_fenced_code_block_end` splits at `:`)

  Modelling rules
  * A token is the tuple of the fields its handler READS (`Tok`).  An end token reads fields of
    `start_markdown_token`; they are carried as copies in the end token (the tie serialises them through the real
    reference).  The only *mutable* field is `ParagraphMarkdownToken.rehydrate_index`: paragraph objects have an
    identity `id` and the context keeps `store : id ↦ rehydrate_index` (an object store), so that
    `end-para` can read the index of *its* start token even when that token is not the top of the block stack.
  * `context.block_stack[-1]` on an empty stack is `Err.index`, `del context.block_stack[-1]` likewise; a failing
    `assert` is `Err.assertion`; an attribute the top-of-stack class does not have is `Err.attribute`;
    `"".rjust(n, s)` with `len(s) != 1` is `Err.type`; `int(…)` / `str.index` failing is `Err.value`; a marker-codec
    loop that never ends is `Err.hang`.  Container tokens (lists, block quotes) are outside this model:
    `Err.unsupported`, never sent by the tie.
-/
import Verif.Model.Codec
import Verif.Model.Tabs
import Verif.Model.Lines
import Verif.Model.LinkRecog
namespace Verif.Model.RegenLeaf
open Verif.Model.Codec (Str removeAll removeAllN resolveAll stripSentinels SENT_START SENT_END WSPLIT)
open Verif.Model.Lines (splitOn joinOn splitNL joinNL NL)

inductive Err where
  | index        -- `IndexError`
  | assertion    -- `AssertionError`
  | attribute    -- `AttributeError`
  | value        -- `ValueError`
  | type         -- `TypeError`
  | hang         -- a loop of the marker codec that does not terminate
  | unsupported  -- a container token: outside the model
  deriving Repr, DecidableEq

abbrev R (α : Type) := Except Err α

instance {α : Type} [DecidableEq α] : DecidableEq (R α) := fun a b =>
  match a, b with
  | .ok x, .ok y => if h : x = y then isTrue (by rw [h]) else isFalse (by intro e; cases e; exact h rfl)
  | .error x, .error y => if h : x = y then isTrue (by rw [h]) else isFalse (by intro e; cases e; exact h rfl)
  | .ok _, .error _ => isFalse (by intro e; cases e)
  | .error _, .ok _ => isFalse (by intro e; cases e)

/-- the marker codec's results in this model's error type -/
def liftC : Codec.Res → R Str
  | .ok s => .ok s
  | .error .valueError => .error .value
  | .error .assertion => .error .assertion
  | .error .hang => .error .hang

/-! ## `ParserHelper` pieces -/

/-- `ParserHelper.repeat_string(s, n)` = `"".rjust(n, s)`: `TypeError` unless `s` is one character; `n ≤ 0` gives `""`. -/
def repeatString (s : Str) (n : Int) : R Str :=
  match s with
  | [c] => .ok (List.replicate n.toNat c)
  | _ => .error .type

/-- `count_newlines_in_text`. -/
def countNl (s : Str) : Nat := s.count NL

/-- Python truthiness of an `Optional[str]`. -/
def truthy : Option Str → Bool
  | some (_ :: _) => true
  | _ => false

/-- `a or b` on `Optional[str]`. -/
def pyOr (a b : Option Str) : Option Str := if truthy a then a else b

/-- The `for i in range(start_text_index, len(split_text_string))` loop of `recombine_string_with_whitespace` over the
text parts it visits.  Pre-increment mode reads `split_whitespace_string[start_index + 1]`, post-increment mode
`[start_index]`; both leave `start_index + 1`. -/
def recombineGo (sw : List Str) (post after : Bool) : List Str → Nat → R (List Str × Nat)
  | [], idx => .ok ([], idx)
  | p :: ps, idx =>
    match sw[if post then idx else idx + 1]? with
    | none => .error .index
    | some ew =>
      match recombineGo sw post after ps (idx + 1) with
      | .error e => .error e
      | .ok (rest, j) => .ok ((if after then p ++ ew else ew ++ p) :: rest, j)

/-- `recombine_string_with_whitespace(text, ws, start_index, post_increment_index=post, start_text_index=k,
add_whitespace_after=after)` → `(text', start_index')`  (`add_replace_marker_if_empty` is never passed by the regenerator). -/
def recombine (text ws : Str) (startIndex : Nat) (post : Bool) (k : Nat) (after : Bool) : R (Str × Nat) :=
  match recombineGo (splitNL ws) post after ((splitNL text).drop k) startIndex with
  | .error e => .error e
  | .ok (rest, j) => .ok (joinNL ((splitNL text).take k ++ rest), j)

/-- Python `int(s)` (base 10) for a `str`: Unicode white space stripped, optional sign, decimal digits of any script,
single underscores between digits. -/
def digitVal (c : Char) : Option Nat :=
  match LinkRecog.ndStarts.find? (fun st => st ≤ c.toNat && c.toNat < st + 10) with
  | some st => some (c.toNat - st)
  | none => none

/-- digits with single inner underscores; `prevDigit` = the previous character was a digit -/
def intDigits : Str → Nat → Bool → Option Nat
  | [], acc, prevDigit => if prevDigit then some acc else none
  | c :: cs, acc, prevDigit =>
    if c == '_' then (if prevDigit && !cs.isEmpty then intDigits cs acc false else none)
    else match digitVal c with
      | some d => intDigits cs (acc * 10 + d) true
      | none => none

def stripIntWs (s : Str) : Str :=
  ((s.dropWhile LinkRecog.pyIntSpace).reverse.dropWhile LinkRecog.pyIntSpace).reverse

def pyInt (s : Str) : R Int :=
  match stripIntWs s with
  | '-' :: ds => match intDigits ds 0 false with | some n => .ok (- Int.ofNat n) | none => .error .value
  | '+' :: ds => match intDigits ds 0 false with | some n => .ok (Int.ofNat n) | none => .error .value
  | ds => match intDigits ds 0 false with | some n => .ok (Int.ofNat n) | none => .error .value

/-! ## Tokens -/

/-- `ReferenceMarkdownToken` fields read by `rehydrate_inline_link_text_from_token`. -/
structure LinkF where
  labelType : Str
  textFromBlocks : Str
  exLabel : Option Str
  preUri : Option Str
  uri : Option Str
  preTitle : Option Str
  title : Option Str
  angle : Bool
  bounding : Option Str
  beforeLinkWs : Option Str
  beforeTitleWs : Option Str
  afterTitleWs : Option Str
  deriving Repr, DecidableEq

/-- `LinkReferenceDefinitionMarkdownToken` fields read by `__rehydrate_link_reference_definition`. -/
structure LrdF where
  ew : Str
  nameDebug : Str
  name : Str
  destWs : Option Str
  destRaw : Option Str
  dest : Option Str
  titleWs : Option Str
  titleRaw : Option Str
  title : Option Str
  endWs : Option Str
  deriving Repr, DecidableEq

inductive Tok where
  /-- `id` = identity of the paragraph object; `extracted_whitespace`, `final_whitespace` -/
  | para (id : Nat) (ew fin : Str)
  /-- `extracted_whitespace`, `hash_count`, `remove_trailing_count` -/
  | atx (ew : Str) (hashes trailing : Int)
  /-- `extracted_whitespace`, `heading_character`, `heading_character_count`, `final_whitespace` -/
  | setext (ew hc : Str) (hcount : Int) (fin : Str)
  /-- `extracted_whitespace`, `rest_of_line` -/
  | tbreak (ew rest : Str)
  /-- `extracted_whitespace`, `fence_character`, `fence_count`, `extracted_whitespace_before_info_string`,
  `pre_extracted_text`, `extracted_text`, `pre_text_after_extracted_text`, `text_after_extracted_text` -/
  | fcode (ew fchar : Str) (fcount : Int) (wsInfo preInfo info preAfter after : Str)
  /-- `extracted_whitespace`, `indented_whitespace` -/
  | icode (ew ind : Str)
  | html
  | blank (ew : Str)
  | lrd (f : LrdF)
  /-- `token_text`, `extracted_whitespace`, `end_whitespace` -/
  | text (tt ew : Str) (endWs : Option Str)
  /-- `emphasis_character`, `emphasis_length` -/
  | emph (ch : Str) (len : Int)
  /-- `extracted_start_backticks`, `leading_whitespace`, `span_text`, `trailing_whitespace` -/
  | codespan (ticks lead span trail : Str)
  | rawhtml (tag : Str)
  /-- `autolink_text`, `add_http_prefix`, `add_angle_brackets` -/
  | uri (txt : Str) (http angle : Bool)
  | email (txt : Str) (angle : Bool)
  /-- `line_end` -/
  | hardbreak (lineEnd : Str)
  | link (f : LinkF)
  | image (f : LinkF)
  | eos
  /-- `start_boundary_line`, `collected_lines`, `end_boundary_line` -/
  | frontmatter (startL : Str) (lines : List Str) (endL : Str)
  /-- `pragma_lines` as a list of items (any order) -/
  | pragma (lines : List (Nat × Str))
  /-- a list / block-quote / new-list-item start token -/
  | container
  /-- a token whose name has no handler and that is no end token -/
  | other
  /-- `sid` = identity of `start_markdown_token`, its `extracted_whitespace`, and its `rehydrate_index` before the run -/
  | endPara (sid : Nat) (sew : Str) (ri0 : Nat)
  /-- `extracted_whitespace`, `extra_end_data`, and `start_markdown_token.remove_trailing_count` -/
  | endAtx (ew : Str) (extra : Option Str) (trailing : Int)
  | endSetext (ew : Str) (extra : Option Str)
  /-- `extracted_whitespace`, `extra_data` (the composed string, see `endExtraData`), `was_forced`,
  `start_markdown_token.fence_character` -/
  | endFcode (ew : Str) (extraData : Option Str) (forced : Bool) (fchar : Str)
  | endHtml
  | endIcode
  /-- `start_markdown_token.emphasis_character`, `.emphasis_length` -/
  | endEmph (ch : Str) (len : Int)
  | endLink
  /-- the end token of a container -/
  | endContainer
  /-- an end token whose `type_name` has no end handler -/
  | endOther
  deriving Repr, DecidableEq

def Tok.isBlank : Tok → Bool
  | .blank _ => true
  | _ => false

def Tok.isFcode : Tok → Bool
  | .fcode .. => true
  | _ => false

/-! ## `MarkdownTransformContext` -/

/-- what the handlers read from an entry of `context.block_stack` -/
inductive Blk where
  | para (id : Nat) (ew fin : Str)
  | atx
  | setext (hc : Str) (hcount : Int) (fin : Str)
  | fcode
  | icode (ew ind : Str)
  | html
  | link
  deriving Repr, DecidableEq

def Blk.isLink : Blk → Bool
  | .link => true
  | _ => false

structure Ctx where
  /-- `block_stack`, top first -/
  stack : List Blk := []
  /-- paragraph identity ↦ `rehydrate_index` (most recent binding first) -/
  store : List (Nat × Nat) := []
  deriving Repr, DecidableEq

def Ctx.top (c : Ctx) : R Blk :=
  match c.stack with
  | [] => .error .index
  | b :: _ => .ok b

def Ctx.pop (c : Ctx) : R Ctx :=
  match c.stack with
  | [] => .error .index
  | _ :: s => .ok { c with stack := s }

def Ctx.push (c : Ctx) (b : Blk) : Ctx := { c with stack := b :: c.stack }

/-- the current `rehydrate_index` of paragraph object `id`; `dflt` = the attribute's value before the run, for an object
no start handler has touched -/
def Ctx.getRi (c : Ctx) (id : Nat) (dflt : Nat := 0) : Nat := (c.store.lookup id).getD dflt

def Ctx.setRi (c : Ctx) (id : Nat) (v : Nat) : Ctx := { c with store := (id, v) :: c.store }

/-! ## Text -/

/-- `__reconstitute_paragraph_text`. -/
def paraText (c : Ctx) (id : Nat) (pew main : Str) (endWs : Option Str) : R (Str × Ctx) :=
  if main.contains NL then
    match recombine main pew (c.getRi id) false 1 false with
    | .error e => .error e
    | .ok (m1, ri) =>
      match endWs with
      | some (e :: es) =>
        match recombine m1 (e :: es) 0 true 0 true with
        | .error e => .error e
        | .ok (m2, _) => .ok (m2, c.setRi id ri)
      | _ => .error .assertion          -- "if there is a newline, there must be end_whitespace."
  else .ok (main, c)

/-- `__reconstitute_setext_text_item`. -/
def setextItem (idx : Nat) (val : Str) (spw : List Str) : R Str :=
  match spw[idx]? with
  | none => .error .index
  | some [] => .ok val
  | some (w :: ws) =>
    match splitOn WSPLIT (w :: ws) with
    | [a] => if idx = 0 then .ok (val ++ a) else .error .assertion
    | [a, b] => .ok (a ++ val ++ b)
    | _ => .error .assertion

def setextItems (spw : List Str) : Nat → List Str → R (List Str)
  | _, [] => .ok []
  | idx, v :: vs =>
    match setextItem idx v spw with
    | .error e => .error e
    | .ok r =>
      match setextItems spw (idx + 1) vs with
      | .error e => .error e
      | .ok rs => .ok (r :: rs)

/-- `__reconstitute_setext_text`. -/
def setextText (main : Str) (endWs : Option Str) : R Str :=
  if main.contains NL then
    match endWs with
    | none => .error .assertion
    | some e =>
      match setextItems (splitNL e) 0 (splitNL main) with
      | .error er => .error er
      | .ok rs => .ok (joinNL rs)
  else
    match endWs with
    | some (e :: es) => if (e :: es).getLast? = some WSPLIT then .ok ((e :: es).dropLast ++ main) else .ok main
    | _ => .ok main

/-- `__rehydrate_text`. -/
def hText (c : Ctx) (tt ew : Str) (endWs : Option Str) : R (Str × Ctx) :=
  match c.top with
  | .error e => .error e
  | .ok t =>
    if t.isLink then .ok ([], c) else
    match liftC (removeAllN true tt) with
    | .error e => .error e
    | .ok main =>
      match liftC (removeAll ew) with
      | .error e => .error e
      | .ok lead =>
        match t with
        | .icode cew ind =>
          match recombine main (cew ++ lead ++ ind) 0 true 0 false with
          | .error e => .error e
          | .ok (r, _) => .ok (r ++ [NL], c)
        | .html => .ok (lead ++ main ++ [NL], c)
        | .para id pew _ =>
          match paraText c id pew main endWs with
          | .error e => .error e
          | .ok (m, c') => .ok (lead ++ m, c')
        | .setext .. =>
          match setextText main endWs with
          | .error e => .error e
          | .ok m => .ok (lead ++ m, c)
        | _ => .ok (lead ++ main, c)

/-! ## Inline elements -/

/-- `__rehydrate_hard_break`. -/
def hHardBreak (c : Ctx) (lineEnd : Str) : R (Str × Ctx) :=
  match c.top with
  | .error e => .error e
  | .ok (.para id pew _) =>
    match recombine (lineEnd ++ [NL]) pew (c.getRi id) false 1 false with
    | .error e => .error e
    | .ok (r, ri) => .ok (r, c.setRi id ri)
  | .ok .link => .ok ([], c)
  | .ok _ => .ok (lineEnd ++ [NL], c)

/-- `__rehydrate_inline_code_span`. -/
def hCodeSpan (c : Ctx) (ticks lead span trail : Str) : R (Str × Ctx) :=
  match c.top with
  | .error e => .error e
  | .ok t =>
    if t.isLink then .ok ([], c) else
    match liftC (removeAllN true span) with
    | .error e => .error e
    | .ok span' =>
      match liftC (removeAll lead) with
      | .error e => .error e
      | .ok lead' =>
        match liftC (removeAll trail) with
        | .error e => .error e
        | .ok trail' =>
          match t with
          | .para id pew _ =>
            match recombine lead' pew (c.getRi id) false 1 false with
            | .error e => .error e
            | .ok (l2, r1) =>
              match recombine span' pew r1 false 1 false with
              | .error e => .error e
              | .ok (s2, r2) =>
                match recombine trail' pew r2 false 1 false with
                | .error e => .error e
                | .ok (t2, r3) => .ok (ticks ++ l2 ++ s2 ++ t2 ++ ticks, c.setRi id r3)
          | _ => .ok (ticks ++ lead' ++ span' ++ trail' ++ ticks, c)

/-- `__rehydrate_inline_raw_html`. -/
def hRawHtml (c : Ctx) (tag : Str) : R (Str × Ctx) :=
  match c.top with
  | .error e => .error e
  | .ok t =>
    if t.isLink then .ok ([], c) else
    match liftC (removeAll tag) with
    | .error e => .error e
    | .ok raw =>
      match t with
      | .para id _ _ => .ok ('<' :: raw ++ ['>'], c.setRi id (c.getRi id + countNl raw))
      | _ => .ok ('<' :: raw ++ ['>'], c)

def angled (angle : Bool) (txt : Str) : Str := if angle then '<' :: txt ++ ['>'] else txt

/-- `__rehydrate_inline_uri_autolink`: with `add_http_prefix` the block stack is not looked at. -/
def hUri (c : Ctx) (txt : Str) (http angle : Bool) : R (Str × Ctx) :=
  if http then .ok (txt, c) else
  match c.top with
  | .error e => .error e
  | .ok t => .ok (if t.isLink then [] else angled angle txt, c)

/-- `__rehydrate_inline_email_autolink`. -/
def hEmail (c : Ctx) (txt : Str) (angle : Bool) : R (Str × Ctx) :=
  match c.top with
  | .error e => .error e
  | .ok t => .ok (if t.isLink then [] else angled angle txt, c)

/-- `__rehydrate_inline_emphaisis` and `__rehydrate_inline_emphaisis_end`. -/
def hEmph (c : Ctx) (ch : Str) (len : Int) : R (Str × Ctx) :=
  match c.top with
  | .error e => .error e
  | .ok t =>
    if t.isLink then .ok ([], c) else
    match repeatString ch len with
    | .error e => .error e
    | .ok s => .ok (s, c)

/-! ## Links and images -/

/-- `__rehydrate_inline_link_text_from_token_type_inline` (the `[` … `)` text). -/
def linkTextInline (f : LinkF) : R Str :=
  match f.beforeTitleWs, f.beforeLinkWs with
  | some btw, some blw =>
    match liftC (removeAll f.textFromBlocks) with
    | .error e => .error e
    | .ok label =>
      match pyOr f.preUri f.uri with
      | none => .error .assertion                          -- "Active link must be defined."
      | some u =>
        let head := '[' :: label ++ "](".toList ++ blw ++ angled f.angle u ++ btw
        match pyOr f.preTitle f.title with
        | some (t :: ts) =>
          match f.afterTitleWs with
          | none => .error .assertion
          | some atw =>
            let (o, cl) : Char × Char :=
              if f.bounding = some ['\''] then ('\'', '\'') else if f.bounding = some ['('] then ('(', ')') else ('"', '"')
            .ok (head ++ o :: (t :: ts) ++ cl :: atw ++ [')'])
        | _ => .ok (head ++ [')'])
  | _, _ => .error .assertion

/-- `rehydrate_inline_link_text_from_token`. -/
def linkText (f : LinkF) : R Str :=
  if f.labelType = "shortcut".toList then
    match liftC (removeAll f.textFromBlocks) with
    | .error e => .error e
    | .ok l => .ok ('[' :: l ++ [']'])
  else if f.labelType = "full".toList then
    match f.exLabel with
    | none => .error .assertion
    | some x => .ok ('[' :: f.textFromBlocks ++ "][".toList ++ x ++ [']'])
  else if f.labelType = "collapsed".toList then .ok ('[' :: f.textFromBlocks ++ "][]".toList)
  else if f.labelType = "inline".toList then linkTextInline f
  else .error .assertion

/-- the paragraph nearest to the top of the block stack -/
def owningPara : List Blk → Option (Nat × Str)
  | [] => none
  | .para id ew _ :: _ => some (id, ew)
  | _ :: rest => owningPara rest

/-- `insert_leading_whitespace_at_newlines`. -/
def insertLeadingWs (c : Ctx) (text : Str) : R (Str × Ctx) :=
  if text.contains NL then
    match liftC (removeAll text) with
    | .error e => .error e
    | .ok t =>
      match owningPara c.stack with
      | some (id, pew) =>
        match recombine t pew (c.getRi id) false 1 false with
        | .error e => .error e
        | .ok (r, ri) => .ok (r, c.setRi id ri)
      | none => .ok (t, c)
  else .ok (text, c)

/-- `__rehydrate_inline_link`: the token is pushed first. -/
def hLink (c : Ctx) (f : LinkF) : R (Str × Ctx) :=
  match linkText f with
  | .error e => .error e
  | .ok t => insertLeadingWs (c.push .link) t

/-- `__rehydrate_inline_image`. -/
def hImage (c : Ctx) (f : LinkF) : R (Str × Ctx) :=
  match c.top with
  | .error e => .error e
  | .ok t =>
    if t.isLink then .ok ([], c) else
    match linkText f with
    | .error e => .error e
    | .ok s => insertLeadingWs c ('!' :: s)

/-! ## Leaf blocks -/

/-- `__rehydrate_paragraph`: push, `rehydrate_index = 0`, the first line's leading white space behind the range sentinel. -/
def hPara (c : Ctx) (id : Nat) (ew fin : Str) : R (Str × Ctx) :=
  match liftC (resolveAll (ew.takeWhile (· != NL))) with
  | .error e => .error e
  | .ok w => .ok (SENT_START :: w, (c.push (.para id ew fin)).setRi id 0)

/-- `final_whitespace` of the popped block-stack entry (`AttributeError` for a class without it). -/
def Blk.finalWs : Blk → R Str
  | .para _ _ fin => .ok fin
  | .setext _ _ fin => .ok fin
  | _ => .error .attribute

/-- `__rehydrate_paragraph_end`. -/
def hEndPara (c : Ctx) (sid : Nat) (sew : Str) (ri0 : Nat) : R (Str × Ctx) :=
  match c.stack with
  | [] => .error .index
  | t :: rest =>
    if c.getRi sid ri0 = countNl sew then
      match t.finalWs with
      | .error e => .error e
      | .ok fin => .ok (fin ++ [SENT_END, NL], { c with stack := rest })
    else .error .assertion               -- "Rehydrate index must match up at end of paragraph."

/-- `__rehydrate_atx_heading`. -/
def hAtx (c : Ctx) (ew : Str) (hashes : Int) : R (Str × Ctx) :=
  match repeatString ['#'] hashes with
  | .error e => .error e
  | .ok h => .ok (ew ++ h, c.push .atx)

/-- `__rehydrate_atx_heading_end`. -/
def hEndAtx (c : Ctx) (ew : Str) (extra : Option Str) (trailing : Int) : R (Str × Ctx) :=
  match c.pop with
  | .error e => .error e
  | .ok c' =>
    match extra with
    | none => .error .assertion
    | some x =>
      match (if trailing ≠ 0 then repeatString ['#'] trailing else .ok []) with
      | .error e => .error e
      | .ok h => .ok (x ++ h ++ ew ++ [NL], c')

/-- `__rehydrate_setext_heading_end`: everything is read from the top of the block stack. -/
def hEndSetext (c : Ctx) (ew : Str) (extra : Option Str) : R (Str × Ctx) :=
  match c.stack with
  | [] => .error .index
  | .setext hc hcount fin :: rest =>
    match extra with
    | none => .error .assertion
    | some x =>
      match repeatString hc hcount with
      | .error e => .error e
      | .ok u => .ok (fin ++ NL :: ew ++ u ++ x ++ [NL], { c with stack := rest })
  | _ :: _ => .error .attribute

/-- `__rehydrate_fenced_code_block`. -/
def hFcode (c : Ctx) (ew fchar : Str) (fcount : Int) (wsInfo preInfo info preAfter after : Str) : R (Str × Ctx) :=
  match repeatString fchar fcount with
  | .error e => .error e
  | .ok f =>
    .ok (ew ++ f ++ wsInfo ++ (if preInfo ≠ [] then preInfo else info) ++ (if preAfter ≠ [] then preAfter else after) ++ [NL],
         c.push .fcode)

/-- `EndMarkdownToken.__compose_data_field`: the `extra_data` of an end token with `extracted_whitespace = ew`,
`extra_end_data = extra`, `was_forced = forced`, `start_markdown_token.can_force_close = canForce`. -/
def endExtraData (ew : Str) (extra : Option Str) (forced canForce : Bool) : Str :=
  let parts : List Str := match extra with
    | some x => [ew, x]
    | none => [[], []]
  let parts := if canForce then parts ++ [(if forced then "True" else "False").toList] else parts
  joinOn ':' parts

/-- `__rehydrate_fenced_code_block_end`. -/
def hEndFcode (c : Ctx) (prev : Option Tok) (hasNext : Bool) (ew : Str) (extraData : Option Str) (forced : Bool)
    (fchar : Str) : R (Str × Ctx) :=
  match c.pop with
  | .error e => .error e
  | .ok c' =>
    if !forced then
      match extraData.map (splitOn ':') with
      | none => .error .assertion               -- "extra_data must be defined by this point"
      | some (_ :: sp :: cnt :: _) =>
        match pyInt cnt with
        | .error e => .error e
        | .ok n =>
          match repeatString fchar n with
          | .error e => .error e
          | .ok f =>
            let first : Str := match prev with
              | some p => if p.isBlank || p.isFcode then [] else [NL]
              | none => [NL]
            .ok (first ++ ew ++ f ++ sp ++ [NL], c')
      | some _ => .error .assertion              -- "Extra data must split into at least 3 parts."
    else
      match prev with
      | none => .error .assertion
      | some p => .ok (if hasNext && !p.isFcode then [NL] else [], c')

/-- `__rehydrate_link_reference_definition`. -/
def hLrd (f : LrdF) : R Str :=
  match f.destWs, pyOr f.destRaw f.dest, f.titleWs, pyOr f.titleRaw f.title, f.endWs with
  | some dw, some d, some tw, some t, some e =>
    .ok (f.ew ++ '[' :: (if f.nameDebug ≠ [] then f.nameDebug else f.name) ++ "]:".toList ++ dw ++ d ++ tw ++ t ++ e ++ [NL])
  | _, _, _, _, _ => .error .assertion

/-- `__rehydrate_front_matter`. -/
def hFrontMatter (startL : Str) (lines : List Str) (endL : Str) : Str :=
  joinNL (startL :: lines ++ [endL, []])

/-! ## `__process_next_token` -/

/-- One token: its text and the new context.  `prev` = `previous_token`, `hasNext` = `next_token is not None`. -/
def process (c : Ctx) (prev : Option Tok) (hasNext : Bool) : Tok → R (Str × Ctx)
  | .para id ew fin => hPara c id ew fin
  | .atx ew hashes _ => hAtx c ew hashes
  | .setext ew hc hcount fin => .ok (ew, c.push (.setext hc hcount fin))
  | .tbreak ew rest => .ok (ew ++ rest ++ [NL], c)
  | .fcode ew fchar fcount wsInfo preInfo info preAfter after => hFcode c ew fchar fcount wsInfo preInfo info preAfter after
  | .icode ew ind => .ok ([], c.push (.icode ew ind))
  | .html => .ok ([], c.push .html)
  | .blank ew => .ok (ew ++ [NL], c)
  | .lrd f => match hLrd f with | .error e => .error e | .ok s => .ok (s, c)
  | .text tt ew endWs => hText c tt ew endWs
  | .emph ch len => hEmph c ch len
  | .codespan ticks lead span trail => hCodeSpan c ticks lead span trail
  | .rawhtml tag => hRawHtml c tag
  | .uri txt http angle => hUri c txt http angle
  | .email txt angle => hEmail c txt angle
  | .hardbreak lineEnd => hHardBreak c lineEnd
  | .link f => hLink c f
  | .image f => hImage c f
  | .eos => .ok ([], c)
  | .frontmatter s ls e => .ok (hFrontMatter s ls e, c)
  | .pragma _ => .ok ([], c)
  | .container => .error .unsupported
  | .other => .error .assertion
  | .endPara sid sew ri0 => hEndPara c sid sew ri0
  | .endAtx ew extra trailing => hEndAtx c ew extra trailing
  | .endSetext ew extra => hEndSetext c ew extra
  | .endFcode ew extraData forced fchar => hEndFcode c prev hasNext ew extraData forced fchar
  | .endHtml => match c.pop with | .error e => .error e | .ok c' => .ok ([], c')
  | .endIcode => match c.pop with | .error e => .error e | .ok c' => .ok ([], c')
  | .endEmph ch len => hEmph c ch len
  | .endLink => match c.pop with | .error e => .error e | .ok c' => .ok ([], c')
  | .endContainer => .error .unsupported
  | .endOther => .error .assertion

/-! ## `transform` -/

/-- the `for token_index, current_token in enumerate(actual_tokens)` loop: the per-token texts in stream order -/
def runFrom (c : Ctx) (prev : Option Tok) : List Tok → R (List Str × Ctx)
  | [] => .ok ([], c)
  | t :: ts =>
    match process c prev (!ts.isEmpty) t with
    | .error e => .error e
    | .ok (s, c') =>
      match runFrom c' (some t) ts with
      | .error e => .error e
      | .ok (ss, c'') => .ok (s :: ss, c'')

/-- `was_forced_fenced_end` of `__correct_for_final_newline`. -/
def forcedFenceEnd : Tok → Bool
  | .endFcode _ _ forced _ => forced
  | _ => false

/-- `__correct_for_final_newline`: `actual_tokens[-1]` of an empty list and `actual_tokens[-2]` of a one-element list are
`IndexError`s; otherwise `Tabs.finalNewlineRule`. -/
def finalNewline (data : Str) (ts : List Tok) : R Str :=
  match ts.getLast? with
  | none => .error .index
  | some last =>
    if data ≠ [] ∧ data.getLast? = some NL ∧ forcedFenceEnd last = true then
      match ts.dropLast.getLast? with
      | none => .error .index
      | some t2 => .ok (Tabs.finalNewlineRule data (!t2.isFcode))
    else .ok (Tabs.finalNewlineRule data false)

/-- `sorted(pragma_token.pragma_lines.items())` (keys are distinct). -/
def insertSorted (x : Nat × Str) : List (Nat × Str) → List (Nat × Str)
  | [] => [x]
  | y :: ys => if x.1 ≤ y.1 then x :: y :: ys else y :: insertSorted x ys

def sortPragmas : List (Nat × Str) → List (Nat × Str)
  | [] => []
  | x :: xs => insertSorted x (sortPragmas xs)

/-- the pragma token `__process_next_token` returned for the LAST token of the stream (the loop variable is overwritten
on every iteration) -/
def lastPragma (ts : List Tok) : Option (List (Nat × Str)) :=
  match ts.getLast? with
  | some (.pragma ls) => some ls
  | _ => none

/-- what `transform` does to the concatenated token texts -/
def finish (data : Str) (ts : List Tok) (c : Ctx) : R Str :=
  match finalNewline data ts with
  | .error e => .error e
  | .ok d =>
    let d := stripSentinels d
    let d := match lastPragma ts with
      | some ls => Tabs.reinsert d (sortPragmas ls)
      | none => d
    if c.stack.isEmpty then .ok d else .error .assertion      -- "Nothing must be left at the end."

/-- `TransformToMarkdown().transform(actual_tokens)` for a container-free stream. -/
def transform (ts : List Tok) : R Str :=
  match runFrom {} none ts with
  | .error e => .error e
  | .ok (parts, c) => finish parts.flatten ts c

end Verif.Model.RegenLeaf
