/-
  Per-leaf field splits (core Lean only): which pieces of a leaf block's opening line the block pass stores in the
  token(s), and how the Markdown regenerator writes them back.

  For each leaf recogniser of `Verif.Model.Recognisers` the function `fieldsX line` continues the recogniser exactly
  where the leaf processor continues it (same indices, same helper functions) and returns the strings and counts that
  end up in the token constructor; `X.reassemble` is the concatenation the token's `__rehydrate_…` handler performs.

  Sources (all on a top-level line, `position_marker.index_indent = 0`; a line with tabs is detabified before the
  recognisers run and its fields are recovered from `original_line` by the `TabHelper` search functions — on every
  line the tie has tried they come out as the split of the original line computed here):
    leaf_blocks/atx_leaf_block_processor.py       __parse_atx_heading_found, __prepare_for_create_atx_heading_adjust,
                                                  __parse_atx_heading_add_tokens
    tokens/atx_heading_markdown_token.py          __rehydrate_atx_heading, __rehydrate_atx_heading_end
    leaf_blocks/thematic_leaf_block_processor.py  parse_thematic_break;  tokens/thematic_break_markdown_token.py
    leaf_blocks/fenced_leaf_block_processor.py    __add_fenced_tokens_with_tab (tab-free branch), __add_fenced_tokens_prepare,
                                                  __add_fenced_tokens_create, __check_for_fenced_end
    tokens/fenced_code_block_markdown_token.py    __rehydrate_fenced_code_block, __rehydrate_fenced_code_block_end
    leaf_blocks/setext_leaf_block_processor.py    __prepare_and_create_setext_token, __create_setext_token
    tokens/setext_heading_markdown_token.py       __rehydrate_setext_heading_end (the underline part)
    general/tokenized_markdown.py                 __handle_blank_line_init / __handle_blank_line
    tokens/blank_line_markdown_token.py           __rehydrate_blank_line
    general/parser_helper.py                      extract_until_spaces, is_character_at_index_not_whitespace
-/
import Verif.Model.Recognisers
namespace Verif.Model.LeafFields
open Verif.Model.Recognisers

/-- `ParserHelper.repeat_string(c, n)`. -/
def rep (n : Nat) (c : Char) : Str := List.replicate n c

/-! ## `extract_until_spaces` -/

/-- `is_character_at_index_not_whitespace`: `0 <= i < len(s) and s[i] not in " \t"`. -/
def isNotWsAt (s : Str) (i : Nat) : Bool :=
  match s[i]? with
  | some d => !(isWsChar d)
  | none => false

theorem isNotWsAt_lt {s : Str} {i : Nat} (h : isNotWsAt s i = true) : i < s.length := by
  unfold isNotWsAt at h
  split at h
  · next d hd => exact (List.getElem?_eq_some_iff.mp hd).1
  · cases h

/-- `while is_character_at_index_not_whitespace(s, index): index += 1` -/
def scanNotWs (s : Str) (i : Nat) : Nat :=
  if h : isNotWsAt s i = true then scanNotWs s (i + 1) else i
termination_by s.length - i
decreasing_by have := isNotWsAt_lt h; omega

/-- `extract_until_spaces(s, start)` → `(index, s[start:index])` or `(None, None)`. -/
def extractUntilSpaces (s : Str) (start : Nat) : Option (Nat × Str) :=
  if start ≤ s.length then
    let j := scanNotWs s start
    some (j, slice s start j)
  else none

/-! ## ATX heading -/

structure AtxFields where
  /-- `AtxHeadingMarkdownToken.extracted_whitespace` -/
  lead : Str
  /-- `hash_count` -/
  hashes : Nat
  /-- `TextMarkdownToken.extracted_whitespace` (white space after the opening sequence) -/
  wsAfter : Str
  /-- `TextMarkdownToken.token_text` as the block pass creates it -/
  text : Str
  /-- `EndMarkdownToken.extra_end_data` (white space before the closing sequence) -/
  wsBeforeEnd : Str
  /-- `remove_trailing_count` (length of the closing sequence) -/
  closing : Nat
  /-- `EndMarkdownToken.extracted_whitespace` (white space after the closing sequence) -/
  wsAtEnd : Str
  deriving Repr, DecidableEq

/-- `parse_atx_headings` on a top-level line: `is_atx_heading`, then `remaining_line = text_to_parse[non_whitespace_index:]`
through `__prepare_for_create_atx_heading_adjust`. -/
def fieldsAtx (line : Str) : Except Err (Option AtxFields) :=
  match isAtxHeading line (leadWs line).1 (leadWs line).2 with
  | .error e => .error e
  | .ok none => .ok none
  | .ok (some (nonWs, hashCount, wsAtStart)) =>
    match atxAdjust (line.drop nonWs) with
    | .error e => .error e
    | .ok a => .ok (some ⟨(leadWs line).2, hashCount, wsAtStart, a.remaining, a.wsBeforeEnd, a.removeTrailing, a.wsAtEnd⟩)

/-- `__rehydrate_atx_heading` + `__rehydrate_text` (ATX branch: `leading_whitespace + main_text`) +
`__rehydrate_atx_heading_end`, without the final newline. -/
def AtxFields.reassemble (f : AtxFields) : Str :=
  f.lead ++ rep f.hashes '#' ++ f.wsAfter ++ f.text ++ f.wsBeforeEnd ++ rep f.closing '#' ++ f.wsAtEnd

/-! ## thematic break -/

structure ThematicFields where
  /-- `extracted_whitespace` -/
  lead : Str
  /-- `start_character` -/
  char : Char
  /-- `rest_of_line` = `text_to_parse[index_number:end_of_break_index]` -/
  rest : Str
  deriving Repr, DecidableEq

def fieldsThematic (line : Str) : Except Err (Option ThematicFields) :=
  match isThematicBreak line (leadWs line).1 (leadWs line).2 with
  | .error e => .error e
  | .ok none => .ok none
  | .ok (some (c, index)) => .ok (some ⟨(leadWs line).2, c, slice line (leadWs line).1 index⟩)

/-- `__rehydrate_thematic_break`, without the final newline. -/
def ThematicFields.reassemble (f : ThematicFields) : Str := f.lead ++ f.rest

/-! ## fenced code block, opening line -/

structure FenceOpenFields where
  /-- `extracted_whitespace` -/
  lead : Str
  /-- `fence_character` -/
  char : Char
  /-- `fence_count` -/
  count : Nat
  /-- `extracted_whitespace_before_info_string` -/
  wsBeforeInfo : Str
  /-- `pre_extracted_text or extracted_text` (the info string before backslash / entity handling) -/
  info : Str
  /-- `pre_text_after_extracted_text or text_after_extracted_text` -/
  afterInfo : Str
  deriving Repr, DecidableEq

/-- `__process_fenced_start` → `__add_fenced_tokens_with_tab` (the branch without a tab) → `__add_fenced_tokens_prepare` on a
top-level line. -/
def fieldsFenceOpen (line : Str) : Except Err (Option FenceOpenFields) :=
  let start := (leadWs line).1
  match isFencedCodeBlock line start (leadWs line).2 with
  | .error e => .error e
  | .ok none => .ok none
  | .ok (some (nonWs, newIndex, count)) =>
    match charAt line start with
    | .error e => .error e
    | .ok c =>
      if c == '~' || !(line.drop nonWs).contains '`' then
        -- __add_fenced_tokens_with_tab, else branch
        match extractAsciiWs line newIndex with
        | none => .error .assertion
        | some (_, wsBefore) =>
          -- __add_fenced_tokens_prepare
          match collectBackwardsOneOf line (-1) asciiWs with
          | .error e => .error e
          | .ok none => .error .assertion            -- `line[:None]` would be the whole line; proved unreachable
          | .ok (some (_, properEnd)) =>
            let adjusted := line.take properEnd
            let nonWs' := min nonWs adjusted.length
            match extractUntilSpaces adjusted nonWs' with
            | none => .error .assertion
            | some (afterIndex, info) =>
              .ok (some ⟨(leadWs line).2, c, count, wsBefore, info, line.drop afterIndex⟩)
      else .ok none

/-- `__rehydrate_fenced_code_block`, without the final newline. -/
def FenceOpenFields.reassemble (f : FenceOpenFields) : Str :=
  f.lead ++ rep f.count f.char ++ f.wsBeforeInfo ++ f.info ++ f.afterInfo

/-! ## fenced code block, closing line -/

structure FenceCloseFields where
  /-- `EndMarkdownToken.extracted_whitespace` -/
  lead : Str
  /-- the count in `extra_end_data = f"{extracted_spaces}:{collected_count}"` -/
  count : Nat
  /-- the spaces in `extra_end_data` -/
  trail : Str
  deriving Repr, DecidableEq

/-- the extra test of `__check_for_fenced_end_with_tab`, taken when the original line contains a tab: only *space*
characters may follow the fence (`collect_while_character(after_fence_in_original, 0, " ")`) — a tab after a closing
fence keeps the block open. -/
def onlySpacesAfterFence (line : Str) (afterFence : Nat) : Bool :=
  !line.contains TAB || (line.drop afterFence).all (· == ' ')

/-- the recogniser on a top-level line: `Recognisers.isFenceClose` (the tab-free path) and the tab test -/
def lineFenceClose (line : Str) (fchar : Char) (fcount : Nat) : Except Err Bool :=
  match isFencedCodeBlock line (leadWs line).1 (leadWs line).2 with
  | .error e => .error e
  | .ok none => .ok false
  | .ok (some (_, afterFence, _)) =>
    (isFenceClose line (leadWs line).1 (leadWs line).2 fchar fcount).map (· && onlySpacesAfterFence line afterFence)

/-- `__check_for_fenced_end` against the open fence `(fchar, fcount)`. -/
def fieldsFenceClose (line : Str) (fchar : Char) (fcount : Nat) : Except Err (Option FenceCloseFields) :=
  let start := (leadWs line).1
  match isFencedCodeBlock line start (leadWs line).2 with
  | .error e => .error e
  | .ok none => .ok none
  | .ok (some (_, afterFence, count)) =>
    match extractSpacesVerified line afterFence with
    | .error e => .error e
    | .ok (afterSpaces, spaces) =>
      match charAt line start with
      | .error e => .error e
      | .ok c =>
        if fchar == c && count ≥ fcount && afterSpaces ≥ line.length && onlySpacesAfterFence line afterFence then
          .ok (some ⟨(leadWs line).2, count, spaces⟩)
        else .ok none

/-- `__rehydrate_fenced_code_block_end` (not forced), the line itself; the fence character is the start token's. -/
def FenceCloseFields.reassemble (f : FenceCloseFields) (fchar : Char) : Str :=
  f.lead ++ rep f.count fchar ++ f.trail

/-! ## setext underline -/

structure SetextFields where
  /-- `EndMarkdownToken.extracted_whitespace` -/
  lead : Str
  /-- `heading_character` -/
  char : Char
  /-- `heading_character_count` -/
  count : Nat
  /-- `EndMarkdownToken.extra_end_data` -/
  trail : Str
  deriving Repr, DecidableEq

/-- `parse_setext_headings` → `__prepare_and_create_setext_token` → `__create_setext_token` on a top-level line
(paragraph open, not a paragraph continuation: parser state, not line shape).
`heading_character_count = collected_to_index + len(extracted_whitespace) - index_number`. -/
def fieldsSetext (line : Str) : Except Err (Option SetextFields) :=
  let start := (leadWs line).1
  let ws := (leadWs line).2
  if lenLe ws 3 && isCharAtOneOf line start ['-', '='] then
    let l2p := line.drop start
    match charAt line start with
    | .error e => .error e
    | .ok c =>
      match collectWhileCharVerified l2p 0 c with
      | .error e => .error e
      | .ok (_, collectedTo) =>
        match extractSpacesVerified l2p collectedTo with
        | .error e => .error e
        | .ok (afterWs, extra) =>
          if afterWs == l2p.length then .ok (some ⟨ws, c, collectedTo + ws.length - start, extra⟩)
          else .ok none
  else .ok none

/-- the underline line of `__rehydrate_setext_heading_end`. -/
def SetextFields.reassemble (f : SetextFields) : Str := f.lead ++ rep f.count f.char ++ f.trail

/-! ## blank line -/

/-- `__handle_blank_line_init`: `extract_ascii_whitespace_verified(input_line, 0)`; the token keeps the extracted
white space (`assert non_whitespace_index == len(input_line)`). -/
def fieldsBlank (line : Str) : Except Err (Option Str) :=
  if isBlankLine line then
    match extractAsciiWs line 0 with
    | none => .error .assertion
    | some (nonWs, ws) => if nonWs == line.length then .ok (some ws) else .error .assertion
  else .ok none

end Verif.Model.LeafFields
