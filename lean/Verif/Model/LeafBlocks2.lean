/-
  LeafBlocks2 — faithful models (core Lean only) of

  (1) the HTML-block START and END conditions
        pymarkdown/html/html_helper.py   is_html_block, __determine_html_block_type (disallow-raw-html off),
                                         __check_for_special_html_blocks, __check_for_normal_html_blocks,
                                         __check_for_normal_html_blocks_adjust_tag,
                                         check_blank_html_block_end, check_normal_html_block_end (the verdict and the
                                         stored text token, tab-free `original_line`)
      the type-7 tag scanners (`is_complete_html_start_tag`, `is_complete_html_end_tag`, …) are the ones of
      `Verif.Model.InlineRecog` and are reused, not re-modelled;
  (2) a line INSIDE an open fenced code block (container-free)
        pymarkdown/leaf_blocks/fenced_leaf_block_processor.py   handle_fenced_code_block, parse_fenced_code_block,
                                         __check_for_fenced_end (+ _with_tab), __calculate_fenced_vars,
                                         __parse_fenced_code_block_already_in (+ _with_tab, _with_tab_whitespace),
                                         __handle_fenced_code_block_with_tab (+ _starts_tab, _not_starts_tab,
                                         _with_tab_whitespace, _with_tab_and_extracted_whitespace)
        pymarkdown/general/tab_helper.py  find_detabify_string, find_tabified_string (+ _split), search_for_tabbed_prefix
  (3) a line of an indented code block (container-free)
        pymarkdown/leaf_blocks/indented_leaf_block_processor.py   parse_indented_code_block, __process_indented_code_block,
                                         __parse_indented_code_block_with_tab, …_with_tab_complete, __create_indented_block

  Conventions as in `Verif.Model.Recognisers` / `InlineRecog`: `s[i]` is `charAt` (fails with `Err.index`), a
  `_verified` helper or an `assert` fails with `Err.assertion`, nothing is totalised by a default value.
-/
import Verif.Model.InlineRecog
import Verif.Model.Codec
namespace Verif.Model.LeafBlocks2
open Verif.Model.Recognisers Verif.Model.InlineRecog

/-! ## (1) HTML blocks -/

/-- `str.lower()` on one character, as far as the ASCII tables of `HtmlHelper` can see it: `A`–`Z` ↦ `a`–`z`,
U+212A KELVIN SIGN ↦ `k`; every other character's lower-case form contains a non-ASCII character (the tie checks
this against CPython for every code point) and stands for itself. -/
def pyLowerChar (c : Char) : Char :=
  if 65 ≤ c.toNat ∧ c.toNat ≤ 90 then Char.ofNat (c.toNat + 32)
  else if c == KELVIN then 'k' else c

def pyLower (s : Str) : Str := s.map pyLowerChar

/-- `ParserHelper.are_characters_at_index(s, i, pat)` for `i ≥ 0`. -/
def areCharsAt (s : Str) (i : Nat) (pat : Str) : Bool :=
  i + pat.length ≤ s.length && slice s i (i + pat.length) == pat

def CDATA_REST : Str := ['[', 'C', 'D', 'A', 'T', 'A', '[']

/-- `HtmlHelper.__html_block_6_start` (regenerated from the source and compared by the tie on every run). -/
def block6Names : List Str :=
  ["address", "article", "aside", "base", "basefont", "blockquote", "body", "caption", "center", "col",
   "colgroup", "dd", "details", "dialog", "dir", "div", "dl", "dt", "fieldset", "figcaption", "figure",
   "footer", "form", "frame", "frameset", "h1", "h2", "h3", "h4", "h5", "h6", "head", "header", "hr",
   "html", "iframe", "legend", "li", "link", "main", "menu", "menuitem", "nav", "noframes", "ol",
   "optgroup", "option", "p", "param", "section", "source", "summary", "table", "tbody", "td", "tfoot",
   "th", "thead", "title", "tr", "track", "ul"].map String.toList

/-- `__check_for_special_html_blocks(line, character_index)` → block type 2–5 or `None`. -/
def checkSpecial (line : Str) (ci : Nat) : Option Nat :=
  if ci ≥ line.length then none
  else if isCharAt line ci '!' then
    if areCharsAt line (ci + 1) ['-', '-'] then some 2
    else if isCharAtOneOf line (ci + 1) asciiUpper then some 4
    else if areCharsAt line (ci + 1) CDATA_REST then some 5
    else none
  else if isCharAt line ci '?' then some 3
  else none

/-- `__check_for_normal_html_blocks_adjust_tag` → `(adjusted_remaining_html_tag, is_end_tag)`. -/
def adjustTag (tag line : Str) (ci : Nat) : Except Err (Str × Bool) :=
  let isEnd := tag.head? == some '/'
  let t1 := if isEnd then tag.drop 1 else tag
  match guardedIs line ci (· == '>') with
  | .error e => .error e
  | .ok gt => .ok (if gt && t1.getLast? == some '/' then t1.dropLast else t1, isEnd)

/-- the last step of `__check_for_normal_html_blocks`: a type-7 tag must be followed by ASCII white space only
(`extract_ascii_whitespace` answers `None` for an index outside the line, and `None != size`). -/
def sevenTail (line : Str) (idx : Nat) : Option Nat :=
  match extractAsciiWs line idx with
  | some (j, _) => if j == line.length then some 7 else none
  | none => none

/-- `__check_for_normal_html_blocks(remaining_html_tag, line, character_index)` → type 1, 6, 7 or `None`. -/
def checkNormal (tag line : Str) (ci : Nat) : Except Err (Option Nat) :=
  if block1Names.contains tag then .ok (some 1)
  else
    match adjustTag tag line ci with
    | .error e => .error e
    | .ok (adj, isEnd) =>
      if block6Names.contains adj then .ok (some 6)
      else if isEnd then
        match isCompleteHtmlEndTag adj line ci with
        | .error e => .error e
        | .ok (ok, idx) => .ok (if ok then sevenTail line idx else none)
      else
        match isCompleteHtmlStartTag adj line ci with
        | .error e => .error e
        | .ok (false, _) => .ok none
        | .ok (true, none) => .error .assertion          -- "If is_complete is True, this must be set."
        | .ok (true, some idx) => .ok (sevenTail line idx)

/-- `__determine_html_block_type(token_stack, line, start_index, parse_properties)` with the disallow-raw-html
extension off; `inPara` = `token_stack[-1].is_paragraph` → `(html_block_type, remaining_html_tag)` or `(None, None)`. -/
def determineType (line : Str) (start : Nat) (inPara : Bool) : Except Err (Option (Nat × Str)) :=
  match checkSpecial line (start + 1) with
  | some t => .ok (some (t, []))
  | none =>
    match collectUntilOneOfVerified line (start + 1) [' ', '>'] with
    | .error e => .error e
    | .ok (ci, raw) =>
      let tag := pyLower raw
      match checkNormal tag line ci with
      | .error e => .error e
      | .ok none => .ok none
      | .ok (some t) => if t == 7 && inPara then .ok none else .ok (some (t, tag))

/-- `HtmlHelper.is_html_block(line, start_index, extracted_whitespace, token_stack, parse_properties,
skip_whitespace_check)`. -/
def isHtmlBlock (line : Str) (start : Nat) (ws : Str) (inPara : Bool) (skip : Bool := false) :
    Except Err (Option (Nat × Str)) :=
  if (skip || lenLe ws 3) && isCharAt line start '<' then determineType line start inPara
  else .ok none

/-- the recogniser applied to a top-level line the way `parse_html_block` applies it
(`realize_leading_whitespace` is the identity without containers). -/
def lineHtmlStart (line : Str) (inPara : Bool) : Except Err (Option Nat) :=
  (isHtmlBlock line (leadWs line).1 (leadWs line).2 inPara).map (Option.map (·.1))

/-- `HtmlHelper.__html_block_1_end_tags` -/
def block1EndTags : List Str := ["</script>", "</pre>", "</style>"].map String.toList

/-- the verdict `is_block_terminated` of `check_normal_html_block_end` for an open block of type `ty`;
`adj` = `line_to_parse[start_index:]`. -/
def normalEnd (ty : Nat) (adj : Str) : Bool :=
  if ty == 1 then block1EndTags.any (containsSubstr adj)
  else if ty == 2 then containsSubstr adj ['-', '-', '>']
  else if ty == 3 then containsSubstr adj ['?', '>']
  else if ty == 4 then containsSubstr adj ['>']
  else if ty == 5 then containsSubstr adj [']', ']', '>']
  else false

/-- `check_blank_html_block_end`: does a blank line close an open block of type `ty`? -/
def blankEnd (ty : Nat) : Bool := ty == 6 || ty == 7

/-- the text token `check_normal_html_block_end` stores for a line without tabs:
`(extracted_whitespace, token_text)` = `(leaf_token_whitespace, line[start_index:])`. -/
def htmlLineToken (line : Str) : Str × Str := ((leadWs line).2, line.drop (leadWs line).1)

/-- what the block pass does with the lines of a document whose first line is handed to `handle_html_block` with the
document (or, `inPara`, a paragraph) on top of the stack: `none` = no HTML block starts; `some (ty, k)` = a block of
type `ty` that holds the first `k` lines (the line that meets the end condition included; a closing blank line not). -/
def htmlRun (ty : Nat) : List Str → Nat → Nat
  | [], k => k
  | l :: rest, k =>
    if isBlankLine l then (if blankEnd ty then k else htmlRun ty rest (k + 1))
    else if normalEnd ty (l.drop (leadWs l).1) then k + 1
    else htmlRun ty rest (k + 1)

/-- `__prepare_container_start_variables`: the text handed to the leaf processors is the tab-expanded line. -/
def detabAll : List Str → Except Err (List Str)
  | [] => .ok []
  | l :: ls =>
    match detabify l 0 with
    | .error e => .error e
    | .ok d =>
      match detabAll ls with
      | .error e => .error e
      | .ok ds => .ok (d :: ds)

def htmlDoc (lines0 : List Str) (inPara : Bool) : Except Err (Option (Nat × Nat)) :=
  match detabAll lines0 with
  | .error e => .error e
  | .ok lines =>
    match lines with
    | [] => .ok none
    | l :: rest =>
      match lineHtmlStart l inPara with
      | .error e => .error e
      | .ok none => .ok none
      | .ok (some ty) =>
        if normalEnd ty (l.drop (leadWs l).1) then .ok (some (ty, 1)) else .ok (some (ty, htmlRun ty rest 1))


/-! ## tab helpers (`pymarkdown/general/tab_helper.py`) -/

/-- the `while` loop of `TabHelper.find_detabify_string`; `detab` = the last `detabified_original_line`. -/
def fdsLoop (orig mtch : Str) (off : Nat) (upt : Bool) : Nat → Nat → Nat → Str → Except Err (Option (Str × Nat × Nat))
  | 0, _, _, _ => .error .fuel
  | fuel + 1, osi, idx, detab =>
    if detab.length ≥ mtch.length then
      let adj := orig.drop idx
      match detabify adj (osi + off) with
      | .error e => .error e
      | .ok d =>
        if mtch == d then .ok (some (adj, osi, idx))
        else if upt then
          match charAt adj 0 with                        -- `use_proper_traverse and adjusted_original_line[0] == "\t"`
          | .error e => .error e
          | .ok c => fdsLoop orig mtch off upt fuel (if c == TAB then (1 + osi / 4) * 4 else osi + 1) (idx + 1) d
        else fdsLoop orig mtch off upt fuel (osi + 1) (idx + 1) d
    else .ok none

/-- `TabHelper.find_detabify_string(original_line, detabified_line_to_match, initial_offset, use_proper_traverse)` →
`(adjusted_original_line, original_start_index, original_line_index)` or `(None, -1, -1)`. -/
def findDetabify (orig mtch : Str) (off : Nat) (upt : Bool) : Except Err (Option (Str × Nat × Nat)) :=
  match detabify orig off with
  | .error e => .error e
  | .ok d0 => fdsLoop orig mtch off upt (orig.length + 2) 0 0 d0

/-- `TabHelper.find_tabified_string(original_line, reconstructed_line, abc, use_proper_traverse, reconstruct_prefix,
was_indented = False)` → `(adj_original, return_index, split_tab)`. -/
def findTabified (orig recon : Str) (abc upt : Bool) (pre : Option Str) : Except Err (Str × Nat × Bool) :=
  match findDetabify orig recon 0 upt with
  | .error e => .error e
  | .ok (some (adj, si, li)) => .ok (adj, if upt then li else si, false)
  | .ok none =>
    let p : Str := match pre with | some p => if p.isEmpty then [SP] else p | none => [SP]
    match findDetabify orig (p ++ recon) 0 upt with
    | .error e => .error e
    | .ok (some (adj, si, li)) => .ok (adj, if upt then li else (if abc then si + 1 else si), true)
    | .ok none => .error .assertion                       -- "Adjusted original line must be defined by now."

/-- the loop of `TabHelper.search_for_tabbed_prefix` (`indent_used = extra_detabify_index = 0`). -/
def stpLoop (ex : Str) (di lead : Nat) : Nat → Nat → Except Err (Nat × Str × Str)
  | 0, _ => .error .fuel
  | fuel + 1, si =>
    let part := ex.take si
    match detabify part di with
    | .error e => .error e
    | .ok d =>
      if si < ex.length + 1 && d.length < lead then stpLoop ex di lead fuel (si + 1)
      else if d.length ≥ lead then .ok (si, part, d) else .error .assertion

/-- `TabHelper.search_for_tabbed_prefix(extracted_space, detabify_index, lead_space_len)`. -/
def searchTabbedPrefix (ex : Str) (di lead : Nat) : Except Err (Nat × Str × Str) := stpLoop ex di lead (ex.length + 2) 1

/-! ## (2) a line inside an open fenced code block, container-free

`N` = `whitespace_start_count` of the `FencedCodeBlockStackToken`, `fchar`/`fcount` its fence; `L` = the original line
(tabs kept), `T` = `detabify L` = `position_marker.text_to_parse`; `token_stack = [document, fenced]`. -/

inductive FenceOut where
  /-- the closing fence: `end-fcode-block` with `(extracted_whitespace, extracted_spaces, collected_count)` -/
  | close (ews spaces : Str) (count : Nat)
  /-- a content line: `TextMarkdownToken(token_text, extracted_whitespace)` -/
  | text (ews text : Str)
  deriving Repr, DecidableEq

def liftCodec : Codec.Res → Except Err Str
  | .ok s => .ok s
  | .error _ => .error .assertion

/-- `__calculate_fenced_vars(collected_count, original_line, 0)` → `(after_fence_index, adj_end, fence_string)`. -/
def calcFencedVars (count : Nat) (L : Str) : Except Err (Nat × Str × Str) :=
  match detabify L 0 with
  | .error e => .error e
  | .ok d =>
    match extractSpacesVerified d 0 with
    | .error e => .error e
    | .ok (aw, _) =>
      let fs := slice d aw (aw + count)
      if containsSubstr L fs then .ok (aw + count, d.drop aw, fs) else .error .assertion

/-- `reconstruct_prefix` of the fenced helpers: `None if original_line.startswith(">") else " " * index_indent`. -/
def indentPrefix (L : Str) : Option Str := if L.head? == some '>' then none else some []

/-- `__check_for_fenced_end_with_tab` → `(after_fence_index, only_spaces_after_fence, extracted_whitespace, split_tab)`. -/
def fencedEndWithTab (L : Str) (count : Nat) (ews : Str) : Except Err (Nat × Bool × Str × Bool) :=
  match calcFencedVars count L with
  | .error e => .error e
  | .ok (afi, adjEnd, fs) =>
    match pyFind L fs 0 with
    | none => .error .assertion
    | some ofsi =>
      let after := L.drop (ofsi + count)
      match collectWhileChar after 0 SP with
      | .error e => .error e
      | .ok r =>
        let only := match r with | some (_, idx) => idx == after.length | none => false
        match findTabified L (ews ++ adjEnd) false false (indentPrefix L) with
        | .error e => .error e
        | .ok (_, aoi, split) =>
          match extractSpacesVerified L aoi with
          | .error e => .error e
          | .ok (_, newEws) => .ok (afi, only, newEws, split)

/-- `__check_for_fenced_end` → the end token's fields when the line closes the block. -/
def checkFencedEnd (fchar : Char) (fcount : Nat) (L T : Str) (idx count : Nat) (ews0 : Str) (afi0 : Nat) :
    Except Err (Option (Str × Str × Nat)) :=
  let pre : Except Err (Nat × Bool × Str × Bool) :=
    if L.contains TAB then
      match fencedEndWithTab L count ews0 with
      | .error e => .error e
      | .ok (afi, only, ews, split) =>
        if split then
          match findTabified L T (L.head? == some '>') false (indentPrefix L) with   -- __check_for_fenced_end_with_split_tab
          | .error e => .error e
          | .ok (_, _, split2) => .ok (afi, only, ews, split2)
        else .ok (afi, only, ews, false)
    else .ok (afi0, true, ews0, false)
  match pre with
  | .error e => .error e
  | .ok (afi, only, ews, split) =>
    match extractSpacesVerified T afi with
    | .error e => .error e
    | .ok (after, spaces) =>
      match charAt T idx with
      | .error e => .error e
      | .ok c =>
        if fchar == c && count ≥ fcount && after ≥ T.length && only then
          if split then .error .assertion               -- adjust_block_quote_indent_for_tab: "Must not have gone back to the root index."
          else .ok (some (ews, spaces, count))
        else .ok none

/-- `__parse_fenced_code_block_already_in_with_tab_whitespace` → `(removed_whitespace, whitespace_padding)`. -/
def alreadyInTabWs (ex : Str) (lgi : Nat) (detabEx : Str) (used cur : Nat) : Except Err (Str × Str) :=
  if lgi = 0 then .error .index                          -- (unreachable: `last_good_space_index ≥ 1`)
  else
    let tabPrefix := ex.take (lgi - 1)
    match charAt ex (lgi - 1) with
    | .error e => .error e
    | .ok sc =>
      let left := detabEx.drop used
      let removed := (if tabPrefix.isEmpty then [] else Codec.replaceWithNothing tabPrefix) ++ Codec.replacementMarkers [sc] left
      .ok (removed, List.replicate (cur - detabEx.length) SP)

/-- `__parse_fenced_code_block_already_in(parser_state, extracted_whitespace, original_line, line_to_parse, None)`. -/
def alreadyIn (N : Nat) (ws L T : Str) : Except Err Str :=
  if N ≠ 0 && !ws.isEmpty then
    let cur := calcLength ws 0
    let left := cur - N
    let used := cur - left
    let normal : Str := Codec.replaceWithNothing (List.replicate (cur - left) SP) ++ List.replicate left SP
    if left ≠ 0 && L.contains TAB then
      if [TAB, TAB].isPrefixOf L then .error .assertion   -- `assert last_container_token.is_list` (the document token)
      else
        match findTabified L T false true none with
        | .error e => .error e
        | .ok (ex, exi, split) =>
          match searchTabbedPrefix ex (if split then exi + 1 else exi) used with
          | .error e => .error e
          | .ok (lgi, _, detabEx) =>
            if detabEx.length == used then .ok normal
            else
              match alreadyInTabWs ex lgi detabEx used cur with
              | .error e => .error e
              | .ok (removed, padding) => .ok (removed ++ padding)
    else .ok normal
  else .ok ws

/-- the loop of `__handle_fenced_code_block_with_tab_and_extracted_whitespace` → `(detabified_before_count_length,
before_count, after_count)` at the `break`, or at the end of the string. -/
def aewLoop (w : Str) (aoi N : Nat) : Nat → Nat → Except Err (Nat × Str × Option Str)
  | 0, _ => .error .fuel
  | fuel + 1, ni =>
    let before := w.take (ni + 1)
    match detabify before aoi with
    | .error e => .error e
    | .ok d =>
      if d.length ≥ N then .ok (d.length, before, some (w.drop before.length))
      else if ni + 1 < w.length then aewLoop w aoi N fuel (ni + 1)
      else .ok (d.length, before, none)

/-- `__handle_fenced_code_block_with_tab_and_extracted_whitespace(w, adj_original_index, N, w)` (`w` non-empty). -/
def andExtractedWs (w : Str) (aoi N : Nat) : Except Err Str :=
  match aewLoop w aoi N (w.length + 1) 0 with
  | .error e => .error e
  | .ok (dl, before, after?) =>
    let after : Except Err Str :=
      match after? with
      | some a => .ok a
      | none => if dl < N then (if before == w then .ok [] else .error .assertion) else .ok []
    match after with
    | .error e => .error e
    | .ok a => .ok (Codec.replacementMarkers w (if a.isEmpty then [Codec.NOOP] else a))

/-- `__handle_fenced_code_block_with_tab(parser_state, position_marker, original_line, leaf_token_whitespace, token_text)`
→ `(leaf_token_whitespace, token_text)`. -/
def handleWithTab (N : Nat) (L leafWs text : Str) : Except Err (Str × Str) :=
  match liftCodec (Codec.removeAll leafWs) with
  | .error e => .error e
  | .ok resolved =>
    let recon := resolved ++ text
    match charAt recon 0 with
    | .error e => .error e
    | .ok c0 =>
      let found : Except Err (Str × Nat × Bool × Bool) :=
        if c0 == TAB then
          -- __handle_fenced_code_block_with_tab_starts_tab
          match pyFind L recon 0 with
          | none => .error .assertion                     -- "reconstructed_line must be in original line."
          | some i =>
            if recon.isSuffixOf L then
              let pre := L.take (L.length - recon.length)
              let split := pre.getLast? == some '>'
              .ok (recon, i, split, split)
            else .error .assertion
        else
          -- __handle_fenced_code_block_with_tab_not_starts_tab
          match findTabified L recon (L.head? == some '>') false (indentPrefix L) with
          | .error e => .error e
          | .ok (adj, i, split) => .ok (adj, i, split, true)
      match found with
      | .error e => .error e
      | .ok (adj, aoi, split, hasTab) =>
        -- __handle_fenced_code_block_with_tab_whitespace
        match extractSpacesVerified adj 0 with
        | .error e => .error e
        | .ok (spaceEnd, w) =>
          let newWs : Except Err Str := if !w.isEmpty && N ≠ 0 then andExtractedWs w aoi N else .ok w
          match newWs with
          | .error e => .error e
          | .ok nw =>
            if split then .error .assertion               -- adjust_block_quote_indent_for_tab without a container
            else .ok (if hasTab then nw else leafWs, adj.drop spaceEnd)

/-- `handle_fenced_code_block` for the original line `L` with `[document, fenced(fchar, fcount, N)]` on the stack. -/
def fenceLine (fchar : Char) (fcount N : Nat) (L : Str) : Except Err FenceOut :=
  match detabify L 0 with
  | .error e => .error e
  | .ok T =>
    let idx := (leadWs T).1
    let ws := (leadWs T).2
    let content (leafWs : Str) : Except Err FenceOut :=
      let text := T.drop idx
      if L.contains TAB then
        match handleWithTab N L leafWs text with
        | .error e => .error e
        | .ok (w, t) => .ok (.text w t)
      else .ok (.text leafWs text)
    match isFencedCodeBlock T idx ws with
    | .error e => .error e
    | .ok (some (_, afi, count)) =>
      match checkFencedEnd fchar fcount L T idx count ws afi with
      | .error e => .error e
      | .ok (some (ews, spaces, cnt)) => .ok (.close ews spaces cnt)
      | .ok none => content ws                            -- the fence-like line keeps its whole white space
    | .ok none =>
      match alreadyIn N ws L T with
      | .error e => .error e
      | .ok leafWs => content leafWs


/-- the fenced block of a container-free document whose first line `open_` is an opening fence without tabs and whose
other lines are not blank: `(fchar, fcount, N)` of the stack token. -/
def fenceOpenParams (open_ : Str) : Except Err (Option (Char × Nat × Nat)) :=
  let idx := (leadWs open_).1
  let ws := (leadWs open_).2
  match isFencedCodeBlock open_ idx ws with
  | .error e => .error e
  | .ok none => .ok none
  | .ok (some (_, _, count)) =>
    match isFenceOpen open_ idx ws with
    | .error e => .error e
    | .ok false => .ok none
    | .ok true =>
      match charAt open_ idx with
      | .error e => .error e
      | .ok c => .ok (some (c, count, calcLength ws 0))

/-- the coalesced text token of the block's content lines (`TextMarkdownToken.combine` with `remove_leading_spaces = 0`:
the first line's white space stays in `extracted_whitespace`, later lines contribute `"\n" + whitespace + text`) and
whether a closing fence was met. -/
def fenceDocGo (fchar : Char) (fcount N : Nat) : List Str → Option (Str × Str) → Except Err (Option (Str × Str) × Bool)
  | [], acc => .ok (acc, false)
  | l :: rest, acc =>
    match fenceLine fchar fcount N l with
    | .error e => .error e
    | .ok (.close _ _ _) => .ok (acc, true)
    | .ok (.text e x) =>
      fenceDocGo fchar fcount N rest (match acc with | none => some (e, x) | some (e0, x0) => some (e0, x0 ++ '\n' :: (e ++ x)))

def fenceDoc (lines : List Str) : Except Err (Option (Option (Str × Str) × Bool)) :=
  match lines with
  | [] => .ok none
  | o :: rest =>
    match fenceOpenParams o with
    | .error e => .error e
    | .ok none => .ok none
    | .ok (some (c, n, N)) => (fenceDocGo c n N rest none).map some

/-! ## (3) a line of an indented code block, container-free

`L` = the original line, `T` = `detabify L`; `inBlock` = `token_stack[-1].is_indented_code_block`,
`inPara` = `token_stack[-1].is_paragraph`; `removed_chars_at_start = 0`. -/

structure IcodeOut where
  /-- `some w`: the line opens the block, `w` = the `icode-block` token's `extracted_whitespace` -/
  blockWs : Option Str
  /-- the text token -/
  ews : Str
  text : Str
  deriving Repr, DecidableEq

/-- the loop of `__recalculate_whitespace` over `tabified_extracted_space` → `(length_so_far, last_index)`. -/
def rwLoop (tabbed : Str) : Nat → Nat → Nat → Except Err (Nat × Nat)
  | 0, _, _ => .error .fuel
  | fuel + 1, len, i =>
    if i < tabbed.length && len < 4 then
      match charAt tabbed i with
      | .error e => .error e
      | .ok c => rwLoop tabbed fuel (if c == TAB then (1 + len / 4) * 4 else len + 1) (i + 1)
    else .ok (len, i)

/-- `__recalculate_whitespace(whitespace_to_parse, 0, tabified_extracted_space)` → `(adj_ws, left_ws)`. -/
def recalcWs (ws : Str) (tabbed : Option Str) : Except Err (Str × Str) :=
  match tabbed with
  | some t =>
    if t.isEmpty then .ok (ws.take 4, ws.drop 4)
    else
      match rwLoop t (t.length + 1) 0 0 with
      | .error e => .error e
      | .ok (len, last) =>
        if len ≠ 4 then .error .assertion
        else
          match detabify (t.take last) 0 with
          | .error e => .error e
          | .ok d => if d.length ≠ 4 then .error .assertion else .ok (t.take last, t.drop last)
  | none => .ok (ws.take 4, ws.drop 4)

/-- `parse_indented_code_block(parser_state, position_marker, extracted_whitespace, 0, …, original_line)`:
`none` = not eligible (no tokens). -/
def icodeLine (L : Str) (inBlock inPara : Bool) : Except Err (Option IcodeOut) :=
  match detabify L 0 with
  | .error e => .error e
  | .ok T =>
    let idx := (leadWs T).1
    let ws := (leadWs T).2
    if calcLength ws 0 ≥ 4 && !inPara then
      let text := T.drop idx
      let tabbed : Except Err (Option Str) :=
        if L.contains TAB then
          match charAt T idx with
          | .error e => .error e
          | .ok c =>
            match pyFind L [c] 0 with
            | none => .error .assertion                   -- "Next character must be found in the original line."
            | some i => .ok (some (L.take i))
        else .ok none
      match tabbed with
      | .error e => .error e
      | .ok tb =>
        match recalcWs ws tb with
        | .error e => .error e
        | .ok (adj, left) =>
          let tabbedNonEmpty := match tb with | some t => !t.isEmpty | none => false
          if !inBlock then
            .ok (some (if tabbedNonEmpty then ⟨some adj, [], L.drop adj.length⟩ else ⟨some adj, left, text⟩))
          else if tabbedNonEmpty then .ok (some ⟨none, adj, L.drop adj.length⟩)
          else .ok (some ⟨none, ws, text⟩)
    else .ok none

/-- what the line contributes to the code block's content: the whole text token on the opening line; on a later line
`TextMarkdownToken.combine` with `remove_leading_spaces = 4` drops the first four characters of the stored white space
(all of it when it is shorter). -/
def icodeContent (o : IcodeOut) : Str :=
  match o.blockWs with
  | some _ => o.ews ++ o.text
  | none => (if o.ews.length < 4 then [] else o.ews.drop 4) ++ o.text

/-- the source the stored pieces stand for. -/
def icodeSource (o : IcodeOut) : Str :=
  match o.blockWs with
  | some w => w ++ o.ews ++ o.text
  | none => o.ews ++ o.text

end Verif.Model.LeafBlocks2
