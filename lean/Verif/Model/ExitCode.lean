/-
  Faithful model of pymarkdown's outcome → exit-code logic
  (`return_code_helper.py`, `main.py: __scan_files_if_no_errors`, `main`).
  The concrete tables and the if-chain are *generated* (Verif/Gen/ExitTable.lean);
  this file gives them meaning.
-/
namespace Verif.Model.ExitCode

inductive Result | success | noFiles | cmdLine | fixed | triggered | systemError
  deriving DecidableEq, Repr, Inhabited

inductive Scheme | dflt | minimal
  deriving DecidableEq, Repr, Inhabited

/-- The conditions the result chain may test. -/
inductive Cond | anyFail | anyFixed | anyTriggered
  deriving DecidableEq, Repr

/-- What one invocation observed while processing its files. -/
structure Obs where
  listOnly      : Bool   -- `--list-files`
  filesFound    : Bool   -- discovery returned at least one file
  discoverError : Bool   -- discovery flagged an error
  anyFail       : Bool   -- some file ended in a plugin / tokenization error
  anyFixed      : Bool   -- some file was fixed
  anyTriggered  : Bool   -- number_of_scan_failures ≠ 0
  deriving DecidableEq, Repr

def Cond.holds (o : Obs) : Cond → Bool
  | .anyFail => o.anyFail
  | .anyFixed => o.anyFixed
  | .anyTriggered => o.anyTriggered

/-- Shape of the control flow that computes the final `ApplicationResult`. -/
structure Flow where
  init          : Result
  discoverError : Result
  chain         : List (Cond × Result)
  listEmpty     : Result
  listNonEmpty  : Result
  deriving Repr

def runChain (o : Obs) (dflt : Result) : List (Cond × Result) → Result
  | [] => dflt
  | (c, r) :: rest => if c.holds o then r else runChain o dflt rest

def Flow.finalResult (f : Flow) (o : Obs) : Result :=
  if o.listOnly then (if o.filesFound then f.listNonEmpty else f.listEmpty)
  else if o.discoverError then f.discoverError
  else runChain o f.init f.chain

def lookup (t : List (Scheme × Result × Nat)) (s : Scheme) (r : Result) : Option Nat :=
  (t.find? fun e => e.1 == s && e.2.1 == r).map (·.2.2)

end Verif.Model.ExitCode
