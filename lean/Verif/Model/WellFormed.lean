/-
  C04 — well-formed token streams (core Lean only).

  A token is abstracted to what the nesting discipline speaks about: its name, its class, and whether
  it opens a scope (`start`), closes one (`end_ of`, `of` = the index in the stream of the start token
  its `start_markdown_token` back-pointer designates) or is a point token (`atom`).  The position of a
  token is its index in the list.

  Specification side (inductive / declarative):
    * `WellNested` — the stream is a forest: every end closes the most recently opened, still-open start,
      carries the name `end-<name of that start>` and its back-pointer is that start; nothing stays open.
    * `ClassOK`    — class discipline: document root and containers hold containers and leaf blocks,
      leaf blocks and inline scopes hold only inline tokens, `li` only directly inside a list,
      special tokens only at the root, `front-matter` first, nothing but the `pragma` token after
      `end-of-stream`, nothing after the `pragma` token.
  Executable side: `wfCheck`, a one-pass stack automaton reporting the first offending index and a reason.
  `Verif/Props/C04.lean` proves `wfCheck ts = .ok () ↔ WellNested ts ∧ ClassOK ts` for all lists.

  Faithfulness notes (what pymarkdown really emits, see tools/props/c04.py):
    * every `EndMarkdownToken` has token class INLINE_BLOCK whatever it closes — the class of an end
      token is therefore not constrained;
    * the new-list-item token `li` is a ContainerMarkdownToken (class CONTAINER_BLOCK,
      `requires_end_token = True` by inheritance) that never receives an end token: it is a sibling
      marker inside its list.  The driver maps it to an `atom`; `ClassOK` pins where it may stand;
    * `end-of-stream` is followed by the `pragma` token when the document has pragma lines.
-/
namespace Verif.Model.WellFormed

inductive Cls | container | leaf | inline | special
  deriving DecidableEq, Repr

inductive Kind
  | start
  | end_ (of : Nat)
  | atom
  deriving DecidableEq, Repr

structure Tok where
  name : String
  cls : Cls
  kind : Kind
  deriving DecidableEq, Repr

/-- name of the end token of a start token called `n` (`EndMarkdownToken.__init__`). -/
def endName (n : String) : String := "end-" ++ n

/-! ### Class discipline: what may stand directly below which parent (`none` = document root) -/

/-- root and containers hold containers and leaf blocks -/
def blockCtx : Option Tok → Bool
  | none => true
  | some p => p.cls == .container

/-- leaf blocks and inline scopes (emphasis, link) hold inline tokens -/
def inlineCtx : Option Tok → Bool
  | none => false
  | some p => p.cls == .leaf || p.cls == .inline

def listCtx : Option Tok → Bool
  | none => false
  | some p => p.cls == .container && (p.name == "ulist" || p.name == "olist")

def startOK (par : Option Tok) (s : Tok) : Bool :=
  match s.cls with
  | .container => blockCtx par
  | .leaf => blockCtx par
  | .inline => inlineCtx par
  | .special => false

def atomOK (par : Option Tok) (t : Tok) : Bool :=
  match t.cls with
  | .container => t.name == "li" && listCtx par
  | .leaf => blockCtx par
  | .inline => inlineCtx par
  | .special => par.isNone

/-! ### Specification -/

/-- `Nest i ts`: `ts` is a well-nested forest whose first token has stream index `i`. -/
inductive Nest : Nat → List Tok → Prop
  | nil {i} : Nest i []
  | atom {i t rest} : t.kind = .atom → Nest (i + 1) rest → Nest i (t :: rest)
  | node {i s body e rest} :
      s.kind = .start → Nest (i + 1) body →
      e.kind = .end_ i → e.name = endName s.name →
      Nest (i + 1 + body.length + 1) rest →
      Nest i (s :: (body ++ e :: rest))

/-- every end token closes the most recently opened still-open start token of the same name, its
back-pointer is that start token, and nothing is left open at the end. -/
def WellNested (ts : List Tok) : Prop := Nest 0 ts

/-- `ClassForest par ts`: `ts` is a forest (brackets by kind only) all of whose top-level tokens may
stand directly below `par`, recursively. -/
inductive ClassForest : Option Tok → List Tok → Prop
  | nil {par} : ClassForest par []
  | atom {par t rest} : t.kind = .atom → atomOK par t = true → ClassForest par rest →
      ClassForest par (t :: rest)
  | node {par s body e rest p} :
      s.kind = .start → startOK par s = true → ClassForest (some s) body →
      e.kind = .end_ p → ClassForest par rest →
      ClassForest par (s :: (body ++ e :: rest))

def isFront (t : Tok) : Bool := t.kind == .atom && t.name == "front-matter"
def isEOS (t : Tok) : Bool := t.kind == .atom && t.name == "end-of-stream"
def isPragma (t : Tok) : Bool := t.kind == .atom && t.name == "pragma"

/-- what may follow an `end-of-stream` token: nothing, or exactly the pragma token -/
def eosTail (post : List Tok) : Bool :=
  match post with
  | [] => true
  | [p] => isPragma p
  | _ => false

/-- positional rule for the token `t` standing at index `k` and followed by `post` -/
def specAt (k : Nat) (t : Tok) (post : List Tok) : Bool :=
  (!isFront t || k == 0) && (!isEOS t || eosTail post) && (!isPragma t || post.isEmpty)

/-- `front-matter` only as the very first token; after `end-of-stream` only the pragma token;
the pragma token is last. -/
def SpecialOK (ts : List Tok) : Prop :=
  ∀ pre t post, ts = pre ++ t :: post → specAt pre.length t post = true

def ClassOK (ts : List Tok) : Prop := ClassForest none ts ∧ SpecialOK ts

/-! ### The monitor -/

inductive Reason
  | endNoOpen          -- end token while nothing is open
  | endWrongName       -- end token's name is not `end-` + name of the innermost open start
  | endWrongPointer    -- end token's back-pointer is not the innermost open start
  | blockInLeaf        -- container / leaf-block token directly inside a leaf block or inline scope
  | inlineOutsideLeaf  -- inline token directly at the root or inside a container
  | liOutsideList      -- `li` whose parent is not a list (or another container-class point token)
  | specialNested      -- special token below the root, or a special token that opens a scope
  | frontNotFirst      -- `front-matter` not at index 0
  | afterEndOfStream   -- token other than the pragma token after `end-of-stream`
  | afterPragma        -- token after the pragma token
  | leftOpen           -- start token never closed (index = innermost such start)
  deriving DecidableEq, Repr

structure WfErr where
  idx : Nat
  reason : Reason
  deriving DecidableEq, Repr

deriving instance DecidableEq for Except

inductive Phase | body | afterEOS | afterPragma
  deriving DecidableEq, Repr

/-- positional part of one step -/
def posStep (ph : Phase) (i : Nat) (t : Tok) : Except Reason Phase :=
  match ph with
  | .afterPragma => .error .afterPragma
  | .afterEOS => if isPragma t then .ok .afterPragma else .error .afterEndOfStream
  | .body =>
    if isFront t && i != 0 then .error .frontNotFirst
    else if isPragma t then .ok .afterPragma
    else if isEOS t then .ok .afterEOS
    else .ok .body

abbrev Stack := List (Nat × Tok)   -- innermost first; (stream index, start token)

def parent (st : Stack) : Option Tok := st.head?.map (·.2)

/-- why a token that fails `startOK` / `atomOK` fails (reporting only) -/
def classReason (t : Tok) : Reason :=
  match t.cls with
  | .container => if t.kind == .atom then .liOutsideList else .blockInLeaf
  | .leaf => .blockInLeaf
  | .inline => .inlineOutsideLeaf
  | .special => .specialNested

/-- tree part of one step: class check on the way in, name + back-pointer check on the way out -/
def treeStep (st : Stack) (i : Nat) (t : Tok) : Except Reason Stack :=
  match t.kind with
  | .atom => if atomOK (parent st) t then .ok st else .error (classReason t)
  | .start => if startOK (parent st) t then .ok ((i, t) :: st) else .error (classReason t)
  | .end_ p =>
    match st with
    | [] => .error .endNoOpen
    | (j, s) :: r =>
      if p != j then .error .endWrongPointer
      else if t.name != endName s.name then .error .endWrongName
      else .ok r

structure St where
  stack : Stack
  idx : Nat
  phase : Phase
  deriving Repr

def St.init : St := ⟨[], 0, .body⟩

def step (s : St) (t : Tok) : Except WfErr St :=
  match posStep s.phase s.idx t with
  | .error r => .error ⟨s.idx, r⟩
  | .ok ph =>
    match treeStep s.stack s.idx t with
    | .error r => .error ⟨s.idx, r⟩
    | .ok st => .ok ⟨st, s.idx + 1, ph⟩

def run (s : St) : List Tok → Except WfErr St
  | [] => .ok s
  | t :: ts =>
    match step s t with
    | .error e => .error e
    | .ok s' => run s' ts

/-- The verified monitor: first offending index and reason, or `ok`. -/
def wfCheck (ts : List Tok) : Except WfErr Unit :=
  match run St.init ts with
  | .error e => .error e
  | .ok s =>
    match s.stack with
    | [] => .ok ()
    | (i, _) :: _ => .error ⟨i, .leftOpen⟩

/-! ### Still-open starts of a prefix (specification of the automaton's stack) -/

/-- some token of `pre` is an end token whose back-pointer is `i` -/
def closedIn (pre : List Tok) (i : Nat) : Bool := pre.any fun e => e.kind == .end_ i

/-- the start tokens of `pre` (with their indices, in stream order) that no end token of `pre` points to -/
def openStarts (pre : List Tok) : List (Nat × Tok) :=
  (pre.zipIdx.filter fun x => x.1.kind == .start && !closedIn pre x.2).map fun x => (x.2, x.1)

/-! ### Removing a point token -/

/-- back-pointers to positions after `k` move down by one -/
def shiftTok (k : Nat) (t : Tok) : Tok :=
  match t.kind with
  | .end_ p => if p > k then { t with kind := .end_ (p - 1) } else t
  | _ => t

/-- the stream without its `k`-th token -/
def dropAt (ts : List Tok) (k : Nat) : List Tok :=
  ts.take k ++ (ts.drop (k + 1)).map (shiftTok k)

/-! ### Producers writing only through push / pop / leaf primitives -/

structure Producer where
  stack : Stack        -- open starts, innermost first
  out : List Tok       -- chronological

def Producer.empty : Producer := ⟨[], []⟩

def Producer.push (p : Producer) (name : String) (cls : Cls) : Producer :=
  let t : Tok := ⟨name, cls, .start⟩
  { stack := (p.out.length, t) :: p.stack, out := p.out ++ [t] }

/-- emit the end token of the innermost open start (what `generate_close_markdown_token_from_stack_token`
does); no-op on an empty stack -/
def Producer.pop (p : Producer) : Producer :=
  match p.stack with
  | [] => p
  | (i, s) :: r => { stack := r, out := p.out ++ [⟨endName s.name, .inline, .end_ i⟩] }

def Producer.leaf (p : Producer) (name : String) (cls : Cls) : Producer :=
  { p with out := p.out ++ [⟨name, cls, .atom⟩] }

inductive Cmd
  | push (name : String) (cls : Cls)
  | pop
  | leaf (name : String) (cls : Cls)

def exec (p : Producer) : List Cmd → Producer
  | [] => p
  | .push n c :: cs => exec (p.push n c) cs
  | .pop :: cs => exec p.pop cs
  | .leaf n c :: cs => exec (p.leaf n c) cs

def popAll : Nat → Producer → Producer
  | 0, p => p
  | n + 1, p => popAll n p.pop

/-- a producer: ANY decision function from the producer state (plus whatever else it keeps, `σ`) and
an input item to commands; at the end everything still open is closed. -/
def produce {σ α : Type} (decide : σ → Producer → α → σ × List Cmd) (s0 : σ) (inputs : List α) : Producer :=
  let r := inputs.foldl (fun (sp : σ × Producer) a => let d := decide sp.1 sp.2 a; (d.1, exec sp.2 d.2)) (s0, Producer.empty)
  popAll r.2.stack.length r.2

/-! #### Guarded producer: every token goes through the monitor's own step -/

structure GProd where
  mon : St
  out : List Tok

def GProd.empty : GProd := ⟨St.init, []⟩

/-- append `t` iff the monitor accepts it in the current state; otherwise drop it -/
def GProd.emit (g : GProd) (t : Tok) : GProd :=
  match step g.mon t with
  | .ok m => ⟨m, g.out ++ [t]⟩
  | .error _ => g

/-- close the innermost open start through the monitor -/
def GProd.close (g : GProd) : GProd :=
  match g.mon.stack with
  | [] => g
  | (i, s) :: _ => g.emit ⟨endName s.name, .inline, .end_ i⟩

def GProd.closeAll : Nat → GProd → GProd
  | 0, g => g
  | n + 1, g => GProd.closeAll n g.close

def gexec (g : GProd) : List (Option Tok) → GProd   -- `none` = close
  | [] => g
  | some t :: cs => gexec (g.emit t) cs
  | none :: cs => gexec g.close cs

end Verif.Model.WellFormed
