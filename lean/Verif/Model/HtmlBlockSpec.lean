/-
  HtmlBlockSpec — CommonMark §4.6 (HTML blocks), §4.5 (fenced code: content lines), §4.4 (indented code: content lines),
  written from the sentences of the specification, not from pymarkdown's code.  Core Lean only.

  The seven start conditions and their end conditions are stated once, parametrised by what changed between the
  specification versions: GFM 0.29 (what pymarkdown claims) and CommonMark 0.31.2.
  "Complete open tag" / "closing tag" (§6.6) are LeanMark's tag automata (`Model/LeanMark/HtmlTag.lean`), the reference
  the C03 refinement check uses.
-/
import Verif.Model.LeanMark.HtmlTag
namespace Verif.Model.HtmlBlockSpec

abbrev Str := List Char

/-- what differs between the versions of the specification -/
structure Version where
  /-- start condition 1: "`<pre`, `<script`, `<style` (0.30+: or `<textarea`)" -/
  block1 : List Str
  /-- start condition 6: the block-level tag names -/
  block6 : List Str
  /-- start condition 4: 0.29 "`<!` followed by an uppercase ASCII letter", 0.30+ "an ASCII letter" -/
  declAnyLetter : Bool
  /-- start condition 7: 0.29 excludes the names of condition 1 for OPEN tags only, 0.30+ for closing tags as well -/
  closeExcluded : Bool

def names029 : List Str :=
  ["address", "article", "aside", "base", "basefont", "blockquote", "body", "caption", "center", "col", "colgroup", "dd",
   "details", "dialog", "dir", "div", "dl", "dt", "fieldset", "figcaption", "figure", "footer", "form", "frame", "frameset",
   "h1", "h2", "h3", "h4", "h5", "h6", "head", "header", "hr", "html", "iframe", "legend", "li", "link", "main", "menu",
   "menuitem", "nav", "noframes", "ol", "optgroup", "option", "p", "param", "section", "source", "summary", "table", "tbody",
   "td", "tfoot", "th", "thead", "title", "tr", "track", "ul"].map String.toList

/-- 0.31.2: `search` added, `source` removed -/
def names031 : List Str :=
  ["address", "article", "aside", "base", "basefont", "blockquote", "body", "caption", "center", "col", "colgroup", "dd",
   "details", "dialog", "dir", "div", "dl", "dt", "fieldset", "figcaption", "figure", "footer", "form", "frame", "frameset",
   "h1", "h2", "h3", "h4", "h5", "h6", "head", "header", "hr", "html", "iframe", "legend", "li", "link", "main", "menu",
   "menuitem", "nav", "noframes", "ol", "optgroup", "option", "p", "param", "search", "section", "summary", "table", "tbody",
   "td", "tfoot", "th", "thead", "title", "tr", "track", "ul"].map String.toList

def gfm029 : Version := ⟨["pre", "script", "style"].map String.toList, names029, false, false⟩
def cm031 : Version := ⟨["pre", "script", "style", "textarea"].map String.toList, names031, true, true⟩

def isUpper (c : Char) : Bool := 65 ≤ c.toNat && c.toNat ≤ 90
def isLower (c : Char) : Bool := 97 ≤ c.toNat && c.toNat ≤ 122
def isLetter (c : Char) : Bool := isUpper c || isLower c
def lower (c : Char) : Char := if isUpper c then Char.ofNat (c.toNat + 32) else c
def isSpTab (c : Char) : Bool := c == ' ' || c == '\t'

/-- `s` begins with the string `pat`, ASCII case-insensitively (`pat` is lower case). -/
def beginsCI : Str → Str → Bool
  | [], _ => true
  | _ :: _, [] => false
  | p :: ps, c :: cs => lower c == p && beginsCI ps cs

/-- "followed by a space, a tab, the string `>`, or the end of the line" -/
def follow1 : Str → Bool
  | [] => true
  | c :: _ => isSpTab c || c == '>'

/-- "followed by a space, a tab, the end of the line, the string `>`, or the string `/>`" -/
def follow6 : Str → Bool
  | [] => true
  | c :: r => isSpTab c || c == '>' || (c == '/' && r.head? == some '>')

/-- `r` = the line after its `<`.  Start condition 1. -/
def cond1 (v : Version) (r : Str) : Bool := v.block1.any fun n => beginsCI n r && follow1 (r.drop n.length)
/-- 2: "begins with the string `<!--`" -/
def cond2 (r : Str) : Bool := ['!', '-', '-'].isPrefixOf r
/-- 3: "begins with the string `<?`" -/
def cond3 (r : Str) : Bool := ['?'].isPrefixOf r
/-- 4: "begins with the string `<!` followed by an (uppercase) ASCII letter" -/
def cond4 (v : Version) (r : Str) : Bool :=
  match r with
  | '!' :: c :: _ => if v.declAnyLetter then isLetter c else isUpper c
  | _ => false
/-- 5: "begins with the string `<![CDATA[`" -/
def cond5 (r : Str) : Bool := "![CDATA[".toList.isPrefixOf r
/-- 6: "begins with the string `<` or `</` followed by one of the strings (case-insensitive) …, followed by …" -/
def cond6 (v : Version) (r : Str) : Bool :=
  let r' := match r with | '/' :: x => x | _ => r
  v.block6.any fun n => beginsCI n r' && follow6 (r'.drop n.length)

/-- the tag name of a tag whose text after `<` (and after `/`) is `r'`, lower-cased -/
def tagName (r' : Str) : Str := (r'.takeWhile fun c => isLetter c || (48 ≤ c.toNat && c.toNat ≤ 57) || c == '-').map lower

/-- 7: "begins with a complete open tag or closing tag (with any tag name other than …) followed by zero or more spaces
and tabs, followed by the end of the line" -/
def cond7 (v : Version) (r : Str) : Bool :=
  let restBlank (n : Nat) : Bool := (r.drop n).all isSpTab
  match LeanMark.scanOpenTag r with
  | some n => restBlank n && !v.block1.contains (tagName r)
  | none =>
    match LeanMark.scanCloseTag r with
    | some n => restBlank n && !(v.closeExcluded && v.block1.contains (tagName (r.drop 1)))
    | none => false

/-- the start condition met by the text `t` that begins at the first non-blank character of a line (the lowest number
when several are met; 6 and 7 have the same end condition); `interrupts` = the line would interrupt a paragraph
("start condition 7 … cannot interrupt a paragraph"). -/
def startOfText (v : Version) (t : Str) (interrupts : Bool) : Option Nat :=
  match t with
  | '<' :: r =>
    if cond1 v r then some 1
    else if cond2 r then some 2
    else if cond3 r then some 3
    else if cond4 v r then some 4
    else if cond5 r then some 5
    else if cond6 v r then some 6
    else if cond7 v r && !interrupts then some 7
    else none
  | _ => none

/-- columns of indentation of a line (§2.2: tab stops every 4 columns) and the text after it -/
def indentOf : Str → Nat → Nat × Str
  | [], col => (col, [])
  | c :: r, col =>
    if c == ' ' then indentOf r (col + 1)
    else if c == '\t' then indentOf r ((col + 4) / 4 * 4)
    else (col, c :: r)

/-- "The opening tag can be preceded by up to three spaces of indentation" -/
def startOfLine (v : Version) (line : Str) (interrupts : Bool) : Option Nat :=
  if (indentOf line 0).1 ≤ 3 then startOfText v (indentOf line 0).2 interrupts else none

/-- `l` contains the string `pat` -/
def Contains (pat l : Str) : Prop := ∃ a b, l = a ++ pat ++ b

/-- the end condition of a block of kind `k` met by the line `l` ("line contains …"; 6, 7: "line is followed by a blank
line", which is not a property of the line itself). -/
def EndsOn (v : Version) (k : Nat) (l : Str) : Prop :=
  match k with
  | 1 => ∃ n ∈ v.block1, ∃ a t b, l = a ++ t ++ b ∧ t.map lower = ('<' :: '/' :: n) ++ ['>']
  | 2 => Contains ['-', '-', '>'] l
  | 3 => Contains ['?', '>'] l
  | 4 => Contains ['>'] l
  | 5 => Contains [']', ']', '>'] l
  | _ => False

/-- does a blank line end a block of kind `k`? -/
def blankEnds (k : Nat) : Bool := k == 6 || k == 7

/-! ## §4.5 / §4.4: content lines of code blocks -/

/-- remove up to `n` columns of indentation from a line whose first character stands at column `col`; a tab that straddles
the boundary leaves its remaining columns as spaces (§2.2). -/
def stripCols : Str → Nat → Nat → Str
  | [], _, _ => []
  | c :: r, n, col =>
    if n = 0 then c :: r
    else if c == ' ' then stripCols r (n - 1) (col + 1)
    else if c == '\t' then
      let w := 4 - col % 4
      if w ≤ n then stripCols r (n - w) (col + w) else List.replicate (w - n) ' ' ++ r
    else c :: r

/-- §4.5 "If the leading code fence is indented N spaces, then up to N spaces of indentation are removed from each line of
the content" -/
def fenceContent (n : Nat) (line : Str) : Str := stripCols line n 0

/-- §4.4 "The contents of the code block are the literal contents of the lines, including trailing line endings, minus four
spaces of indentation." -/
def icodeContent (line : Str) : Str := stripCols line 4 0

/-- §4.5 "The closing code fence must use the same character as the opening fence, … have at least as many backticks or
tildes … may be preceded by up to three spaces of indentation, and may be followed only by spaces or tabs". -/
def isClosingFence (fchar : Char) (fcount : Nat) (line : Str) : Bool :=
  let ind := indentOf line 0
  let run := ind.2.takeWhile (· == fchar)
  ind.1 ≤ 3 && run.length ≥ fcount && run.length ≥ 1 && (ind.2.drop run.length).all isSpTab

end Verif.Model.HtmlBlockSpec
