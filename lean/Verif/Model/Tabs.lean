/-
  Tab expansion, the final-newline correction and pragma re-insertion of the Markdown
  regenerator (core Lean only).

  Sources:
    /repo/pymarkdown/general/tab_helper.py       `detabify_string`, `calculate_length`
    /repo/pymarkdown/general/parser_helper.py    `collect_backwards_while_spaces`, `collect_while_spaces`
    /repo/pymarkdown/transform_markdown/transform_to_markdown.py
        `__correct_for_final_newline`, `__handle_pragma_processing`
-/
import Verif.Model.Codec
import Verif.Model.Lines
namespace Verif.Model.Tabs
open Verif.Model.Codec (Str findFrom findNth slice)
open Verif.Model.Lines (NL splitNL joinNL)

def TAB : Char := '\t'
def SP : Char := ' '

/-! ## Tab stops -/

/-- width of a tab met at (0-based) column `col`: up to the next multiple of 4, never 0
(`int((col + 4) / 4) * 4 − col`). -/
def tabWidth (col : Nat) : Nat := (col + 4) / 4 * 4 - col

/-- Reference formulation of tab expansion: one pass, `col` = column of the next character. -/
def detab : Nat → Str → Str
  | _, [] => []
  | col, c :: cs =>
    if c = TAB then List.replicate (tabWidth col) SP ++ detab (col + tabWidth col) cs
    else c :: detab (col + 1) cs

/-- `TabHelper.calculate_length(s, start)`. -/
def calcLengthAux : Nat → Str → Nat
  | col, [] => col
  | col, c :: cs => calcLengthAux (if c = TAB then (col + 4) / 4 * 4 else col + 1) cs

def calcLength (s : Str) (start : Nat) : Nat := calcLengthAux start s - start

def isWs (c : Char) : Bool := c == SP || c == TAB

/-- `collect_backwards_while_spaces_verified(s, i)[1]`: start index of the run of spaces/tabs ending before `i`. -/
def wsStartBefore (s : Str) (i : Nat) : Nat := i - ((s.take i).reverse.takeWhile isWs).length

/-- `collect_while_spaces(s, i)[0]`: end index of the run of spaces/tabs starting at `i`. -/
def wsEndFrom (s : Str) (i : Nat) : Nat := i + ((s.drop i).takeWhile isWs).length

/-- The `while` loop of `detabify_string`, mirrored: whitespace section by whitespace section.
`cur` = `current_start_index`, `delta` = `additional_start_delta`.  Every iteration consumes at
least the tab it found, so `fuel = length + 1` is never exhausted. -/
def detabifyLoop (delta : Nat) : Nat → Str → Str → Nat → Str
  | 0, src, rebuilt, _ => rebuilt ++ src
  | fuel + 1, src, rebuilt, cur =>
    match findFrom TAB src 0 with
    | none => rebuilt ++ src
    | some ti =>
      let st := wsStartBefore src ti
      let en := wsEndFrom src ti
      let sect := slice src st en
      let realized := cur + st + delta
      let w := calcLength sect realized
      detabifyLoop delta fuel (src.drop en) (rebuilt ++ src.take st ++ List.replicate w SP) (cur + st + w)

/-- `TabHelper.detabify_string(s, additional_start_delta)`. -/
def detabify (s : Str) (delta : Nat) : Str := detabifyLoop delta (s.length + 1) s [] 0

/-- column (0-based) reached after the first `i` characters of `s`, starting at column `col`. -/
def colAfter (col : Nat) (s : Str) (i : Nat) : Nat := col + (detab col (s.take i)).length

/-! ## `__correct_for_final_newline` -/

/-- `keep` = `was_forced_fenced_end and not actual_tokens[-2].is_fenced_code_block`. -/
def finalNewlineRule (data : Str) (keep : Bool) : Str :=
  if data ≠ [] ∧ data.getLast? = some NL ∧ ¬ keep then data.dropLast else data

/-- what the per-token handlers produce for a document: every line followed by a newline. -/
def terminateAll : List Str → Str
  | [] => []
  | l :: ls => l ++ NL :: terminateAll ls

/-! ## Pragma lines: stripped by the tokenizer, re-inserted by `__handle_pragma_processing` -/

/-- The tokenizer's view: lines recognised as pragmas (`isP`) are taken out of the line stream and
recorded under their 1-based line number (`PragmaToken.pragma_lines`). -/
def stripFrom (isP : Str → Bool) : Nat → List Str → List Str × List (Nat × Str)
  | _, [] => ([], [])
  | n, l :: ls =>
    let r := stripFrom isP (n + 1) ls
    if isP l then (r.1, (n, l) :: r.2) else (l :: r.1, r.2)

def strip (isP : Str → Bool) (ls : List Str) : List Str × List (Nat × Str) := stripFrom isP 1 ls

/-- One iteration of the `for next_line_number in ordered_lines` loop. -/
def insertPragma (data : Str) (n : Nat) (text : Str) : Str :=
  let p := detabify text 0
  if n = 1 then
    if data ≠ [] then p ++ NL :: data else p
  else
    match findNth NL data (n - 1) with
    | none => data ++ NL :: p
    | some idx => data.take idx ++ NL :: (p ++ data.drop idx)

/-- `__handle_pragma_processing`: records in ascending line order. -/
def reinsert (data : Str) : List (Nat × Str) → Str
  | [] => data
  | (n, text) :: rest => reinsert (insertPragma data n text) rest

end Verif.Model.Tabs
