/-
  Faithful model of the in-band marker codec of pymarkdown (core Lean only).

  Source: /repo/pymarkdown/general/parser_helper.py
    `escape_special_characters`, `create_replacement_markers`, `create_replace_with_nothing_marker`,
    `__find_with_escape`, `__remove_backspaces_from_text`, `resolve_backspaces_from_text`,
    `__remove_sequence_from_text` / `resolve_noops_from_text`, `__resolve_escapes_from_text` /
    `__remove_escapes_from_text`, `__resolve_replacement_markers_from_text`,
    `__resolve_references_from_text`, `resolve_all_from_text`, `remove_all_from_text`,
    `find_nth_occurrence`, `make_value_visible`;
  and the three sentinel removals at the end of `TransformToMarkdown.transform`
  (`ParserLogger.start_range_sequence` U+8268, `end_range_sequence` U+8269, `blah_sequence` U+00FE).

  Modelling rules (DESIGN §5.2, Appendix A item 5):
  * strings are `List Char`, indices are `Nat`, Python slices are `take`/`drop`;
  * the index loops are mirrored, defects included.  A loop whose Python original has no variant
    (`resolve_backspaces_from_text` re-finds `\b` at index 0 for ever) takes fuel = length + 1 and
    answers `Err.hang` when it runs out; `str.index` failing is `Err.valueError`; a failing `assert`
    is `Err.assertion`.
-/
namespace Verif.Model.Codec

abbrev Str := List Char

/-! ## The marker characters (`ParserHelper` class constants) -/

/-- `__backspace_character` `"\b"`: follows the backslash of a backslash escape. -/
def BS : Char := '\x08'
/-- `__alert_character` `"\a"`: delimits `\a original \a replacement \a`. -/
def AL : Char := '\x07'
/-- `whitespace_split_character` `"\x02"`. -/
def WSPLIT : Char := '\x02'
/-- `replace_noop_character` `"\x03"`: "replaced with nothing". -/
def NOOP : Char := '\x03'
/-- `escape_character` `"\x05"`: the following marker character is document text. -/
def ESC : Char := '\x05'
def BSL : Char := '\\'

/-- membership in `all_escape_characters` = `"\b\a\x02\x03\x05"`. -/
def isSpecial (c : Char) : Bool := c == BS || c == AL || c == WSPLIT || c == NOOP || c == ESC

inductive Err where
  | valueError   -- `str.index` did not find the character
  | assertion    -- a Python `assert` failed
  | hang         -- the Python loop does not terminate (fuel exhausted)
  deriving Repr, DecidableEq

abbrev Res := Except Err Str

instance : DecidableEq Res := fun a b =>
  match a, b with
  | .ok x, .ok y => if h : x = y then isTrue (by rw [h]) else isFalse (by intro e; cases e; exact h rfl)
  | .error x, .error y => if h : x = y then isTrue (by rw [h]) else isFalse (by intro e; cases e; exact h rfl)
  | .ok _, .error _ => isFalse (by intro e; cases e)
  | .error _, .ok _ => isFalse (by intro e; cases e)

/-! ## Encoders -/

/-- `escape_special_characters`. -/
def escapeSpecial : Str → Str
  | [] => []
  | c :: cs => if isSpecial c then ESC :: c :: escapeSpecial cs else c :: escapeSpecial cs

/-- `create_replacement_markers(a, b)` = `\a a \a b \a`. -/
def replacementMarkers (a b : Str) : Str := AL :: (a ++ AL :: (b ++ [AL]))

/-- `create_replace_with_nothing_marker(a)` = `\a a \a \x03 \a`. -/
def replaceWithNothing (a : Str) : Str := AL :: (a ++ [AL, NOOP, AL])

/-- no U+0005 of the document stands directly before another marker character of the document
(the domain of `escape_roundtrip`: after un-escaping the first, the loop takes it for the escape of the second). -/
def escOK : Str → Bool
  | [] => true
  | [_] => true
  | x :: y :: rest => !(x == ESC && isSpecial y) && escOK (y :: rest)

/-! ## `str.find`, slices, `__find_with_escape` -/

/-- `s.find(c, start)` for a one-character `c` and `start ≥ 0` (`none` = −1). -/
def findFrom (c : Char) : Str → Nat → Option Nat
  | [], _ => none
  | x :: xs, 0 => if x = c then some 0 else (findFrom c xs 0).map (· + 1)
  | _ :: xs, n + 1 => (findFrom c xs n).map (· + 1)

/-- `s[a:b]` for `0 ≤ a`, `0 ≤ b`. -/
def slice (s : Str) (a b : Nat) : Str := (s.take b).drop a

/-- The `while` loop of `__find_with_escape`; `fuel` bounds the iterations (each one raises
`start` by at least one, so `length + 1` is never exhausted: `findWithEscape_eq_firstHit`). -/
def fweLoop (s : Str) (c : Char) : Nat → Nat → Option Nat
  | 0, _ => none
  | fuel + 1, start =>
    if start < s.length then
      match findFrom c s start with
      | none => none
      | some i => if 0 < i ∧ s[i - 1]? = some ESC then fweLoop s c fuel (i + 1) else some i
    else none

/-- `__find_with_escape(s, c, start)`: first `c` at or after `start` that is not at an index > 0
directly after U+0005. -/
def findWithEscape (s : Str) (c : Char) (start : Nat) : Option Nat := fweLoop s c (s.length + 1) start

/-! ## The four "find, cut, find again" loops

`__remove_backspaces_from_text`, `resolve_backspaces_from_text`, `__remove_sequence_from_text`
and `__resolve_escapes_from_text` are the same loop up to three parameters:
the character looked for, whether the character *before* the hit is cut as well (`back`),
and how far after the hit index the next search starts (`adv`). -/

/-- the text after cutting at hit index `i`:  `t[:i] + t[i+1:]`, or with `back`
`t[:i-1] + t[i+1:]` — for `i = 0` Python's `t[:-1]` is "all but the last character". -/
def cutAt (back : Bool) (t : Str) (i : Nat) : Str :=
  (if back then (if i = 0 then t.dropLast else t.take (i - 1)) else t.take i) ++ t.drop (i + 1)

def cutLoop (c : Char) (back : Bool) (adv : Nat) : Nat → Str → Option Nat → Res
  | _, t, none => .ok t
  | 0, _, some _ => .error .hang
  | fuel + 1, t, some i =>
    cutLoop c back adv fuel (cutAt back t i) (findWithEscape (cutAt back t i) c (i + adv))

def cutAll (c : Char) (back : Bool) (adv : Nat) (t : Str) : Res :=
  cutLoop c back adv (t.length + 1) t (findWithEscape t c 0)

/-- `__remove_backspaces_from_text`. -/
def removeBackspaces (t : Str) : Res := cutAll BS false 0 t
/-- `resolve_backspaces_from_text`: cuts the backslash and the `\b`; resumes at the hit index, which
is one position past the first unexamined character; a hit at index 0 of a text of length ≥ 2
repeats for ever. -/
def resolveBackspaces (t : Str) : Res := cutAll BS true 0 t
/-- `__remove_sequence_from_text(t, c)`. -/
def removeSequence (c : Char) (t : Str) : Res := cutAll c false 0 t
/-- `resolve_noops_from_text`. -/
def resolveNoops (t : Str) : Res := removeSequence NOOP t
/-- `__resolve_escapes_from_text` (= `__remove_escapes_from_text`): cuts the U+0005 and resumes one
past the character it protected. -/
def resolveEscapes (t : Str) : Res := cutAll ESC false 1 t

/-! ## The two replacement-marker loops -/

/-- `s.index(c, start)`. -/
def indexFrom (c : Char) (s : Str) (start : Nat) : Except Err Nat :=
  match findFrom c s start with
  | some i => .ok i
  | none => .error .valueError

/-- One iteration of `__resolve_replacement_markers_from_text` (`resolve = false`: keep the original
text) / `__resolve_references_from_text` (`resolve = true`: keep the replacement) at start index
`st`: the new text and the index at which the next search starts
(`end + 1 + (len_after − len_before)` = `st + len(replace_text)`). -/
def replStep (resolve : Bool) (t : Str) (st : Nat) : Except Err (Str × Nat) := do
  let mid ← indexFrom AL t (st + 1)
  let en ← indexFrom AL t (mid + 1)
  if mid + 1 = en then
    -- "It is possible to have one level of nesting"
    let is ← indexFrom AL t (en + 1)
    let im ← indexFrom AL t (is + 1)
    let ie ← indexFrom AL t (im + 1)
    if im + 1 = ie then
      let rep := if resolve then slice t (is + 1) im else slice t (st + 1) mid
      pure (t.take st ++ rep ++ t.drop (ie + 1), st + rep.length)
    else throw .assertion
  else
    let rep := if resolve then slice t (mid + 1) en else slice t (st + 1) mid
    pure (t.take st ++ rep ++ t.drop (en + 1), st + rep.length)

def replLoop (resolve : Bool) : Nat → Str → Option Nat → Res
  | _, t, none => .ok t
  | 0, _, some _ => .error .hang
  | fuel + 1, t, some st =>
    match replStep resolve t st with
    | .error e => .error e
    | .ok (t', nxt) => replLoop resolve fuel t' (findWithEscape t' AL nxt)

def replAll (resolve : Bool) (t : Str) : Res :=
  replLoop resolve (t.length + 1) t (findWithEscape t AL 0)

/-- `__resolve_replacement_markers_from_text`. -/
def resolveReplacementMarkers (t : Str) : Res := replAll false t
/-- `__resolve_references_from_text`. -/
def resolveReferences (t : Str) : Res := replAll true t

/-! ## The two combinations -/

/-- `remove_all_from_text(t, include_noops)`: back to the Markdown source. -/
def removeAllN (includeNoops : Bool) (t : Str) : Res := do
  let a ← removeBackspaces t
  let b ← resolveReplacementMarkers a
  let c ← if includeNoops then resolveNoops b else pure b
  resolveEscapes c

def removeAll (t : Str) : Res := removeAllN false t

/-- `resolve_all_from_text(t)`: forward to the rendered text. -/
def resolveAll (t : Str) : Res := do
  let a ← resolveBackspaces t
  let b ← resolveReferences a
  let c ← resolveNoops b
  resolveEscapes c

/-! ## Sentinels removed at the end of `TransformToMarkdown.transform` -/

def SENT_START : Char := '\u8268'
def SENT_END : Char := '\u8269'
def SENT_BLAH : Char := '\u00fe'

/-- `s.replace(c, "")`. -/
def removeChar (c : Char) (s : Str) : Str := s.filter (· != c)

/-- `.replace(start_range_sequence, "").replace(end_range_sequence, "").replace(blah_sequence, "")`. -/
def stripSentinels (s : Str) : Str := removeChar SENT_BLAH (removeChar SENT_END (removeChar SENT_START s))

/-! ## `find_nth_occurrence`, `make_value_visible` -/

/-- `find_nth_occurrence(s, c, nth)` (1-based; `nth ≤ 0` gives −1). -/
def findNthFrom (c : Char) (s : Str) : Nat → Nat → Option Nat
  | 0, _ => none
  | k + 1, start =>
    match findFrom c s start with
    | none => none
    | some i => if k = 0 then some i else findNthFrom c s k (i + 1)

def findNth (c : Char) (s : Str) (nth : Nat) : Option Nat := findNthFrom c s nth 0

/-- `s.replace(c, r)` for a one-character `c`. -/
def replaceChar (c : Char) (r : Str) : Str → Str
  | [] => []
  | x :: xs => if x = c then r ++ replaceChar c r xs else x :: replaceChar c r xs

/-- `s.replace(pat, r)` for a non-empty `pat` (leftmost, non-overlapping). -/
def replaceSub (pat r : Str) : Nat → Str → Str
  | 0, s => s
  | _, [] => []
  | fuel + 1, x :: xs =>
    if pat.isPrefixOf (x :: xs) then r ++ replaceSub pat r fuel ((x :: xs).drop pat.length)
    else x :: replaceSub pat r fuel xs

/-- `make_value_visible` on a string. -/
def makeValueVisible (s : Str) : Str :=
  let s := replaceChar BS "\\b".toList s
  let s := replaceChar AL "\\a".toList s
  let s := replaceChar '\t' "\\t".toList s
  let s := replaceChar '\n' "\\n".toList s
  let s := replaceChar WSPLIT "\\x02".toList s
  let s := replaceChar NOOP "\\x03".toList s
  let s := replaceChar ESC "\\x05".toList s
  let s := replaceSub "\\x07".toList "\\a".toList (s.length + 1) s
  replaceSub "\\x08".toList "\\b".toList (s.length + 1) s

/-! ## Pieces: what the tokenizer writes into token text -/

/-- One unit of token text together with the source it stands for and the text it renders as. -/
inductive Piece where
  /-- a character of the document, passed through `escape_special_characters`. -/
  | lit (c : Char)
  /-- backslash escape `\c`: stored as `\` `\b` `c`. -/
  | bsEscaped (c : Char)
  /-- backslash escape of a character that is itself replaced (`\<`): `\` `\b` `\a c \a dst \a`. -/
  | bsReplaced (c : Char) (dst : Str)
  /-- `create_replacement_markers src dst` (entity, `<` → `&lt;`, newline in a code span …). -/
  | replaced (src dst : Str)
  /-- `create_replace_with_nothing_marker src` (whitespace removed from the rendering). -/
  | removed (src : Str)
  /-- `create_replacement_markers a (create_replacement_markers b c)` (`&amp;` in text:
  `\a&amp;\a\a&\a&amp;\a\a`). -/
  | nested (a b c : Str)
  deriving Repr, DecidableEq

def Piece.encode : Piece → Str
  | .lit c => escapeSpecial [c]
  | .bsEscaped c => [BSL, BS, c]
  | .bsReplaced c dst => BSL :: BS :: replacementMarkers [c] dst
  | .replaced src dst => replacementMarkers src dst
  | .removed src => replaceWithNothing src
  | .nested a b c => replacementMarkers a (replacementMarkers b c)

def Piece.source : Piece → Str
  | .lit c => [c]
  | .bsEscaped c => [BSL, c]
  | .bsReplaced c _ => [BSL, c]
  | .replaced src _ => src
  | .removed src => src
  | .nested a _ _ => a

def Piece.rendered : Piece → Str
  | .lit c => [c]
  | .bsEscaped c => [c]
  | .bsReplaced _ dst => dst
  | .replaced _ dst => dst
  | .removed _ => []
  | .nested _ _ c => c

def encode : List Piece → Str
  | [] => []
  | p :: ps => p.encode ++ encode ps

def sourceOf : List Piece → Str
  | [] => []
  | p :: ps => p.source ++ sourceOf ps

def renderedOf : List Piece → Str
  | [] => []
  | p :: ps => p.rendered ++ renderedOf ps

/-- no marker character in a payload string. -/
def plain (s : Str) : Bool := s.all fun c => !isSpecial c

/-- A piece whose payload contains no marker character and whose replacement is not empty
(an empty replacement `\a src \a \a` is read as the start of a nested marker). -/
def Piece.markerFree : Piece → Bool
  | .lit c => !isSpecial c
  | .bsEscaped c => !isSpecial c
  | .bsReplaced c dst => !isSpecial c && plain dst && !dst.isEmpty
  | .replaced src dst => plain src && plain dst && !dst.isEmpty
  | .removed src => plain src
  | .nested a b c => plain a && plain b && plain c

/-- The domain on which the codec is a bijection: no payload character collides with a marker. -/
def MarkerFree (ps : List Piece) : Prop := ps.all Piece.markerFree = true

instance (ps : List Piece) : Decidable (MarkerFree ps) := by unfold MarkerFree; infer_instance

end Verif.Model.Codec
