/-
  The CONTRACT between the inline dispatcher and its handlers, the decidable guard on the environment, and the independent
  statement of what a position is (core Lean only; the driver evaluates `envOK`).

  The contract was found by reading the loop, not the handlers: every clause is an `assert`, an index access or an arithmetic
  step of `__handle_next_inline_character` that goes wrong when the clause fails (witnesses: `Props/InlineLoop.lean`, `…_excluded`).
-/
import Verif.Model.InlineLoop
namespace Verif.Model.InlineLoop
open Verif.Model.Recognisers (Str slice)

/-- what the loop relies on in ONE handler answer `r` to the request `q` -/
structure RespOK (q : Request) (r : Response) : Prop where
  /-- `new_index` is defined and lies strictly after the handled character (`assert new_index is not None`; progress) -/
  progress : ∃ ni, r.newIndex = some ni ∧ q.next < ni
  /-- `new_string` is defined unless the rest of the line is consumed (`assert new_string is not None`) -/
  defined : r.consumeRest = true ∨ r.newString.isSome = true
  /-- `assert new_string_unresolved is None or new_string_unresolved == original_string` -/
  unres : ∀ o, r.original = some o → r.newStringUnres = none ∨ r.newStringUnres = some o
  /-- a negative `delta_column_number` (= "column reset") comes with a line change (`assert did_line_number_change`) -/
  reset : r.dCol < 0 → r.dLine ≠ 0
  /-- `reduce_remaining_line_by` is only set by the extended-autolinks extension (not modelled) -/
  noReduce : r.reduceBy = 0
  /-- a raw-HTML token does not hold more line breaks than the text it consumed (`leading_text_index` stays inside `bleading_spaces`) -/
  rawNl : ∀ ni, r.newIndex = some ni → rawHtmlNewlines r.newTokens ≤ countNl (slice q.src q.next ni)

/-- the requests the loop builds: the lines of `para_owner.extracted_whitespace` hold no line break (they come from a `split`) -/
def ReqOK (q : Request) : Prop := ∀ ws, q.paraWs = some ws → ∀ w ∈ ws, NL ∉ w

/-- the contract of a handler table on the text `src` -/
structure TableOK (T : Table) (src : Str) : Prop where
  /-- a start character without a handler is the newline (`assert source_text[next_index] == "\n"`) -/
  nlOnly : ∀ c, T.starts.contains c = true → c ≠ NL → (T.handler c).isSome = true
  /-- every answer a handler gives at one of ITS characters of `src` meets `RespOK` -/
  resp : ∀ c h q r, T.handler c = some h → q.src = src → src[q.next]? = some c → ReqOK q → h q = .ok r → RespOK q r

/-- the decidable guard of the totality theorem: the arguments `InlineProcessor` assembles always meet it —
white space to recombine only for a setext heading; text with line breaks only in a paragraph / setext heading whose
`para_space` has a line for every line of the text; the block quote's `bleading_spaces` has a line for every line still to come. -/
def envOK (env : Env) : Bool :=
  match prepare env with
  | .error _ => false
  | .ok (src, sp) =>
    (!truthy env.recomb || env.isSetext) &&
    (countNl src == 0 || (match sp with | some l => decide (countNl src + 1 ≤ l.length) | none => false)) &&
    (match env.bq with
     | none => true
     | some b => match b.lead with | none => false | some ls => decide (b.idx + countNl src < ls.length))

/-! ## stub tables: ONE extra handler, for `x`, that breaks one clause of the contract

`tools/inlinelooplib.py` registers the same stub in the REAL handler table and runs the real loop on the same text (driver op
`witness`): what the excluded points do to the real code is measured, not assumed. -/

def stubTable (h : Handler) : Table := ⟨[NL, 'x'], fun c => if c == 'x' then some h else none⟩

/-- the well-behaved stub: consumes the `x`, puts `x` into the text -/
def stubGood (q : Request) : Response := Response.plain q ['x'] (q.next + 1) 1

/-- a raw-HTML token with two line breaks -/
def stubRaw (q : Request) : List Tok := [.other RAW_HTML [['a', NL, 'b', NL, 'c']] q.line q.tokCol]

def stubHandlers : List (String × Handler) :=
  [("good", fun q => .ok (stubGood q)),
   ("noProgress", fun q => .ok { stubGood q with newIndex := some q.next }),
   ("backwards", fun q => .ok { stubGood q with newIndex := some 0 }),
   ("noIndex", fun q => .ok { stubGood q with newIndex := none }),
   ("noString", fun q => .ok { stubGood q with newString := none }),
   ("unres", fun q => .ok { stubGood q with original := some ['a'], newStringUnres := some ['b'] }),
   ("reset", fun q => .ok { stubGood q with dCol := -1 }),
   ("reduce", fun q => .ok { stubGood q with reduceBy := 1 }),
   ("rawNl", fun q => .ok { stubGood q with newTokens := stubRaw q, newString := some [], dLine := 2, dCol := -2 }),
   ("beyond", fun q => .ok { stubGood q with newIndex := some (q.src.length + 3) }),
   -- an element of three characters that spans a line break (`x`, newline, one character): position-true when that line has no
   -- leading white space
   ("multi", fun q => .ok { stubGood q with newIndex := some (q.next + 3), newString := some [], dLine := 1, dCol := -2 })]

/-- a paragraph at (1, 1) without leading white space; `bq` = lengths of the block quote's `bleading_spaces` lines, if any -/
def stubEnv (src : Str) (bq : Option (List Nat)) : Env :=
  ⟨src, [], none, false, true, some (joinNl (List.replicate (countNl src + 1) [])), 1, 1,
    some (joinNl (List.replicate (countNl src + 1) []), 0), bq.map fun l => ⟨some l, 0⟩⟩

def runStub (name : String) (src : Str) (bq : Option (List Nat)) : Except LErr Result :=
  match stubHandlers.lookup name with
  | some h => run (stubTable h) (stubEnv src bq)
  | none => .error .unmodelled

/-! ## positions: what a (line, column) of an index of the text IS

Written without looking at the loop: WALK over the text, one character at a time.  The state is (line breaks passed, column); a line
break moves to the next line, whose first text character stands behind the container prefix of that line (`bq k` columns) and the
leading white space that was removed from that line (`ws k` columns); any other character is one column wide (tabs: the paragraph
text of a tabbed line is handled by the unmodelled `tabified_text` path). -/

def walk (bq ws : Nat → Nat) : Nat × Int → Str → Nat × Int
  | p, [] => p
  | p, ch :: r =>
    if ch == NL then walk bq ws (p.1 + 1, 1 + (bq (p.1 + 1) : Int) + (ws (p.1 + 1) : Int)) r
    else walk bq ws (p.1, p.2 + 1) r

/-- the true position of index `i` of a text whose first character stands at `(line0, col0)` -/
def truePos (src : Str) (line0 col0 : Int) (bq ws : Nat → Nat) (i : Nat) : Int × Int :=
  (line0 + ((walk bq ws (0, col0) (src.take i)).1 : Int), (walk bq ws (0, col0) (src.take i)).2)

/-- width of the block-quote prefix of the `k`-th line of the text: `len(bleading_spaces.split("\n")[leading_text_index + k])` -/
def bqf (env : Env) (k : Nat) : Nat :=
  match env.bq with
  | some b => (match b.lead with | some ls => ls.getD (b.idx + k) 0 | none => 0)
  | none => 0

/-- width of the leading white space removed from the `k`-th line: `len(para_space.split("\n")[k])` -/
def wsf (sp0 : Option (List Str)) (k : Nat) : Nat :=
  match sp0 with
  | some l => (l.getD k []).length
  | none => 0

/-- the true position of index `i` in the environment of one call (`sp0` = the initial `split_para_space`) -/
def envPos (env : Env) (src : Str) (sp0 : Option (List Str)) (i : Nat) : Int × Int :=
  truePos src env.line env.col (bqf env) (wsf sp0) i

/-- A handler answer is POSITION-TRUE: the deltas it reports are the displacement of the text it consumed.
Same line: `delta_line = 0`, `delta_column` = the number of characters consumed (+ the pending text when `consume_rest_of_line`
makes the loop forget it).  Across lines: `delta_line` = the line breaks consumed, `delta_column` negative, and `-delta_column` + the
block-quote prefix the loop adds = the true column of the first character behind the element; inside a block quote the element's
line breaks are reported through a raw-HTML token (the only way `leading_text_index` moves). -/
def posTrueb (env : Env) (src : Str) (sp0 : Option (List Str)) (q : Request) (r : Response) : Bool :=
  match r.newIndex with
  | none => false
  | some ni =>
    let nl := countNl (slice src q.next ni)
    if nl == 0 then
      r.dLine == 0 && r.dCol == (ni : Int) - (q.next : Int) + (if r.consumeRest then (q.remaining.length : Int) else 0)
    else
      r.dLine == (nl : Int) && decide (r.dCol < 0) &&
        -r.dCol + (bqf env (countNl (src.take ni)) : Int) == (envPos env src sp0 ni).2 &&
        (!env.bq.isSome || rawHtmlNewlines r.newTokens == nl)

def PosTrue (env : Env) (src : Str) (sp0 : Option (List Str)) (q : Request) (r : Response) : Prop :=
  posTrueb env src sp0 q r = true

/-- the position specification in either mode: when white space was recombined into the text (setext heading) it is part of the
text and no longer "removed" -/
def specPos (env : Env) (src : Str) (sp0 : Option (List Str)) (i : Nat) : Int × Int :=
  if truthy env.recomb then truePos src env.line env.col (bqf env) (fun _ => 0) i else envPos env src sp0 i

/-- Bool form of `RespOK` (for the driver's per-call audit) -/
def respOKb (q : Request) (r : Response) : Bool :=
  (match r.newIndex with
   | none => false
   | some ni => decide (q.next < ni) && decide (rawHtmlNewlines r.newTokens ≤ countNl (slice q.src q.next ni))) &&
  (r.consumeRest || r.newString.isSome) &&
  (match r.original with | none => true | some o => r.newStringUnres.isNone || r.newStringUnres == some o) &&
  (decide (0 ≤ r.dCol) || decide (r.dLine ≠ 0)) && r.reduceBy == 0

/-- the index at which the pending text piece starts: the end of the last turn that changed `inline_blocks` -/
def textStart (tr : List Iter) : Nat := tr.foldl (fun a it => if it.changed then it.newIndex else a) 0

end Verif.Model.InlineLoop
