/-
  Faithful model of the front-matter stage of the parser (core Lean only).

  Sources mirrored (pymarkdown, pinned tree):
  * `extensions/front_matter_extension.py`
      `FrontMatterExtension.process_header_if_present`
      `FrontMatterExtension.__handle_document_front_matter`
  * `leaf_blocks/thematic_leaf_block_processor.py`
      `ThematicLeafBlockProcessor.is_thematic_break` (called with
      `whitespace_allowed_between_characters=False`, start index 0, empty extracted whitespace)
  * `general/tokenized_markdown.py`
      `__process_front_matter_header_if_present`, and the way `__parse_blocks_pass` hands
      `(first line, line number, requeue)` + the source provider to the main loop.

  Outside the model, as parameters:
  * `yaml : Lines → Yaml` — `FrontMatterExtension.__validate_yaml` (PyYAML `SafeLoader` plus the
    project's own post-checks).  Three outcomes: a usable document, "not valid" (None / a string /
    a `MarkedYAMLError`), or an exception that is *not* caught there (`ReaderError`, the
    `TypeError` of `"test" in 5`, the deliberate `test: assert` assertion).
  * `parse : Nat → Lines → List τ` — the block/inline parser proper, as a function of the number of
    its first line and the lines it is fed (`MainLoop`).  The only thing the theorems need from it
    is the shift law `ShiftInvariant`.

  Python exceptions are explicit `Err` results.
-/
namespace Verif.Model.FrontMatter

deriving instance DecidableEq for Except

abbrev Line := List Char
abbrev Lines := List Line

/-- `Constants.ascii_whitespace` = `"\x20\x09\x0a\x0b\x0c\x0d"`. -/
def asciiWs : List Char := [' ', '\t', '\n', Char.ofNat 0x0b, Char.ofNat 0x0c, '\r']

def isWs (c : Char) : Bool := asciiWs.contains c

/-- `str.rstrip(Constants.ascii_whitespace)`. -/
def rstrip (l : Line) : Line := (l.reverse.dropWhile isWs).reverse

/-- `ThematicLeafBlockProcessor.__thematic_break_characters`. -/
def breakChars : List Char := ['*', '_', '-']

/-- `is_thematic_break(line, 0, "", whitespace_allowed_between_characters=False)`:
the line starts with one of `*_-`; the loop counts the run of that character from index 0 and stops
at the first other character; success iff the run has length ≥ 3 and reaches the end of the line.
Result: (the character, index after the run). -/
def thematic (l : Line) : Option (Char × Nat) :=
  match l with
  | [] => none
  | c :: _ =>
    if breakChars.contains c then
      let n := (l.takeWhile (· == c)).length
      if 3 ≤ n ∧ n = l.length then some (c, n) else none
    else none

/-- The test at the top of `process_header_if_present`:
`start_char == "-" and extracted_index == 3` on the right-stripped first line. -/
def isStart (first : Line) : Bool := thematic (rstrip first) == some ('-', 3)

/-- The closing test inside the scan loop:
`bool(start_char) and clean_starting_line == next_line.rstrip(ws)`. -/
def closes (start l : Line) : Bool := (thematic (rstrip l)).isSome && rstrip start == rstrip l

/-- `next_line and next_line.rstrip(ws)` for a line that exists. -/
def nonBlank (l : Line) : Bool := !(rstrip l).isEmpty

/-- How the `while repeat_again` loop of `__handle_document_front_matter` ends. -/
inductive Scan where
  /-- a closing line was met: lines collected before it, the closing line, lines left in the provider -/
  | closed (collected : Lines) (close : Line) (rest : Lines)
  /-- `allow_blank_lines` is off and a blank line was met; it is collected too -/
  | stopped (collected : Lines) (rest : Lines)
  /-- `get_next_line()` returned `None`: both `assert next_line is not None` sites fail -/
  | eof (collected : Lines)
  deriving Repr, DecidableEq

def Scan.push (l : Line) : Scan → Scan
  | .closed c cl r => .closed (l :: c) cl r
  | .stopped c r => .stopped (l :: c) r
  | .eof c => .eof (l :: c)

/-- The scan loop over the lines still in the source provider. -/
def scan (allowBlank : Bool) (start : Line) : Lines → Scan
  | [] => .eof []
  | l :: rest =>
    if nonBlank l then
      if closes start l then .closed [] l rest
      else (scan allowBlank start rest).push l
    else if !allowBlank then .stopped [l] rest
    else (scan allowBlank start rest).push l

/-- Outcome of `__validate_yaml` as seen by its caller. -/
inductive Yaml where
  | ok        -- a non-None, non-string document: the block is accepted
  | invalid   -- None, a plain string, or a MarkedYAMLError: "Front matter was not parseable…"
  | raises    -- an exception escapes `__validate_yaml`
  deriving Repr, DecidableEq

inductive Err where
  | eofAssert   -- `assert next_line is not None` (F-FM)
  | yamlRaise   -- exception out of `__validate_yaml`
  deriving Repr, DecidableEq

/-- The front-matter token: `(start boundary, end boundary, collected lines)`; the position is fixed
at (1,1); the YAML map is outside the model. -/
structure FmTok where
  start : Line
  close : Line
  collected : Lines
  deriving Repr, DecidableEq

/-- What `__process_front_matter_header_if_present` leaves behind for `__parse_blocks_pass`:
the token appended to the document (if any), `first_line_in_document`, `line_number`, `requeue`,
and the lines still unread in the source provider. -/
structure HeaderOut where
  token : Option FmTok
  next : Option Line
  lineNo : Nat
  requeue : Lines
  provider : Lines
  deriving Repr, DecidableEq

/-- `process_header_if_present` (+ `__handle_document_front_matter`) for an existing first line. -/
def processHeader (allowBlank : Bool) (yaml : Lines → Yaml) (first : Line) (provider : Lines) :
    Except Err HeaderOut :=
  if isStart first then
    match scan allowBlank first provider with
    | .eof _ => .error .eofAssert
    | .stopped collected rest =>
      -- "Metadata prefix abandoned": requeue = starting line :: collected; next = requeue[0]
      .ok { token := none, next := some first, lineNo := 1, requeue := collected, provider := rest }
    | .closed collected close rest =>
      match yaml collected with
      | .raises => .error .yamlRaise
      | .invalid =>
        -- `collected_lines.insert(0, starting_line); collected_lines.append(starting_line)`:
        -- the *starting* line is appended in place of the closing line that was read
        .ok { token := none, next := some first, lineNo := 1, requeue := collected ++ [first],
              provider := rest }
      | .ok =>
        -- next line comes from the provider; `line_number = 3 + len(collected_lines)`
        .ok { token := some ⟨first, close, collected⟩, next := rest.head?,
              lineNo := 3 + collected.length, requeue := [], provider := rest.tail }
  else
    .ok { token := none, next := some first, lineNo := 1, requeue := [], provider := provider }

/-- `__process_front_matter_header_if_present`: the extension is consulted only when there is a
first line and the flag is on.  `doc` is the list of lines the source provider will deliver. -/
def headerStage (enabled allowBlank : Bool) (yaml : Lines → Yaml) (doc : Lines) :
    Except Err HeaderOut :=
  match doc with
  | [] => .ok { token := none, next := none, lineNo := 1, requeue := [], provider := [] }
  | first :: provider =>
    if enabled then processHeader allowBlank yaml first provider
    else .ok { token := none, next := some first, lineNo := 1, requeue := [], provider := provider }

/-! ### MainLoop abstraction -/

/-- The parser proper is *any* function of (number of the first line, lines) that commutes with
renumbering.  This is the law LeanMark's `L_shift` provides. -/
structure ShiftInvariant {τ : Type} (parse : Nat → Lines → List τ) (shift : Nat → τ → τ) : Prop where
  law : ∀ n k ls, parse (n + k) ls = (parse n ls).map (shift k)

/-- The main loop of `__parse_blocks_pass` as seen from the header stage: lines are taken from
`requeue` first, then from the provider; `next = None` starts the closing sequence at once. -/
def mainLoop {τ : Type} (parse : Nat → Lines → List τ) (h : HeaderOut) : List τ :=
  match h.next with
  | none => parse h.lineNo []
  | some l => parse h.lineNo (l :: (h.requeue ++ h.provider))

/-- Output token stream: the front-matter token (never renumbered) or a token of the parser proper. -/
inductive OutTok (τ : Type) where
  | fm (t : FmTok)
  | blk (t : τ)
  deriving Repr, DecidableEq

def OutTok.isFm {τ : Type} : OutTok τ → Bool
  | .fm _ => true
  | .blk _ => false

/-- Whole front end: header stage, then the main loop. -/
def tokenize {τ : Type} (enabled allowBlank : Bool) (yaml : Lines → Yaml)
    (parse : Nat → Lines → List τ) (doc : Lines) : Except Err (List (OutTok τ)) :=
  match headerStage enabled allowBlank yaml doc with
  | .error e => .error e
  | .ok h => .ok ((h.token.toList.map OutTok.fm) ++ (mainLoop parse h).map OutTok.blk)

/-- The plain parse of a document (no front-matter stage at all). -/
def plain {τ : Type} (parse : Nat → Lines → List τ) (doc : Lines) : List (OutTok τ) :=
  (parse 1 doc).map OutTok.blk

/-! ### A concrete shift-invariant parser (driver, witnesses, non-vacuity) -/

/-- Echo parser: one token per line, carrying the line number it was given. -/
def echoFrom : Nat → Lines → List (Nat × Line)
  | _, [] => []
  | n, l :: ls => (n, l) :: echoFrom (n + 1) ls

def echoShift (k : Nat) (t : Nat × Line) : Nat × Line := (t.1 + k, t.2)

theorem echo_shiftInvariant : ShiftInvariant echoFrom echoShift := by
  constructor
  intro n k ls
  induction ls generalizing n with
  | nil => rfl
  | cons l ls ih =>
    simp only [echoFrom, List.map_cons, echoShift]
    rw [show n + k + 1 = (n + 1) + k by omega, ih]

end Verif.Model.FrontMatter
