/-
  Faithful model of pymarkdown's file discovery
  (`application_file_scanner.py`: `determine_files_to_scan`, `__process_next_path`,
  `__process_next_path_directory`, `__is_file_eligible_to_scan`,
  `__handle_main_list_files`) and of the library functions it calls
  (`os.path.exists/isdir/isfile/split/join`, `os.walk`, `glob.glob`, `fnmatch`).

  Modelled world: the directory tree below the working directory (no symbolic links,
  POSIX separators).  Strings are `List Char`.  A path *string* is what the user types /
  what the code prints; a `Path` is the list of component names from the working
  directory, i.e. the identity of a file.

  Limits (validated by the correspondence, stated in the report): absolute paths and `..`
  steps that leave the working directory resolve to "does not exist"; `os.altsep` is `None`
  (POSIX), so the `replace(os.altsep, os.sep)` calls are the identity.
-/
namespace Verif.Model.FileScan

abbrev Str := List Char
abbrev Path := List Str

inductive Kind | file | dir
  deriving DecidableEq, Repr

/-- The entries below the working directory, each with its component path. -/
abbrev Tree := List (Path × Kind)

/-! ### strings -/

/-- `s.split(sep)` of Python: first piece and remaining pieces. -/
def splitFirst (sep : Char) : Str → Str × List Str
  | [] => ([], [])
  | c :: cs =>
    let r := splitFirst sep cs
    if c = sep then ([], r.1 :: r.2) else (c :: r.1, r.2)

def splitOn (sep : Char) (s : Str) : List Str :=
  (splitFirst sep s).1 :: (splitFirst sep s).2

/-- Python `str.endswith`. -/
def endsWith (s suffix : Str) : Bool := suffix.isSuffixOf s

/-- Python's string order: lexicographic by code point. -/
def strLt : Str → Str → Bool
  | [], [] => false
  | [], _ :: _ => true
  | _ :: _, [] => false
  | a :: as, b :: bs => decide (a.toNat < b.toNat) || (a == b && strLt as bs)

def strLe (a b : Str) : Bool := !strLt b a

def insertSorted (x : Str) : List Str → List Str
  | [] => [x]
  | y :: ys => if strLe x y then x :: y :: ys else y :: insertSorted x ys

/-- `sorted(...)` on strings. -/
def sortStr (l : List Str) : List Str := l.foldr insertSorted []

/-- `set.add` on a list-backed set of strings (first occurrence kept). -/
def setAdd (s : List Str) (x : Str) : List Str := if x ∈ s then s else s ++ [x]

def setAddAll (s : List Str) (xs : List Str) : List Str := xs.foldl setAdd s

/-! ### file system -/

def lookupKind : Tree → Path → Option Kind
  | [], _ => none
  | (q, k) :: t, p => if q = p then some k else lookupKind t p

/-- Kind of the object with component path `p`; the working directory itself is `[]`. -/
def kindAt (t : Tree) : Path → Option Kind
  | [] => some .dir
  | c :: p => lookupKind t (c :: p)

/-- One step of path-name resolution: component `c` looked up from `cur`. -/
def resStep (t : Tree) (cur : Option Path) (c : Str) : Option Path :=
  match cur with
  | none => none
  | some p =>
    if kindAt t p ≠ some .dir then none            -- ENOTDIR
    else if c = [] ∨ c = ['.'] then some p
    else if c = ['.', '.'] then (if p = [] then none else some p.dropLast)
    else if (kindAt t (p ++ [c])).isSome then some (p ++ [c]) else none

/-- Resolution of a path string relative to the working directory. -/
def resolve (t : Tree) (s : Str) : Option Path :=
  match s with
  | [] => none                                      -- stat("") fails
  | '/' :: _ => none                                -- absolute: outside the modelled tree
  | _ => (splitOn '/' s).foldl (resStep t) (some [])

def pathExists (t : Tree) (s : Str) : Bool := (resolve t s).isSome

def isDir (t : Tree) (s : Str) : Bool :=
  match resolve t s with
  | some p => kindAt t p == some .dir
  | none => false

def isFile (t : Tree) (s : Str) : Bool :=
  match resolve t s with
  | some p => kindAt t p == some .file
  | none => false

/-- `os.path.join` (two arguments, POSIX). -/
def pjoin (a b : Str) : Str :=
  if b.head? = some '/' then b
  else if a = [] ∨ a.getLast? = some '/' then a ++ b
  else a ++ '/' :: b

/-- `str.rstrip('/')`. -/
def rstripSlash (s : Str) : Str := (s.reverse.dropWhile (· = '/')).reverse

/-- `os.path.split` (POSIX). -/
def psplit (p : Str) : Str × Str :=
  let tail := (p.reverse.takeWhile (· ≠ '/')).reverse
  let head := (p.reverse.dropWhile (· ≠ '/')).reverse
  let head' := if head ≠ [] ∧ !(head.all (· = '/')) then rstripSlash head else head
  (head', tail)

def stripPrefix : Path → Path → Option Path
  | [], q => some q
  | _ :: _, [] => none
  | a :: p, b :: q => if a = b then stripPrefix p q else none

/-- Names in the directory with component path `P` (`os.scandir`; `dironly` keeps directories). -/
def listDir (t : Tree) (P : Path) (dironly : Bool) : List Str :=
  t.filterMap fun e =>
    match stripPrefix P e.1 with
    | some [n] => if !dironly || e.2 == .dir then some n else none
    | _ => none

/-! ### fnmatch -/

inductive SetItem
  | single (c : Char)
  | range (lo hi : Char)
  deriving Repr, DecidableEq

def SetItem.has : SetItem → Char → Bool
  | .single a, c => a == c
  | .range lo hi, c => decide (lo.toNat ≤ c.toNat) && decide (c.toNat ≤ hi.toNat)

inductive Tok
  | star
  | any
  | lit (c : Char)
  | set (neg : Bool) (items : List SetItem)
  deriving Repr, DecidableEq

/-- Members of a bracket expression (the text between `[`/`[!` and the closing `]`). -/
def setItems : Str → List SetItem
  | lo :: '-' :: hi :: rest => .range lo hi :: setItems rest
  | c :: rest => .single c :: setItems rest
  | [] => []

def SetItem.live : SetItem → Bool
  | .single _ => true
  | .range lo hi => decide (lo.toNat ≤ hi.toNat)

/-- `fnmatch.translate` deletes empty ranges (`lo > hi`) from the text of a bracket expression and
only then looks at its first character: a `!` that has become first this way negates the set
(CPython quirk, mirrored: `[b-a!]` matches any character, `[b-a!x]` anything but `x`,
`[b-a!-x]` anything but `-` and `x`). -/
def mkSet (neg : Bool) (items : List SetItem) : Tok :=
  let live := items.filter SetItem.live
  if neg then .set true live
  else match live with
    | .single '!' :: rest => .set true rest
    | .range '!' hi :: rest => .set true (.single '-' :: .single hi :: rest)
    | _ => .set false live

/-- `cs` is the text after a `[`.  If the bracket expression is closed: its token and the number
of characters of `cs` it consumes (closing `]` included). -/
def closeSet (cs : Str) : Option (Tok × Nat) :=
  let neg := cs.head? = some '!'
  let body := if neg then cs.drop 1 else cs
  let lead : Str := if body.head? = some ']' then [']'] else []
  let body' := body.drop lead.length
  if ']' ∈ body' then
    let inner := body'.takeWhile (· ≠ ']')
    some (mkSet neg (setItems (lead ++ inner)), (if neg then 1 else 0) + lead.length + inner.length + 1)
  else none

/-- `fnmatch.translate`, as a token list.  `skip` = characters still to be skipped because
they belong to a bracket expression already emitted. -/
def parsePat : Str → Nat → List Tok
  | [], _ => []
  | _ :: cs, k + 1 => parsePat cs k
  | c :: cs, 0 =>
    if c = '*' then .star :: parsePat cs 0
    else if c = '?' then .any :: parsePat cs 0
    else if c = '[' then
      match closeSet cs with
      | none => .lit '[' :: parsePat cs 0
      | some (tok, k) => tok :: parsePat cs k
    else .lit c :: parsePat cs 0

def suffixes : Str → List Str
  | [] => [[]]
  | c :: cs => (c :: cs) :: suffixes cs

def matchToks : List Tok → Str → Bool
  | [], n => n.isEmpty
  | .star :: ts, n => (suffixes n).any fun m => matchToks ts m
  | .any :: _, [] => false
  | .any :: ts, _ :: n => matchToks ts n
  | .lit _ :: _, [] => false
  | .lit a :: ts, c :: n => a == c && matchToks ts n
  | .set _ _ :: _, [] => false
  | .set neg items :: ts, c :: n => ((items.any fun i => i.has c) != neg) && matchToks ts n

/-- `fnmatch.fnmatchcase(name, pat)`. -/
def globMatch (pat name : Str) : Bool := matchToks (parsePat pat 0) name

/-! ### glob.glob (recursive = False, include_hidden = False) -/

def hasMagic (s : Str) : Bool := s.any fun c => c = '*' || c = '?' || c = '['

def isHidden (s : Str) : Bool := s.head? = some '.'

/-- glob's private `_join`. -/
def gjoin (a b : Str) : Str := if a = [] then b else if b = [] then a else pjoin a b

def resolveDir (t : Tree) (s : Str) : Option Path :=
  match resolve t s with
  | some p => if kindAt t p = some .dir then some p else none
  | none => none

/-- `_glob1`: names in `dir` (the working directory when empty) matching `pat`. -/
def glob1 (t : Tree) (dir pat : Str) (dironly : Bool) : List Str :=
  match resolveDir t (if dir = [] then ['.'] else dir) with
  | none => []
  | some P =>
    let names := listDir t P dironly
    let names := if isHidden pat then names else names.filter fun n => !isHidden n
    names.filter (globMatch pat)

/-- `_glob0`. -/
def glob0 (t : Tree) (dir base : Str) : List Str :=
  if base ≠ [] then (if pathExists t (gjoin dir base) then [base] else [])
  else (if isDir t dir then [base] else [])

/-- `_iglob`, by recursion on fuel (each recursive call is on `dirname`, a proper prefix). -/
def iglobF (t : Tree) : Nat → Str → Bool → List Str
  | 0, _, _ => []
  | n + 1, pathname, dironly =>
    let dirname := (psplit pathname).1
    let basename := (psplit pathname).2
    if !hasMagic pathname then
      if basename ≠ [] then (if pathExists t pathname then [pathname] else [])
      else (if isDir t dirname then [pathname] else [])
    else if dirname = [] then glob1 t [] basename dironly
    else
      let dirs := if dirname ≠ pathname && hasMagic dirname then iglobF t n dirname true else [dirname]
      dirs.flatMap fun d =>
        (if hasMagic basename then glob1 t d basename dironly else glob0 t d basename).map (pjoin d)

def glob (t : Tree) (pathname : Str) : List Str := iglobF t (pathname.length + 1) pathname false

/-! ### the scanner -/

structure Opts where
  recurse : Bool
  exts : Str          -- the `eligible_extensions` string, comma separated
  listOnly : Bool
  deriving Repr, DecidableEq

inductive Msg
  | globNoMatch (p : Str)   -- Provided glob path '…' did not match any files.
  | notExist (p : Str)      -- Provided path '…' does not exist.
  | notValid (p : Str)      -- Provided file path '…' is not a valid file. Skipping.
  | noMatching              -- No matching files found.
  deriving Repr, DecidableEq

/-- `__is_file_eligible_to_scan`. -/
def eligible (t : Tree) (exts : List Str) (s : Str) : Bool :=
  isFile t s && exts.any fun e => endsWith s e

/-- Root string `os.walk(top)` reports for the sub-directory reached through `dirs`. -/
def walkRoot (top : Str) (dirs : List Str) : Str := dirs.foldl pjoin top

def stripOneSep (s : Str) : Str := if s.getLast? = some '/' then s.dropLast else s

/-- `__process_next_path_directory`: eligible files of the directory `P` named by string `top`. -/
def walkDir (t : Tree) (recurse : Bool) (exts : List Str) (top : Str) (P : Path) : List Str :=
  t.filterMap fun e =>
    match e.2, stripPrefix P e.1 with
    | .file, some rel =>
      match rel.getLast? with
      | none => none
      | some f =>
        let dirs := rel.dropLast
        if !recurse && dirs ≠ [] then none
        else
          let s := stripOneSep (walkRoot top dirs) ++ '/' :: f
          if eligible t exts s then some s else none
    | _, _ => none

structure PathResult where
  found : Bool
  files : List Str
  msgs : List Msg
  deriving Repr, DecidableEq

/-- `__process_next_path`. -/
def processPath (t : Tree) (recurse : Bool) (exts : List Str) (p : Str) : PathResult :=
  match resolve t p with
  | none => ⟨false, [], [.notExist p]⟩
  | some P =>
    if kindAt t P = some .dir then ⟨true, walkDir t recurse exts p P, []⟩
    else if eligible t exts p then ⟨true, [p], []⟩
    else ⟨false, [], [.notValid p]⟩

def isGlobArg (a : Str) : Bool := a.contains '*' || a.contains '?'

structure St where
  files : List Str     -- files_to_parse (a set)
  msgs : List Msg      -- handle_error calls so far
  deriving Repr, DecidableEq

def St.absorb (st : St) (r : PathResult) : St := ⟨setAddAll st.files r.files, st.msgs ++ r.msgs⟩

/-- The `for next_path in eligible_paths` loop; the flag is `did_error_scanning_files`. -/
def scanLoop (t : Tree) (recurse : Bool) (exts : List Str) : List Str → St → St × Bool
  | [], st => (st, false)
  | a :: rest, st =>
    if isGlobArg a then
      let gs := glob t a
      if gs.isEmpty then (⟨st.files, st.msgs ++ [.globNoMatch a]⟩, true)
      else scanLoop t recurse exts rest (gs.foldl (fun s g => s.absorb (processPath t recurse exts g)) st)
    else
      let r := processPath t recurse exts a
      if r.found then scanLoop t recurse exts rest (st.absorb r)
      else (st.absorb r, true)

structure Result where
  files : List Str            -- sorted_files_to_parse
  didError : Bool             -- did_error_scanning_files
  didList : Bool              -- did_only_list_files
  msgs : List Msg             -- handle_error calls, in order
  output : Option (List Str)  -- handle_output("\n".join(files)) if called
  deriving Repr, DecidableEq

/-- `determine_files_to_scan`. -/
def discover (t : Tree) (o : Opts) (args : List Str) : Result :=
  let exts := splitOn ',' o.exts
  let r := scanLoop t o.recurse exts args ⟨[], []⟩
  let files := sortStr r.1.files
  let out : Option (List Str) := if o.listOnly && !files.isEmpty then some files else none
  let msgs := if o.listOnly && files.isEmpty then r.1.msgs ++ [.noMatching] else r.1.msgs
  ⟨files, r.2, o.listOnly, msgs, out⟩

/-- What `main.py` does with the triple. -/
inductive Outcome
  | listed (files : List Str)    -- files printed; SUCCESS
  | listedNone                   -- list mode, nothing to list; NO_FILES_TO_SCAN
  | noFiles                      -- "No matching files found."; NO_FILES_TO_SCAN
  | scan (files : List Str)      -- these files are handed to the scanner, in this order
  deriving Repr, DecidableEq

def consume (r : Result) : Outcome :=
  if r.didList then (if r.files.isEmpty then .listedNone else .listed r.files)
  else if r.didError then .noFiles
  else .scan r.files

/-- `is_valid_comma_separated_extension_list` returns `argument.lower()` (ASCII part). -/
def lowerAscii (s : Str) : Str :=
  s.map fun c => if 'A' ≤ c ∧ c ≤ 'Z' then Char.ofNat (c.toNat + 32) else c

end Verif.Model.FileScan
