/-
  CommonMark 0.31.2 §6.2 (emphasis and strong emphasis) — the definitions the code is compared with, stated as
  propositions over the strings before and after a delimiter run.  `W` / `P` are the classes "Unicode whitespace
  character" / "Unicode punctuation character"; the theorems instantiate them with the classes the code computes
  (`Constants.unicode_whitespace`, `Constants.punctuation_characters`) and say separately how those relate to §2.1.
  Definitions only, core Lean.
-/
import Verif.Model.Emphasis
namespace Verif.Model.Emphasis.Spec

/-- §2.1 "A Unicode whitespace character is a character in the Unicode Zs general category, or a tab (U+0009),
    line feed (U+000A), form feed (U+000C), or carriage return (U+000D)."  Zs (stable since Unicode 4.0 up to 16.0):
    U+0020, U+00A0, U+1680, U+2000–U+200A, U+202F, U+205F, U+3000. -/
def UnicodeWhitespace (c : Char) : Prop :=
  let n := c.toNat
  n = 0x9 ∨ n = 0xA ∨ n = 0xC ∨ n = 0xD ∨
  n = 0x20 ∨ n = 0xA0 ∨ n = 0x1680 ∨ (0x2000 ≤ n ∧ n ≤ 0x200A) ∨ n = 0x202F ∨ n = 0x205F ∨ n = 0x3000

/-- §2.1 ASCII punctuation character -/
def AsciiPunctuation (c : Char) : Prop :=
  let n := c.toNat
  (0x21 ≤ n ∧ n ≤ 0x2F) ∨ (0x3A ≤ n ∧ n ≤ 0x40) ∨ (0x5B ≤ n ∧ n ≤ 0x60) ∨ (0x7B ≤ n ∧ n ≤ 0x7E)

instance : DecidablePred AsciiPunctuation := fun c => by unfold AsciiPunctuation; exact inferInstance
instance : DecidablePred UnicodeWhitespace := fun c => by unfold UnicodeWhitespace; exact inferInstance

variable (W P : Char → Prop)

/-- "For purposes of this definition, the beginning and the end of the line count as Unicode whitespace."
    `prec` is the text before the run (its LAST character is the neighbour), `foll` the text after it. -/
def PrecWs (prec : Str) : Prop := prec = [] ∨ ∃ c, prec.getLast? = some c ∧ W c
def PrecPunct (prec : Str) : Prop := ∃ c, prec.getLast? = some c ∧ P c
def FollWs (foll : Str) : Prop := foll = [] ∨ ∃ c, foll.head? = some c ∧ W c
def FollPunct (foll : Str) : Prop := ∃ c, foll.head? = some c ∧ P c

/-- "A left-flanking delimiter run is a delimiter run that is (1) not followed by Unicode whitespace, and either
    (2a) not followed by a Unicode punctuation character, or (2b) followed by a Unicode punctuation character and
    preceded by Unicode whitespace or a Unicode punctuation character." -/
def LeftFlanking (prec foll : Str) : Prop :=
  ¬ FollWs W foll ∧ (¬ FollPunct P foll ∨ (FollPunct P foll ∧ (PrecWs W prec ∨ PrecPunct P prec)))

/-- "A right-flanking delimiter run is a delimiter run that is (1) not preceded by Unicode whitespace, and either
    (2a) not preceded by a Unicode punctuation character, or (2b) preceded by a Unicode punctuation character and
    followed by Unicode whitespace or a Unicode punctuation character." -/
def RightFlanking (prec foll : Str) : Prop :=
  ¬ PrecWs W prec ∧ (¬ PrecPunct P prec ∨ (PrecPunct P prec ∧ (FollWs W foll ∨ FollPunct P foll)))

/-- rules 1, 2 (and 5, 6): `*` can open iff left-flanking; `_` can open iff left-flanking and either not
    right-flanking or right-flanking preceded by punctuation.  GFM strikethrough (the code's reading): a `~` run of
    one or two characters follows the `*` rule, a longer one never opens. -/
def CanOpen (ch : Char) (runLen : Nat) (prec foll : Str) : Prop :=
  if ch = '*' then LeftFlanking W P prec foll
  else if ch = '~' then runLen < 3 ∧ LeftFlanking W P prec foll
  else LeftFlanking W P prec foll ∧
    (¬ RightFlanking W P prec foll ∨ (RightFlanking W P prec foll ∧ PrecPunct P prec))

/-- rules 3, 4 (and 7, 8) -/
def CanClose (ch : Char) (runLen : Nat) (prec foll : Str) : Prop :=
  if ch = '*' then RightFlanking W P prec foll
  else if ch = '~' then runLen < 3 ∧ RightFlanking W P prec foll
  else RightFlanking W P prec foll ∧
    (¬ LeftFlanking W P prec foll ∨ (LeftFlanking W P prec foll ∧ FollPunct P foll))

/-- rules 9, 10: "If one of the delimiters can both open and close (strong) emphasis, then the sum of the lengths of the
    delimiter runs containing the opening and closing delimiters must not be a multiple of 3 unless both lengths are
    multiples of 3."  `lo`, `lc` are those two lengths. -/
def RuleOf3 (openerBoth closerBoth : Prop) (lo lc : Int) : Prop :=
  (openerBoth ∨ closerBoth) → (lo + lc) % 3 = 0 → (lo % 3 = 0 ∧ lc % 3 = 0)

end Verif.Model.Emphasis.Spec
