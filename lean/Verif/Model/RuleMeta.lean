/-
  Shapes of the rule metadata tables (code side by reflection, documentation side from
  `newdocs/src/plugins/rule_*.md`) and the function that lists their differences.
  The tables themselves are generated: `Verif/Gen/RuleMeta.lean`.
-/
namespace Verif.Model.RuleMeta

/-- A configuration item: name, type (`boolean` / `integer` / `string`), default as text
(`True`/`False`, decimal, the string itself, `None`). -/
structure Item where
  name : String
  ty : String
  dflt : String
  deriving DecidableEq, Repr, Inhabited

structure CodeRule where
  id : String
  names : List String
  enabledByDefault : Bool
  supportsFix : Bool
  fixLevel : Int
  iface : Nat
  getters : List Item          -- typed getter calls of `initialize_from_config`
  query : List Item            -- `query_config()` under the empty configuration
  validated : List String      -- getter names that pass a `valid_value_fn`
  deriving DecidableEq, Repr, Inhabited

structure DocRule where
  file : String
  titleId : String
  idents : List String         -- the `Aliases` row: id first
  autofix : String             -- the `Autofix Available` cell, verbatim
  enabledByDefault : Bool      -- the `Enabled By Default` cell
  prefixes : List String       -- the `Prefixes` table
  enabledRow : String          -- default of the `enabled` row of the Configuration table
  items : List Item            -- the other rows
  deriving DecidableEq, Repr, Inhabited

/-- One disagreement between the code and its documentation page. -/
structure Diff where
  rule : String
  field : String
  code : List String
  doc : List String
  deriving DecidableEq, Repr, Inhabited

def CodeRule.identifiers (r : CodeRule) : List String := r.id :: r.names

def boolText (b : Bool) : String := if b then "True" else "False"

/-- "Yes" and "Yes*" promise a fix; "No", "No*", "Pending", "Pending review" do not. -/
def docPromisesFix (s : String) : Bool := s == "Yes" || s == "Yes*"

def itemDiffs (rid : String) (code doc : List Item) : List Diff :=
  (code.filterMap fun c =>
      match doc.find? (·.name == c.name) with
      | none => some ⟨rid, "item " ++ c.name, [c.ty, c.dflt], []⟩
      | some d => if c.ty == d.ty && c.dflt == d.dflt then none
                  else some ⟨rid, "item " ++ c.name, [c.ty, c.dflt], [d.ty, d.dflt]⟩)
  ++ (doc.filterMap fun d =>
      if code.any (·.name == d.name) then none else some ⟨rid, "item " ++ d.name, [], [d.ty, d.dflt]⟩)

def ruleDiffs (c : CodeRule) (d : DocRule) : List Diff :=
  (if c.identifiers == d.idents then [] else [⟨c.id, "identifiers", c.identifiers, d.idents⟩])
  ++ (if c.identifiers.map (fun i => "plugins." ++ i ++ ".") == d.prefixes then []
      else [⟨c.id, "prefixes", c.identifiers.map (fun i => "plugins." ++ i ++ "."), d.prefixes⟩])
  ++ (if c.enabledByDefault == d.enabledByDefault then []
      else [⟨c.id, "enabled by default", [boolText c.enabledByDefault], [boolText d.enabledByDefault]⟩])
  ++ (if boolText c.enabledByDefault == d.enabledRow then []
      else [⟨c.id, "default of `enabled` row", [boolText c.enabledByDefault], [d.enabledRow]⟩])
  ++ (if c.supportsFix == docPromisesFix d.autofix then []
      else [⟨c.id, "autofix", [boolText c.supportsFix], [d.autofix]⟩])
  ++ itemDiffs c.id c.getters d.items

/-- Every difference between the registered rules and the documentation pages. -/
def diffs (code : List CodeRule) (doc : List DocRule) : List Diff :=
  (code.flatMap fun c =>
      match doc.find? (·.titleId == c.id) with
      | none => [⟨c.id, "page", ["registered"], []⟩]
      | some d => ruleDiffs c d)
  ++ (doc.filterMap fun d =>
      if code.any (·.id == d.titleId) then none else some ⟨d.titleId, "page", [], [d.file]⟩)

/-- `query_config()` under the empty configuration reports exactly the getters' defaults
(a `None` default is reported with type `none`). -/
def queryDiffs (code : List CodeRule) : List Diff :=
  code.flatMap fun c =>
    if c.query.isEmpty then [] else
    itemDiffs c.id (c.getters.map fun g => if g.dflt == "None" then { g with ty := "none" } else g) c.query

end Verif.Model.RuleMeta
