/-
  Faithful model of the rule engine in scan mode.

  Mirrors `PluginManager.starting_new_file / next_token / next_line / completed_file`
  (one loop over the per-callback plug-in list, in plug-in-id order),
  `PluginScanContext.add_triggered_rule / report_on_triggered_rules`,
  `PluginScanFailure.__lt__`, `PluginManager.log_scan_failure` (pragma filter, counter),
  `FileScanHelper.__scan_file / __process_file_scan / __process_lines_in_file /
  __scan_specific_file` and the multi-file loop of `process_files_to_scan`.

  Core Lean only (linked into the driver).
-/
namespace Verif.Model.Engine

/-- One triggered rule (`PluginScanFailure` without the file name). -/
structure Rep where
  line  : Nat
  col   : Nat
  rid   : String
  extra : String
  deriving DecidableEq, Repr, Inhabited

/-- `PluginScanFailure.__lt__`: line, then column, then rule id. -/
def Rep.lt (a b : Rep) : Bool :=
  if a.line ≠ b.line then a.line < b.line
  else if a.col ≠ b.col then a.col < b.col
  else a.rid < b.rid

/-- `sorted()` only ever asks `b < a`; this is the "not greater" relation it sorts by. -/
def Rep.le (a b : Rep) : Bool := !(Rep.lt b a)

/-- Python's `sorted` is a stable sort driven by `__lt__`. -/
def sortReps (l : List Rep) : List Rep := l.mergeSort Rep.le

/-- The four callbacks, as events delivered to a rule. -/
inductive Event (τ : Type) where
  | start
  | token (t : τ)
  | line (n : Nat) (s : String)
  | done (n : Nat)
  deriving Repr

inductive Action | start | token | line | done
  deriving DecidableEq, Repr

def Event.action {τ : Type} : Event τ → Action
  | .start => .start | .token _ => .token | .line _ _ => .line | .done _ => .done

/-- A rule plug-in.  A callback returns the new state and `some reports`, or `none`
when it raised (the state it leaves behind is whatever it is). -/
structure Rule (τ : Type) where
  id : String
  σ : Type
  hasStart : Bool
  hasToken : Bool
  hasLine  : Bool
  hasDone  : Bool
  onStart : σ → σ × Bool                              -- Bool: returned normally
  onToken : σ → τ → σ × Option (List Rep)
  onLine  : σ → Nat → String → σ × Option (List Rep)
  onDone  : σ → Nat → σ × Option (List Rep)

variable {τ : Type}

def Rule.handles (r : Rule τ) : Event τ → Bool
  | .start => r.hasStart | .token _ => r.hasToken | .line _ _ => r.hasLine | .done _ => r.hasDone

def Rule.call (r : Rule τ) (s : r.σ) : Event τ → r.σ × Option (List Rep)
  | .start => let p := r.onStart s; (p.1, if p.2 then some [] else none)
  | .token t => r.onToken s t
  | .line n l => r.onLine s n l
  | .done n => r.onDone s n

/-- Per-rule component of the engine state: the plug-in instance's state and the
calls it has received (the life-cycle log of C14). -/
structure Comp (r : Rule τ) where
  st  : r.σ
  log : List (Event τ)

/-- Heterogeneous vector of components, one per rule, in plug-in-id order. -/
def States : List (Rule τ) → Type
  | [] => Unit
  | r :: rs => Comp r × States rs

/-- What the scan context accumulates while one file is processed. -/
structure Acc where
  reps  : List Rep                      -- `context.__reported`, chronological
  fault : Option (String × Action)      -- first BadPluginError: (plugin id, action)
  deriving Repr

def Acc.empty : Acc := ⟨[], none⟩

/-- One iteration of a dispatch loop: one plug-in, one event.  After a fault the
exception is propagating, nobody is called any more. -/
def stepOne (r : Rule τ) (c : Comp r) (ev : Event τ) (acc : Acc) : Comp r × Acc :=
  if acc.fault.isSome then (c, acc)
  else if r.handles ev then
    let p := r.call c.st ev
    match p.2 with
    | some out => (⟨p.1, c.log ++ [ev]⟩, { acc with reps := acc.reps ++ out })
    | none => (⟨p.1, c.log ++ [ev]⟩, { acc with fault := some (r.id, ev.action) })
  else (c, acc)

/-- One event delivered to every rule in order (`for next_plugin in …`). -/
def dispatch : (rs : List (Rule τ)) → States rs → Event τ → Acc → States rs × Acc
  | [], _, _, acc => ((), acc)
  | r :: rs, (c, cs), ev, acc =>
    let p := stepOne r c ev acc
    let q := dispatch rs cs ev p.2
    ((p.1, q.1), q.2)

def runEvents : (rs : List (Rule τ)) → States rs → List (Event τ) → Acc → States rs × Acc
  | _, ss, [], acc => (ss, acc)
  | rs, ss, ev :: evs, acc =>
    let p := dispatch rs ss ev acc
    runEvents rs p.1 evs p.2

/-- `enumerate(lines, 1)` as line events. -/
def lineEvents : Nat → List String → List (Event τ)
  | _, [] => []
  | n, l :: ls => .line n l :: lineEvents (n + 1) ls

/-- The event sequence of one file: tokens, lines 1..n with their text, completion
with line number n+1 (`__process_file_scan`, `__process_lines_in_file`). -/
def bodyEvents (toks : List τ) (lines : List String) : List (Event τ) :=
  toks.map .token ++ lineEvents 1 lines ++ [.done (lines.length + 1)]

/-! ### Pragmas as compiled (`__document_pragmas`, `__document_pragma_ranges`) -/

structure Pragmas where
  next   : List (Nat × List String)        -- target line ↦ ids   (dict; later key wins on insert)
  ranges : List (Nat × Nat × List String)  -- (first, last, ids)
  deriving Repr, Inhabited

def Pragmas.none : Pragmas := ⟨[], []⟩

/-- `log_scan_failure`'s filter: is this report swallowed by a pragma? -/
def Pragmas.suppressed (p : Pragmas) (r : Rep) : Bool :=
  let rid := r.rid.toLower
  (match p.next.lookup r.line with
   | some ids => ids.contains rid
   | none => false)
  || p.ranges.any fun (i, j, k) => i ≤ r.line && r.line ≤ j && k.contains rid

/-- `report_on_triggered_rules`: sort, filter through the pragmas, print. -/
def printed (p : Pragmas) (reps : List Rep) : List Rep :=
  (sortReps reps).filter fun r => !p.suppressed r

/-! ### One file, many files -/

/-- What the tokenizer hands over for one file. -/
structure FileIn (τ : Type) where
  toks    : Option (List τ)   -- `none`: BadTokenizationError
  lines   : List String
  pragmas : Pragmas

inductive FileErr | plugin (id : String) (a : Action) | tokenization
  deriving DecidableEq, Repr

structure FileOut where
  printed : List Rep
  err     : Option FileErr
  deriving Repr

/-- `__scan_file`: start callbacks; tokenize; tokens, lines, completion; report (also on the
exception path). -/
def scanFile (rs : List (Rule τ)) (ss : States rs) (f : FileIn τ) : States rs × FileOut :=
  let p := dispatch rs ss .start Acc.empty
  match p.2.fault with
  | some (id, a) => (p.1, ⟨[], some (.plugin id a)⟩)
  | none =>
    match f.toks with
    | none => (p.1, ⟨[], some .tokenization⟩)
    | some toks =>
      let q := runEvents rs p.1 (bodyEvents toks f.lines) p.2
      (q.1, ⟨printed f.pragmas q.2.reps, q.2.fault.map fun (id, a) => .plugin id a⟩)

structure RunOut where
  files    : List FileOut        -- one entry per file that was started
  failures : Nat                 -- `number_of_scan_failures`
  anyFail  : Bool
  deriving Repr

/-- `process_files_to_scan` in scan mode: files in order; an error stops the run unless
`--continue-on-error`. -/
def scanFiles (rs : List (Rule τ)) (cont : Bool) : States rs → List (FileIn τ) → States rs × RunOut
  | ss, [] => (ss, ⟨[], 0, false⟩)
  | ss, f :: fs =>
    let p := scanFile rs ss f
    if p.2.err.isSome && !cont then (p.1, ⟨[p.2], p.2.printed.length, true⟩)
    else
      let q := scanFiles rs cont p.1 fs
      (q.1, ⟨p.2 :: q.2.files, p.2.printed.length + q.2.failures, p.2.err.isSome || q.2.anyFail⟩)

/-! ### A rule run alone (the reference for C12 / C13 / C14) -/

def stepAlone (r : Rule τ) (c : Comp r) (ev : Event τ) (acc : Acc) : Comp r × Acc := stepOne r c ev acc

def runAlone (r : Rule τ) : Comp r → List (Event τ) → Acc → Comp r × Acc
  | c, [], acc => (c, acc)
  | c, ev :: evs, acc =>
    let p := stepOne r c ev acc
    runAlone r p.1 evs p.2

end Verif.Model.Engine
