import Verif.Model.Recognisers
/-
  Faithful model of the coalesce pass (core Lean only).

  Sources:
    pymarkdown/coalesce/coalesce_processor.py   coalesce_text_blocks (l.28-70), __calculate_final_whitespaces (l.73-98),
                                                __coalesce_with_previous (l.101-140), __coalesce_with_blank_line (l.143-157)
    pymarkdown/tokens/text_markdown_token.py    remove_final_whitespace (l.149-188), combine (l.190-252),
                                                __combine_only_text_blocks (l.254-268), __combine_handle_whitespace (l.270-302)
    pymarkdown/tokens/paragraph_markdown_token.py / setext_heading_markdown_token.py   set_final_whitespace
    pymarkdown/tokens/indented_code_block_markdown_token.py                            add_indented_whitespace

  A token is its kind plus exactly the fields the pass reads or writes; everything else of a non-text token
  (position, the other payload fields) is the opaque `tag`, which the pass never touches.
  Python's `coalesced_list` is the list `acc` kept REVERSED (head = `coalesced_list[-1]`, second = `[-2]`).
  Where Python raises, the model returns the error: `IndexError` for `first_pass_results[0]` on the empty list and for
  `coalesced_list[-2]` on a one-element list, `AttributeError` for `.token_text` of a blank-line token in
  `__combine_only_text_blocks`, `AssertionError` for the `assert`s.

  Abstraction: Python mutates the token objects in place (the merged text token IS the first text token of the run,
  the paragraph / code-block token IS the input object); the model returns new values.  The two agree as long as no
  token object occurs twice in the input list (the tie builds / observes lists of distinct objects).
-/
namespace Verif.Model.Coalesce
open Verif.Model.Recognisers (Str calcLength collectBackwardsOneOf asciiWs TAB slice)

inductive Err where
  | index        -- IndexError
  | assertion    -- AssertionError
  | attribute    -- AttributeError
  deriving Repr, DecidableEq

def NL : Char := '\n'
/-- `ParserHelper.replace_noop_character` -/
def NOOP : Char := '\x03'

/-- the fields of a `TextMarkdownToken` -/
structure Text where
  tt : Str                 -- token_text
  ew : Str                 -- extracted_whitespace
  endWs : Option Str       -- end_whitespace
  tab : Option Str         -- tabified_text
  line : Nat
  col : Nat
  deriving Repr, DecidableEq

inductive Tok where
  | text (x : Text)
  | blank (ew : Str) (line col : Nat)          -- BlankLineMarkdownToken: extracted_whitespace (= extra_data), position
  | para (finalWs : Str) (tag : Nat)           -- ParagraphMarkdownToken: final_whitespace
  | setext (finalWs : Str) (tag : Nat)         -- SetextHeadingMarkdownToken: final_whitespace
  | icode (ew indWs : Str) (tag : Nat)         -- IndentedCodeBlockMarkdownToken: extracted_whitespace, indented_whitespace
  | fcode (tag : Nat)                          -- FencedCodeBlockMarkdownToken
  | other (tag : Nat)                          -- every other token (end tokens, containers, html-block, atx, …)
  deriving Repr, DecidableEq

namespace Tok
def isText : Tok → Bool | .text _ => true | _ => false
def isBlank : Tok → Bool | .blank .. => true | _ => false
def isIcode : Tok → Bool | .icode .. => true | _ => false
/-- `is_code_block` = `is_indented_code_block or is_fenced_code_block` -/
def isCode : Tok → Bool | .icode .. => true | .fcode _ => true | _ => false
/-- `is_paragraph or is_setext_heading` -/
def isPara : Tok → Bool | .para .. => true | .setext .. => true | _ => false
end Tok

/-- Python truthiness of an `Optional[str]` -/
def truthy : Option Str → Bool
  | some (_ :: _) => true
  | _ => false

/-- `a or b` for an `Optional[str]` `a` -/
def orElse (o : Option Str) (d : Str) : Str :=
  match o with
  | some (c :: cs) => c :: cs
  | _ => d

/-- `remove_leading_spaces` of `__coalesce_with_previous` (l.114-124), from the token at `coalesced_list[-2]` -/
def rlsOf : Tok → Int
  | .icode ew _ _ => if ew.contains TAB then (calcLength ew 0 : Nat) else (ew.length : Nat)
  | .para .. => -1
  | .setext .. => -1
  | _ => 0

/-- `__combine_handle_whitespace(remove_leading_spaces, whitespace_present)` →
`(removed_whitespace, prefix_whitespace, new self.__extracted_whitespace)` -/
def combineHandleWs (selfEw : Str) (rls : Int) (ws : Str) : Str × Str × Str :=
  if rls = 0 then ([], ws, selfEw)
  else if rls = -1 then ([], [], selfEw ++ NL :: ws)
  else if (ws.length : Int) < rls then (ws, [], selfEw)
  else (ws.take rls.toNat, ws.drop rls.toNat, selfEw)

/-- the common tail of `combine` (l.235-252) -/
def combineCore (x : Text) (textTo : Str) (tabTo : Option Str) (ws bls : Str) (rls : Int) : Text × Str :=
  let r := combineHandleWs x.ew rls ws
  let tab' := if truthy x.tab || truthy tabTo
    then some (orElse x.tab x.tt ++ NL :: (bls ++ r.2.1 ++ orElse tabTo textTo))
    else x.tab
  ({ x with tt := x.tt ++ NL :: (bls ++ r.2.1 ++ textTo), ew := r.2.2, tab := tab' }, r.1)

/-- `TextMarkdownToken.combine(other, remove_leading_spaces, False)` → (new self, removed whitespace) -/
def combine (x : Text) (t : Tok) (rls : Int) : Except Err (Text × Str) :=
  match t with
  | .blank ew _ _ => .ok (combineCore x [] (some []) ew [NOOP] rls)
  | .text y => .ok (combineCore x y.tt y.tab y.ew [] rls)
  | _ => .error .assertion           -- `assert other_text_token.is_text`

/-- `__combine_only_text_blocks` (combine with `only_change_text_blocks=True`) -/
def combineOnly (x : Text) (t : Tok) : Except Err (Text × Str) :=
  match t with
  | .text y =>
    let e := match y.endWs with
      | none => x.endWs
      | some e2 => match x.endWs with
        | some e1 => some (e1 ++ e2)
        | none => some e2
    .ok ({ x with tt := x.tt ++ y.tt, ew := x.ew ++ y.ew, endWs := e }, [])
  | _ => .error .attribute           -- `.token_text` of a token that is not a text token

/-- `add_indented_whitespace` on the token at `[-2]` when it is an indented code block (l.137-139) -/
def addIndented (h : Tok) (removed : Str) : Tok :=
  match h with
  | .icode ew ind tag => .icode ew (ind ++ NL :: removed) tag
  | t => t

/-- `__coalesce_with_blank_line`: the replacement text token -/
def blankAsText (ew : Str) (line col : Nat) : Tok :=
  .text { tt := [], ew := ew, endWs := none, tab := none, line := line, col := col }

/-- one iteration of the `for coalesce_index` loop (l.36-62); `acc` = reversed `coalesced_list` -/
def step (only : Bool) (acc : List Tok) (t : Tok) : Except Err (List Tok) :=
  match acc with
  | [] => .error .index                                   -- `coalesced_list[-1]`
  | .text x :: below =>
    -- __coalesce_with_previous
    if !t.isText && !t.isBlank then .ok (t :: acc)
    else match below with
      | [] => .error .index                               -- `coalesced_list[-2]`
      | h :: rest =>
        if !t.isText && !h.isCode then .ok (t :: acc)
        else
          match (if only then combineOnly x t else combine x t (rlsOf h)) with
          | .error e => .error e
          | .ok (x', removed) =>
            .ok (.text x' :: (if h.isIcode then addIndented h removed else h) :: rest)
  | last :: below =>
    if !only then
      match t with
      | .blank ew l c => if last.isCode then .ok (blankAsText ew l c :: last :: below) else .ok (t :: last :: below)
      | _ => .ok (t :: last :: below)
    else .ok (t :: last :: below)

def loop (only : Bool) (acc : List Tok) : List Tok → Except Err (List Tok)
  | [] => .ok acc
  | t :: rest =>
    match step only acc t with
    | .error e => .error e
    | .ok acc' => loop only acc' rest

def liftErr : Verif.Model.Recognisers.Err → Err
  | .index => .index
  | _ => .assertion

/-- `collect_backwards_while_one_of_characters_verified(s, -1, Constants.ascii_whitespace)` -/
def cbwVerified (s : Str) : Except Err (Nat × Nat) :=
  match collectBackwardsOneOf s (-1) asciiWs with
  | .error e => .error (liftErr e)
  | .ok none => .error .assertion
  | .ok (some r) => .ok r

/-- `remove_final_whitespace` → (new self, removed whitespace) -/
def removeFinalWs (x : Text) : Except Err (Text × Str) :=
  match cbwVerified x.tt with
  | .error e => .error e
  | .ok (n, idx) =>
    if n ≠ 0 then
      let removed := slice x.tt idx (idx + n)
      let tt' := x.tt.take idx
      if truthy x.tab then
        let tb := x.tab.getD []
        match cbwVerified tb with
        | .error e => .error e
        | .ok (n2, idx2) => .ok ({ x with tt := tt', tab := some (tb.take idx2) }, slice tb idx2 (idx2 + n2))
      else .ok ({ x with tt := tt' }, removed)
    else .ok (x, [])

/-- `set_final_whitespace` -/
def setFinal (p : Tok) (ws : Str) : Tok :=
  match p with
  | .para _ tag => .para ws tag
  | .setext _ tag => .setext ws tag
  | t => t

/-- `__calculate_final_whitespaces` over the forward list: every text token directly after a paragraph / setext token. -/
def calcFinal : List Tok → Except Err (List Tok)
  | [] => .ok []
  | p :: .text x :: rest =>
    if p.isPara then
      match removeFinalWs x with
      | .error e => .error e
      | .ok (x', removed) =>
        match calcFinal rest with
        | .error e => .error e
        | .ok rest' => .ok (setFinal p removed :: .text x' :: rest')
    else
      match calcFinal (.text x :: rest) with
      | .error e => .error e
      | .ok rest' => .ok (p :: rest')
  | p :: rest =>
    match calcFinal rest with
    | .error e => .error e
    | .ok rest' => .ok (p :: rest')

/-- the merge loop alone: `coalesced_list` after the `for` loop (forward order) -/
def merge (only : Bool) (ts : List Tok) : Except Err (List Tok) :=
  match ts with
  | [] => .error .index                                   -- `first_pass_results[0]`
  | t0 :: rest =>
    match loop only [t0] rest with
    | .error e => .error e
    | .ok acc => .ok acc.reverse

/-- `CoalesceProcessor.coalesce_text_blocks(first_pass_results, only_change_text_blocks)` -/
def coalesce (only : Bool) (ts : List Tok) : Except Err (List Tok) :=
  match merge only ts with
  | .error e => .error e
  | .ok l => if only then .ok l else calcFinal l

/-! ## The flattening: what a token list says about the lines of its leaf blocks

  A *segment* is a header token (any token that is not folded into a text run) and the run of line tokens that follow it:
  text tokens, and blank-line tokens when the header is a code block.  The content of a run is kept in columns:
  the whitespace column `ew`, the text column `tt`, the tab-preserving column `pri` (= `tabified_text or token_text`), and for
  an indented code block the per-line indentation that goes to the block token (`ind`).  Separator discipline
  (one `\n` between consecutive lines in every column that receives the line):
    * paragraph / setext header: `ew` and `tt` (`pri`) both grow by `\n` + the line's piece;
    * indented code header of width `n`: the first `n` characters of the line's whitespace go to `ind`, the rest stays in front
      of the text in `tt` (`pri`); a blank line leaves the no-op marker `\x03` in `tt` (`pri`), except as the first line of the run;
    * every other header: the line's whitespace stays in front of its text in `tt` (`pri`).
  At the end of a paragraph / setext run the trailing ASCII white space belongs to the header's `final_whitespace`: the segment
  records `pri ++ final_whitespace` and `tt` without its trailing white space.
-/

/-- `token_text[:first_non_whitespace_index]` — the text without trailing ASCII white space -/
def rstrip (s : Str) : Str :=
  match cbwVerified s with
  | .ok (_, idx) => s.take idx
  | .error _ => s

/-- header with the fields the pass writes erased -/
def erase : Tok → Tok
  | .para _ tag => .para [] tag
  | .setext _ tag => .setext [] tag
  | .icode ew _ tag => .icode ew [] tag
  | t => t

def finOf : Tok → Str
  | .para f _ => f
  | .setext f _ => f
  | _ => []

def indOf : Tok → Str
  | .icode _ ind _ => ind
  | _ => []

structure Run where
  line : Nat
  col : Nat
  ew : Str
  tt : Str
  pri : Str
  endWs : Option Str
  deriving Repr, DecidableEq

/-- the state of the flattening between two tokens -/
structure FSt where
  hdr : Option Tok      -- header of the open segment, erased
  ind : Str             -- its indented_whitespace so far
  fin : Str             -- its final_whitespace
  run : Option Run
  deriving Repr, DecidableEq

structure Seg where
  hdr : Option Tok
  ind : Str
  fin : Str
  run : Option Run
  deriving Repr, DecidableEq

def hdrIsCode (h : Option Tok) : Bool := match h with | some t => t.isCode | none => false
def hdrIsIcode (h : Option Tok) : Bool := match h with | some t => t.isIcode | none => false
def hdrIsPara (h : Option Tok) : Bool := match h with | some t => t.isPara | none => false
def hdrRls (h : Option Tok) : Int := match h with | some t => rlsOf t | none => 0

/-- is `t` a line of the open segment? -/
def isLine (h : Option Tok) (t : Tok) : Bool := t.isText || (t.isBlank && hdrIsCode h)

/-- the pieces of a line token -/
structure Pieces where
  ws : Str              -- its whitespace
  txt : Str             -- its text
  pri : Str             -- its tab-preserving text
  mark : Str            -- blank-line marker
  endWs : Option Str
  line : Nat
  col : Nat

def linePieces : Tok → Pieces
  | .text y => ⟨y.ew, y.tt, orElse y.tab y.tt, [], y.endWs, y.line, y.col⟩
  | .blank ew l c => ⟨ew, [], [], [NOOP], none, l, c⟩
  | _ => ⟨[], [], [], [], none, 0, 0⟩

/-- add one line to the open segment -/
def extend (s : FSt) (t : Tok) : FSt :=
  let p := linePieces t
  match s.run with
  | none => { s with run := some { line := p.line, col := p.col, ew := p.ws, tt := p.txt, pri := p.pri, endWs := p.endWs } }
  | some r =>
    let rls := hdrRls s.hdr
    if rls = -1 then
      let r' : Run := { r with ew := r.ew ++ NL :: p.ws, tt := r.tt ++ NL :: (p.mark ++ p.txt), pri := r.pri ++ NL :: (p.mark ++ p.pri) }
      { s with run := some r' }
    else
      let n := rls.toNat
      let r' : Run := { r with tt := r.tt ++ NL :: (p.mark ++ p.ws.drop n ++ p.txt), pri := r.pri ++ NL :: (p.mark ++ p.ws.drop n ++ p.pri) }
      { s with ind := (if hdrIsIcode s.hdr then s.ind ++ NL :: p.ws.take n else s.ind), run := some r' }

def openSeg (t : Tok) : FSt := { hdr := some (erase t), ind := indOf t, fin := finOf t, run := none }

/-- close the open segment -/
def close (s : FSt) : Seg :=
  match s.run with
  | none => { hdr := s.hdr, ind := s.ind, fin := s.fin, run := none }
  | some r =>
    if hdrIsPara s.hdr then
      { hdr := s.hdr, ind := s.ind, fin := [], run := some { r with tt := rstrip r.tt, pri := r.pri ++ s.fin } }
    else { hdr := s.hdr, ind := s.ind, fin := s.fin, run := some r }

def flat (s : FSt) : List Tok → List Seg
  | [] => [close s]
  | t :: rest => if isLine s.hdr t then flat (extend s t) rest else close s :: flat (openSeg t) rest

def FSt.init : FSt := { hdr := none, ind := [], fin := [], run := none }

/-- the flattening of a token list -/
def flatten (ts : List Tok) : List Seg := flat FSt.init ts

/-! ## What happens to each input token (for the well-formedness transfer) -/

inductive Mark where
  | keep      -- the token object is in the output list
  | drop      -- merged into the text token before it
  | retag     -- blank line directly after a code-block start: replaced by a new text token at the same place
  deriving Repr, DecidableEq

def Mark.letter : Mark → Char
  | .keep => 'K'
  | .drop => 'D'
  | .retag => 'R'

/-- what `step only acc t` does with `t` -/
def stepMark (only : Bool) (acc : List Tok) (t : Tok) : Mark :=
  match acc with
  | .text _ :: h :: _ => if t.isText || (t.isBlank && h.isCode) then .drop else .keep
  | .text _ :: [] => .keep
  | last :: _ => if !only && t.isBlank && last.isCode then .retag else .keep
  | [] => .keep

def loopMarks (only : Bool) (acc : List Tok) : List Tok → List Mark
  | [] => []
  | t :: rest =>
    stepMark only acc t ::
      match step only acc t with
      | .error _ => []
      | .ok acc' => loopMarks only acc' rest

/-- one mark per input token (as far as the loop gets) -/
def marks (only : Bool) : List Tok → List Mark
  | [] => []
  | t0 :: rest => .keep :: loopMarks only [t0] rest

end Verif.Model.Coalesce
