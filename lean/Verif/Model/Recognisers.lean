/-
  Faithful index-loop models of the pure line-level recognisers (core Lean only).

  Each Python `s[i]` is `charAt s i` and fails with `Err.index` exactly where Python raises
  `IndexError`; each `…_verified` helper fails with `Err.assertion` where Python's `assert … is not None`
  fails.  Nothing is totalised by a default value: that no error can occur is the *theorem*
  `recognisers_total` (Verif/Props/C01.lean), not a modelling convention.

  Sources:
    pymarkdown/general/parser_helper.py   is_character_at_index*, extract_spaces, extract_ascii_whitespace,
                                          extract_spaces_from_end, collect_while_character,
                                          collect_while_one_of_characters, collect_while_spaces,
                                          collect_backwards_while_one_of_characters, *_verified
    pymarkdown/general/tab_helper.py      calculate_length, is_length_less_than_or_equal_to, detabify_string
    pymarkdown/leaf_blocks/thematic_leaf_block_processor.py   is_thematic_break
    pymarkdown/leaf_blocks/atx_leaf_block_processor.py        is_atx_heading, __prepare_for_create_atx_heading_adjust
    pymarkdown/leaf_blocks/fenced_leaf_block_processor.py     is_fenced_code_block, __process_fenced_start (info-string test),
                                                              __check_for_fenced_end (tab-free path)
    pymarkdown/leaf_blocks/setext_leaf_block_processor.py     parse_setext_headings / __prepare_and_create_setext_token (the test)
    pymarkdown/list_blocks/list_block_starts_helper.py        __is_start_ulist, __is_start_olist, __is_start_phase_one,
                                                              is_ulist_start / is_olist_start on a stack without lists
    pymarkdown/block_quotes/block_quote_count_helper.py       is_block_quote_start, count_block_quote_starts (stack_count = 0)
    pymarkdown/general/tokenized_markdown.py                  the blank-line test in __main_pass_did_not_start_close
-/
namespace Verif.Model.Recognisers

abbrev Str := List Char

inductive Err where
  | index        -- IndexError
  | assertion    -- AssertionError (a `_verified` helper got `None`)
  | fuel         -- the model's loop ran out of fuel (only `detabify`; proved unreachable)
  | diverges     -- the Python loop provably never ends on this input (only `countBqStarts` with an index outside the line)
  deriving Repr, DecidableEq

def TAB : Char := '\t'
def SP : Char := ' '

/-- `s[i]` for `i ≥ 0`. -/
def charAt (s : Str) (i : Nat) : Except Err Char :=
  match s[i]? with
  | some c => .ok c
  | none => .error .index

/-- `s[a:b]` for `0 ≤ a, b`. -/
def slice (s : Str) (a b : Nat) : Str := (s.take b).drop a

/-- `ParserHelper.__normal_whitespace = " \t"`. -/
def isWsChar (c : Char) : Bool := c == SP || c == TAB

/-- `Constants.ascii_whitespace = "\x20\x09\x0a\x0b\x0c\x0d"`. -/
def asciiWs : Str := [' ', '\t', '\n', '\x0b', '\x0c', '\r']

/-- `is_character_at_index`: `0 <= i < len(s) and s[i] == c` (the bound test guards the access). -/
def isCharAt (s : Str) (i : Nat) (c : Char) : Bool :=
  match s[i]? with
  | some d => d == c
  | none => false

/-- `is_character_at_index_not`. -/
def isCharAtNot (s : Str) (i : Nat) (c : Char) : Bool :=
  match s[i]? with
  | some d => d != c
  | none => false

/-- `is_character_at_index_one_of`. -/
def isCharAtOneOf (s : Str) (i : Nat) (cs : Str) : Bool :=
  match s[i]? with
  | some d => cs.contains d
  | none => false

/-- `is_character_at_index_whitespace`. -/
def isWsAt (s : Str) (i : Nat) : Bool := isCharAtOneOf s i [SP, TAB]

theorem isCharAtOneOf_lt {s : Str} {i : Nat} {cs : Str} (h : isCharAtOneOf s i cs = true) : i < s.length := by
  unfold isCharAtOneOf at h
  split at h
  · next d hd => exact (List.getElem?_eq_some_iff.mp hd).1
  · cases h

/-! ## forward / backward scans -/

/-- `while is_character_at_index_one_of(s, index, cs): index += 1` -/
def scanOneOf (s : Str) (cs : Str) (i : Nat) : Nat :=
  if h : isCharAtOneOf s i cs = true then scanOneOf s cs (i + 1) else i
termination_by s.length - i
decreasing_by have := isCharAtOneOf_lt h; omega

/-- `extract_spaces(s, start)` → `(index, s[start:index])` or `(None, None)`. -/
def extractSpaces (s : Str) (start : Nat) : Option (Nat × Str) :=
  if start ≤ s.length then
    let j := scanOneOf s [SP, TAB] start
    some (j, slice s start j)
  else none

/-- `extract_spaces_verified`. -/
def extractSpacesVerified (s : Str) (start : Nat) : Except Err (Nat × Str) :=
  match extractSpaces s start with
  | some r => .ok r
  | none => .error .assertion

/-- `extract_ascii_whitespace(s, start)`. -/
def extractAsciiWs (s : Str) (start : Nat) : Option (Nat × Str) :=
  if start ≤ s.length then
    let j := scanOneOf s asciiWs start
    some (j, slice s start j)
  else none

/-- the loop of `collect_while_character`:
`while index < size and s[index] == c: index += 1`.  The access is modelled with `charAt`: if the bound test
were missing it would fail with `Err.index` at the end of the line. -/
def cwcLoop (s : Str) (c : Char) (size : Nat) (i : Nat) : Except Err Nat :=
  if i < size then
    match charAt s i with
    | .error e => .error e
    | .ok d => if d == c then cwcLoop s c size (i + 1) else .ok i
  else .ok i
termination_by size - i

/-- `collect_while_character(s, start, c)` → `(count, index)` or `(None, None)`. -/
def collectWhileChar (s : Str) (start : Nat) (c : Char) : Except Err (Option (Nat × Nat)) :=
  if start ≤ s.length then
    match cwcLoop s c s.length start with
    | .error e => .error e
    | .ok j => .ok (some (j - start, j))
  else .ok none

/-- `collect_while_character_verified`. -/
def collectWhileCharVerified (s : Str) (start : Nat) (c : Char) : Except Err (Nat × Nat) :=
  match collectWhileChar s start c with
  | .error e => .error e
  | .ok (some r) => .ok r
  | .ok none => .error .assertion

/-- the loop of `collect_while_one_of_characters`. -/
def cwoLoop (s : Str) (cs : Str) (size : Nat) (i : Nat) : Except Err Nat :=
  if i < size then
    match charAt s i with
    | .error e => .error e
    | .ok d => if cs.contains d then cwoLoop s cs size (i + 1) else .ok i
  else .ok i
termination_by size - i

/-- `collect_while_one_of_characters(s, start, cs)` → `(index, s[start:index])` or `(None, None)`. -/
def collectWhileOneOf (s : Str) (start : Nat) (cs : Str) : Except Err (Option (Nat × Str)) :=
  if start ≤ s.length then
    match cwoLoop s cs s.length start with
    | .error e => .error e
    | .ok j => .ok (some (j, slice s start j))
  else .ok none

def collectWhileOneOfVerified (s : Str) (start : Nat) (cs : Str) : Except Err (Nat × Str) :=
  match collectWhileOneOf s start cs with
  | .error e => .error e
  | .ok (some r) => .ok r
  | .ok none => .error .assertion

/-- `collect_while_spaces`. -/
def collectWhileSpaces (s : Str) (start : Nat) : Except Err (Option (Nat × Str)) :=
  collectWhileOneOf s start [SP, TAB]

/-- the loop of `collect_backwards_while_one_of_characters`:
`while index and s[index - 1] in cs: index -= 1`. -/
def cbwLoop (s : Str) (cs : Str) : Nat → Except Err Nat
  | 0 => .ok 0
  | i + 1 =>
    match charAt s i with
    | .error e => .error e
    | .ok d => if cs.contains d then cbwLoop s cs i else .ok (i + 1)

/-- `collect_backwards_while_one_of_characters(s, end_index, cs)` → `(count, index)` or `(None, None)`;
`end_index = -1` means the end of the string. -/
def collectBackwardsOneOf (s : Str) (endIndex : Int) (cs : Str) : Except Err (Option (Nat × Nat)) :=
  if -1 ≤ endIndex ∧ endIndex ≤ s.length then
    let e : Nat := if endIndex = -1 then s.length else endIndex.toNat
    match cbwLoop s cs e with
    | .error err => .error err
    | .ok j => .ok (some (e - j, j))
  else .ok none

/-- `collect_backwards_while_spaces_verified`. -/
def collectBackwardsSpacesVerified (s : Str) (endIndex : Int) : Except Err (Nat × Nat) :=
  match collectBackwardsOneOf s endIndex [SP, TAB] with
  | .error e => .error e
  | .ok (some r) => .ok r
  | .ok none => .error .assertion

/-- the loop of `extract_spaces_from_end`, on `j = index + 1`:
`while is_character_at_index_whitespace(s, index): index -= 1`. -/
def sfeLoop (s : Str) : Nat → Nat
  | 0 => 0
  | j + 1 => if isWsAt s j then sfeLoop s j else j + 1

/-- `extract_spaces_from_end(s, start_index)` → `(index + 1, s[index + 1:])`. -/
def extractSpacesFromEnd (s : Str) (start : Option Nat) : Nat × Str :=
  if s.isEmpty then (0, [])
  else
    let j := sfeLoop s (match start with | some k => k | none => s.length)
    (j, s.drop j)

/-! ## tab stops -/

/-- one step of `TabHelper.calculate_length`: `int((n + 4) / 4) * 4` for a tab, `n + 1` otherwise. -/
def tabStep (n : Nat) (c : Char) : Nat := if c == TAB then (n + 4) / 4 * 4 else n + 1

/-- `TabHelper.calculate_length(s, start_index)`. -/
def calcLength (s : Str) (start : Nat) : Nat := s.foldl tabStep start - start

/-- `TabHelper.is_length_less_than_or_equal_to(s, limit)`. -/
def lenLe (s : Str) (limit : Nat) : Bool := calcLength s 0 ≤ limit

/-- `s.find("\t")`. -/
def findTab : Str → Option Nat
  | [] => none
  | c :: cs => if c == TAB then some 0 else (findTab cs).map (· + 1)

structure DetabState where
  src : Str
  rebuilt : Str
  cur : Nat

/-- body + loop of `TabHelper.detabify_string`; `fuel` bounds the `while next_tab_index != -1` loop. -/
def detabLoop (delta : Nat) : Nat → DetabState → Except Err Str
  | 0, _ => .error .fuel
  | fuel + 1, st =>
    match findTab st.src with
    | none => .ok (st.rebuilt ++ st.src)          -- `if source_string: rebuilt_string += source_string`
    | some nt =>
      match collectBackwardsSpacesVerified st.src nt with
      | .error e => .error e
      | .ok (_, startIndex) =>
        match collectWhileSpaces st.src nt with
        | .error e => .error e
        | .ok none => .error .assertion             -- `source_string[start_index:None]` would not fail in Python, but
                                                    -- `current_start_index`/`source_string[None:]`… — proved unreachable
        | .ok (some (endIndex, _)) =>
          let sect := slice st.src startIndex endIndex
          let rebuilt1 := if startIndex ≠ 0 then st.rebuilt ++ st.src.take startIndex else st.rebuilt
          let realized := st.cur + startIndex + delta
          let wlen := calcLength sect realized
          detabLoop delta fuel
            { src := st.src.drop endIndex, rebuilt := rebuilt1 ++ List.replicate wlen SP,
              cur := st.cur + startIndex + wlen }

/-- `TabHelper.detabify_string(s, additional_start_delta)`. -/
def detabify (s : Str) (delta : Nat) : Except Err Str :=
  if !s.contains TAB then .ok s
  else detabLoop delta (s.length + 1) { src := s, rebuilt := [], cur := 0 }

/-- the specification of tab expansion, for `detabify`.
CommonMark 2.2: a tab advances to the next tab stop, tab stops every 4 columns. -/
def expandTabs (col : Nat) : Str → Str
  | [] => []
  | c :: cs =>
    if c == TAB then List.replicate ((col + 4) / 4 * 4 - col) SP ++ expandTabs ((col + 4) / 4 * 4) cs
    else c :: expandTabs (col + 1) cs


/-! ## leaf-block recognisers -/

/-- the `while index < line_to_parse_size` loop of `is_thematic_break` → `(index, char_count)`. -/
def tbLoop (s : Str) (startChar : Char) (allowWs : Bool) (size : Nat) (i cnt : Nat) : Except Err (Nat × Nat) :=
  if i < size then
    if allowWs && isWsAt s i then tbLoop s startChar allowWs size (i + 1) cnt
    else
      match charAt s i with
      | .error e => .error e
      | .ok d => if d == startChar then tbLoop s startChar allowWs size (i + 1) (cnt + 1) else .ok (i, cnt)
  else .ok (i, cnt)
termination_by size - i

/-- `ThematicLeafBlockProcessor.is_thematic_break(line, start, extracted_whitespace, skip_whitespace_check,
whitespace_allowed_between_characters)` → `(thematic_break_character, end_of_break_index)` or `(None, None)`. -/
def isThematicBreak (line : Str) (start : Nat) (ws : Str) (skip : Bool := false) (allowWs : Bool := true) :
    Except Err (Option (Char × Nat)) :=
  let isThematicCharacter := isCharAtOneOf line start ['*', '_', '-']
  if (lenLe ws 3 || skip) && isThematicCharacter then
    match charAt line start with
    | .error e => .error e
    | .ok startChar =>
      match tbLoop line startChar allowWs line.length start 0 with
      | .error e => .error e
      | .ok (index, cnt) =>
        if cnt ≥ 3 && index == line.length then .ok (some (startChar, index)) else .ok none
  else .ok none

/-- `AtxLeafBlockProcessor.is_atx_heading` → `(non_whitespace_index, hash_count, extracted_whitespace_at_start)`
or `False`. -/
def isAtxHeading (line : Str) (start : Nat) (ws : Str) (skip : Bool := false) :
    Except Err (Option (Nat × Nat × Str)) :=
  if (lenLe ws 3 || skip) && isCharAt line start '#' then
    match collectWhileCharVerified line start '#' with
    | .error e => .error e
    | .ok (hashCount, newIndex) =>
      match collectWhileSpaces line newIndex with
      | .error e => .error e
      | .ok none => .error .assertion               -- `new_index` is an index of the line: proved unreachable
      | .ok (some (nonWs, _)) =>
        let wsAtStart := slice line newIndex nonWs
        if hashCount ≤ 6 && (!wsAtStart.isEmpty || nonWs == line.length) then
          .ok (some (nonWs, hashCount, wsAtStart))
        else .ok none
  else .ok none

structure AtxAdjust where
  wsAtEnd : Str
  wsBeforeEnd : Str
  remaining : Str
  removeTrailing : Nat
  deriving Repr, DecidableEq

/-- `while end_index > 0 and remaining_line[end_index - 1] == "#": end_index -= 1; remove_trailing_count += 1` -/
def atxHashLoop (s : Str) : Nat → Nat → Except Err (Nat × Nat)
  | 0, cnt => .ok (0, cnt)
  | e + 1, cnt =>
    match charAt s e with
    | .error err => .error err
    | .ok d => if d == '#' then atxHashLoop s e (cnt + 1) else .ok (e + 1, cnt)

/-- `AtxLeafBlockProcessor.__prepare_for_create_atx_heading_adjust(remaining_line, 0)` (the closing sequence). -/
def atxAdjust (remaining : Str) : Except Err AtxAdjust :=
  let (endIndex0, wsAtEnd0) := extractSpacesFromEnd remaining none
  match atxHashLoop remaining endIndex0 0 with
  | .error e => .error e
  | .ok (endIndex, rtc) =>
    if rtc ≠ 0 then
      if endIndex > 0 then
        if isWsAt remaining (endIndex - 1) then
          let rem1 := remaining.take endIndex
          match collectBackwardsSpacesVerified rem1 ((rem1.length : Int) - 1) with
          | .error e => .error e
          | .ok (_, e2) => .ok ⟨wsAtEnd0, rem1.drop e2, rem1.take e2, rtc⟩
        else .ok ⟨[], [], remaining, 0⟩
      else .ok ⟨wsAtEnd0, [], [], rtc⟩
    else .ok ⟨remaining.drop endIndex, [], remaining.take endIndex, 0⟩

/-- `FencedLeafBlockProcessor.is_fenced_code_block` with `index_indent = 0` (then `realize_leading_whitespace`
is the identity) → `(non_whitespace_index, after_fence_index, collected_count)` or `False`. -/
def isFencedCodeBlock (line : Str) (start : Nat) (ws : Str) (skip : Bool := false) :
    Except Err (Option (Nat × Nat × Nat)) :=
  if (skip || lenLe ws 3) && isCharAtOneOf line start ['~', '`'] then
    match charAt line start with
    | .error e => .error e
    | .ok c =>
      match collectWhileCharVerified line start c with
      | .error e => .error e
      | .ok (count, newIndex) =>
        match extractAsciiWs line newIndex with
        | none => .error .assertion                  -- Python would return `None` as `non_whitespace_index`; proved unreachable
        | some (nonWs, _) =>
          if count ≥ 3 then .ok (some (nonWs, newIndex, count)) else .ok none
  else .ok none

/-- the test at the head of `__process_fenced_start`: a backtick fence may not have a backtick in its info string. -/
def isFenceOpen (line : Str) (start : Nat) (ws : Str) : Except Err Bool :=
  match isFencedCodeBlock line start ws with
  | .error e => .error e
  | .ok none => .ok false
  | .ok (some (nonWs, _, _)) =>
    match charAt line start with
    | .error e => .error e
    | .ok c => .ok (c == '~' || !(line.drop nonWs).contains '`')

/-- the test in `__check_for_fenced_end` (line without tabs) against an open fence `(fchar, fcount)`. -/
def isFenceClose (line : Str) (start : Nat) (ws : Str) (fchar : Char) (fcount : Nat) : Except Err Bool :=
  match isFencedCodeBlock line start ws with
  | .error e => .error e
  | .ok none => .ok false
  | .ok (some (_, afterFence, count)) =>
    match extractSpacesVerified line afterFence with
    | .error e => .error e
    | .ok (afterSpaces, _) =>
      match charAt line start with
      | .error e => .error e
      | .ok c => .ok (fchar == c && count ≥ fcount && afterSpaces ≥ line.length)

/-- the line test of `parse_setext_headings` + `__prepare_and_create_setext_token`
(paragraph open, same quote depth, not a paragraph continuation: those are parser state, not line shape). -/
def isSetextUnderline (line : Str) (start : Nat) (ws : Str) : Except Err Bool :=
  if lenLe ws 3 && isCharAtOneOf line start ['-', '='] then
    let l2p := line.drop start
    match charAt line start with
    | .error e => .error e
    | .ok c =>
      match collectWhileCharVerified l2p 0 c with
      | .error e => .error e
      | .ok (_, collectedTo) =>
        match extractSpacesVerified l2p collectedTo with
        | .error e => .error e
        | .ok (afterWs, _) => .ok (afterWs == l2p.length)
  else .ok false

/-- the blank-line test of the main pass: `not line or not line.strip(Constants.ascii_whitespace)`. -/
def isBlankLine (line : Str) : Bool := line.isEmpty || line.all asciiWs.contains

/-! ## container starts -/

/-- `ListBlockStartsHelper.__is_start_ulist`. -/
def isStartUlist (line : Str) (start : Nat) (ws : Str) : Except Err Bool :=
  if isCharAtOneOf line start ['-', '+', '*'] then
    match isThematicBreak line start ws with
    | .error e => .error e
    | .ok r => .ok r.isNone
  else .ok false

def digits : Str := ['0', '1', '2', '3', '4', '5', '6', '7', '8', '9']

/-- `ListBlockStartsHelper.__is_start_olist` → `(is_start, index, number_of_digits, is_not_one)`. -/
def isStartOlist (line : Str) (start : Nat) : Except Err (Bool × Option (Nat × Nat × Bool)) :=
  if isCharAtOneOf line start digits then
    match collectWhileOneOfVerified line start digits with
    | .error e => .error e
    | .ok (index, num) =>
      let isNotOne := num != ['1']
      .ok (num.length ≤ 9 && isCharAtOneOf line index ['.', ')'], some (index, num.length, isNotOne))
  else .ok (false, none)

/-- `ListBlockStartsHelper.__is_start_phase_one` on a stack whose top is the document (`inPara = false`) or a
top-level paragraph (`inPara = true`) → `(is_start, after_all_whitespace_index)`; `markerEnd` is the index of the
last marker character. -/
def startPhaseOne (line : Str) (markerEnd : Nat) (isNotOne inPara : Bool) : Except Err (Bool × Nat) :=
  let start := markerEnd + 1
  match extractSpacesVerified line start with
  | .error e => .error e
  | .ok (afterAll, _) =>
    let atEol := afterAll == line.length
    let paraCont := inPara && (atEol || isNotOne)
    .ok (!paraCont && (isWsAt line start || start == line.length), afterAll)

/-- `is_ulist_start` with no list on the stack → `(is_start, after_all_whitespace_index)`
(phase two returns `True` without a list on the stack). -/
def isUlistStart (line : Str) (start : Nat) (ws : Str) (skip inPara : Bool) : Except Err (Bool × Int) :=
  if lenLe ws 3 || skip then
    match isStartUlist line start ws with
    | .error e => .error e
    | .ok false => .ok (false, -1)
    | .ok true =>
      match startPhaseOne line start false inPara with
      | .error e => .error e
      | .ok (b, after) => .ok (b, after)
  else .ok (false, -1)

/-- `is_olist_start` with no list on the stack → `(is_start, after_all_whitespace_index, index, number_of_digits)`. -/
def isOlistStart (line : Str) (start : Nat) (ws : Str) (skip inPara : Bool) :
    Except Err (Bool × Int × Option (Nat × Nat)) :=
  if lenLe ws 3 || skip then
    match isStartOlist line start with
    | .error e => .error e
    | .ok (false, r) => .ok (false, -1, r.map fun x => (x.1, x.2.1))
    | .ok (true, none) => .error .assertion          -- "If is_start, these must be valid."
    | .ok (true, some (index, nd, isNotOne)) =>
      match startPhaseOne line index isNotOne inPara with
      | .error e => .error e
      | .ok (b, after) => .ok (b, after, some (index, nd))
  else .ok (false, -1, none)

/-- `BlockQuoteCountHelper.is_block_quote_start`. -/
def isBlockQuoteStart (line : Str) (start : Nat) (ws : Str) : Bool := lenLe ws 3 && isCharAt line start '>'

/-- the `while True` loop of `count_block_quote_starts` with `stack_count = 0`, no fenced / HTML block open
→ `(current_count, start_index, last_block_quote_index)`.  `i ≤ size` is what makes the loop end: outside the line
neither "ran out of line" nor "is not `>`" holds and the Python loop counts for ever. -/
def bqLoop (s : Str) (size : Nat) (i cnt last : Nat) : Except Err (Nat × Nat × Nat) :=
  if size < i then .error .diverges
  else
    let i1 := if isWsAt s i then i + 1 else i                  -- __handle_bq_whitespace
    if i1 == size then .ok (cnt, i1, last)                      -- "ran out of line"
    else if isCharAtNot s i1 '>' then .ok (cnt, i1, last)       -- __xx with current_count ≥ stack_count
    else bqLoop s size (i1 + 1) (cnt + 1) (i1 + 1)
termination_by size + 1 - i
decreasing_by all_goals (simp only [i1] at *; split <;> omega)

/-- `count_block_quote_starts(parser_state, line, start, BlockQuoteData(0, 0), False, False)`. -/
def countBqStarts (line : Str) (start : Nat) : Except Err (Nat × Nat × Nat) :=
  bqLoop line line.length (start + 1) 1 (start + 1)

/-! ## line-level compositions: the recogniser applied the way the block pass applies it to a top-level line
(`extract_spaces(line, 0)` gives the index and the leading whitespace handed to the recogniser) -/

/-- `extract_spaces(line, 0)`. -/
def leadWs (line : Str) : Nat × Str :=
  let j := scanOneOf line [SP, TAB] 0
  (j, slice line 0 j)

def lineThematic (line : Str) : Except Err Bool :=
  (isThematicBreak line (leadWs line).1 (leadWs line).2).map Option.isSome

def lineAtx (line : Str) : Except Err Bool :=
  (isAtxHeading line (leadWs line).1 (leadWs line).2).map Option.isSome

def lineFenceOpen (line : Str) : Except Err Bool :=
  isFenceOpen line (leadWs line).1 (leadWs line).2

def lineSetext (line : Str) : Except Err Bool :=
  isSetextUnderline line (leadWs line).1 (leadWs line).2

end Verif.Model.Recognisers
