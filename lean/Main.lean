import Verif.Drv.ExitCode
import Verif.Drv.Engine
import Verif.Drv.Config
import Verif.Drv.Lines
import Verif.Drv.FileScan
import Verif.Drv.FixSched
import Verif.Drv.LeanMark
import Verif.Drv.WellFormed
import Verif.Drv.Codec
import Verif.Drv.FrontMatter
import Verif.Drv.RuleSpec
import Verif.Drv.Recognisers
import Verif.Drv.MainLoop
import Verif.Drv.CloseLoop
import Verif.Drv.LeafStore
import Verif.Drv.Coalesce
import Verif.Drv.LeafPos
import Verif.Drv.BqCount
import Verif.Drv.Emphasis
import Verif.Drv.LinkRecog
import Verif.Drv.InlineRecog
import Verif.Drv.GfmRender
import Verif.Drv.TokenRules
import Verif.Drv.ScanRules
import Verif.Drv.InlineLoop
import Verif.Drv.RegenLeaf
import Verif.Drv.ListStarts
import Verif.Drv.LeafBlocks2
import Verif.Drv.ScanRules2
import Verif.Drv.TokenRules2
import Verif.Drv.ListRules

/-- model name → request handler (one request line in, one answer line out). -/
def models : List (String × (String → String)) :=
  [("exit", Verif.Drv.ExitCode.step),
   ("engine", Verif.Drv.Engine.step),
   ("config", Verif.Drv.Config.step),
   ("lines", Verif.Drv.Lines.step),
   ("filescan", Verif.Drv.FileScan.step),
   ("fixsched", Verif.Drv.FixSched.step),
   ("leanmark-html", Verif.Drv.LeanMark.stepHtml),
   ("leanmark-events", Verif.Drv.LeanMark.stepEvents),
   ("leanmark-inscope", Verif.Drv.LeanMark.stepInScope),
   ("leanmark-amb", Verif.Drv.LeanMark.stepAmb),
   ("leanmark-html-r1", Verif.Drv.LeanMark.stepHtmlR 1),
   ("leanmark-html-r2", Verif.Drv.LeanMark.stepHtmlR 2),
   ("leanmark-html-r3", Verif.Drv.LeanMark.stepHtmlR 3),
   ("leanmark-events-r1", Verif.Drv.LeanMark.stepEventsR 1),
   ("leanmark-events-r2", Verif.Drv.LeanMark.stepEventsR 2),
   ("leanmark-events-r3", Verif.Drv.LeanMark.stepEventsR 3),
   ("wf", Verif.Drv.WellFormed.step),
   ("codec", Verif.Drv.Codec.step),
   ("frontmatter", Verif.Drv.FrontMatter.step),
   ("rulespec", Verif.Drv.RuleSpec.step),
   ("linerules", Verif.Drv.RuleSpec.stepLine),
   ("recog", Verif.Drv.Recognisers.step),
   ("mainloop", Verif.Drv.MainLoop.step),
   ("closeloop", Verif.Drv.CloseLoop.step),
   ("leading", Verif.Drv.LeafStore.stepLeading),
   ("leading-legal", Verif.Drv.LeafStore.stepLegal),
   ("fields", Verif.Drv.LeafStore.stepFields),
   ("coalesce", Verif.Drv.Coalesce.step),
   ("leafpos", Verif.Drv.LeafPos.step),
   ("bqcount", Verif.Drv.BqCount.step),
   ("emph", Verif.Drv.Emphasis.step),
   ("linkrecog", Verif.Drv.LinkRecog.step),
   ("inlinerecog", Verif.Drv.InlineRecog.step),
   ("gfm", Verif.Drv.GfmRender.step),
   ("tokenrules", Verif.Drv.TokenRules.step),
   ("scanrules", Verif.Drv.ScanRules.step),
   ("inlineloop", Verif.Drv.InlineLoop.step),
   ("regenleaf", Verif.Drv.RegenLeaf.step),
   ("liststarts", Verif.Drv.ListStarts.step),
   ("leafblocks2", Verif.Drv.LeafBlocks2.step),
   ("scanrules2", Verif.Drv.ScanRules2.step),
   ("tokenrules2", Verif.Drv.TokenRules2.step),
   ("listrules", Verif.Drv.ListRules.step)]

partial def loop (h : IO.FS.Stream) (out : IO.FS.Stream) (f : String → String) : IO Unit := do
  let line ← h.getLine
  if line.isEmpty then return ()
  let l := if line.endsWith "\n" then (line.dropEnd 1).toString else line
  out.putStrLn (f l)
  loop h out f

def main (args : List String) : IO UInt32 := do
  match args with
  | [m] =>
    match models.lookup m with
    | some f => loop (← IO.getStdin) (← IO.getStdout) f; return 0
    | none => IO.eprintln s!"unknown model {m}"; return 2
  | _ => IO.eprintln "usage: verifdrv <model>"; return 2
