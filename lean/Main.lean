import Verif.Proto
import Verif.Model.ExitCode
import Verif.Gen.ExitTable
open Verif

/-- `exit`: `scheme|listOnly filesFound discoverError anyFail anyFixed anyTriggered` → `result code`. -/
def stepExit (line : String) : String :=
  open Verif.Model.ExitCode in
  match Proto.fields line with
  | [s, bits] =>
    let b := bits.trimAscii.toString.toList.map (· == '1')
    match b with
    | [a, b, c, d, e, f] =>
      let o : Obs := ⟨a, b, c, d, e, f⟩
      let r := Verif.Gen.ExitTable.flow.finalResult o
      let sch := if s.trimAscii.toString == "minimal" then Scheme.minimal else Scheme.dflt
      match lookup Verif.Gen.ExitTable.codeTable sch r with
      | some c => s!"{repr r} {c}"
      | none => "no-entry"
    | _ => "bad-op"
  | _ => "bad-op"

def models : List (String × (String → String)) :=
  [("exit", stepExit)]

partial def loop (h : IO.FS.Stream) (out : IO.FS.Stream) (f : String → String) : IO Unit := do
  let line ← h.getLine
  if line.isEmpty then return ()
  let l := if line.endsWith "\n" then (line.dropEnd 1).toString else line
  out.putStrLn (f l)
  loop h out f

def main (args : List String) : IO UInt32 := do
  match args with
  | [m] =>
    match models.lookup m with
    | some f => loop (← IO.getStdin) (← IO.getStdout) f; return 0
    | none => IO.eprintln s!"unknown model {m}"; return 2
  | _ => IO.eprintln "usage: verifdrv <model>"; return 2
