import Verif.Proto
import Verif.Model.ExitCode
import Verif.Gen.ExitTable
import Verif.Props.C18
