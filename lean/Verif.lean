import Verif.Proto
import Verif.Props.C07
import Verif.Props.C11
import Verif.Props.C12
import Verif.Props.C13
import Verif.Props.C14
import Verif.Props.C18
