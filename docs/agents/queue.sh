#!/bin/sh
# process each id in /root/mut/queue.txt sequentially (append ids to the file to add work); stops when file contains "END"
touch /root/mut/queue.txt /root/mut/done.txt
while true; do
  next=$(grep -v -x -f /root/mut/done.txt /root/mut/queue.txt | head -1)
  if [ "$next" = "END" ]; then exit 0; fi
  if [ -z "$next" ]; then sleep 20; continue; fi
  while pgrep -f "seeded.py (run|confirm)" >/dev/null; do sleep 15; done
  /root/mut/proc.sh $next > /root/logs/mut_$next.log 2>&1
  echo $next >> /root/mut/done.txt
done
