#!/bin/sh
# usage: proc.sh c07d   — stage into /verif/seeded, confirm, run quick
id=$1
cd /verif || exit 2
mkdir -p seeded/$id && cp /root/mut/$id/patch.diff /root/mut/$id/meta.json seeded/$id/ && cp /root/mut/$id/demo.* seeded/$id/
/venv/bin/python tools/seeded.py confirm $id 2>&1 | grep -v "^WARNING" | tail -14
/venv/bin/python tools/seeded.py run $id 2>&1 | grep -v "^WARNING" | tail -16
