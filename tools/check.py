"""Entry point: ./check Cxx [--tier quick|thorough] [--replay f].
exit 0 = held on everything explored; exit 1 + VIOLATION line; exit 2 = machinery failure."""
import argparse, importlib, os, sys, traceback
sys.path.insert(0, os.path.dirname(os.path.abspath(__file__)))
import vlib


def main():
    ap = argparse.ArgumentParser()
    ap.add_argument("prop")
    ap.add_argument("--tier", default=os.environ.get("VERIF_TIER", "quick"), choices=["quick", "thorough"])
    ap.add_argument("--replay")
    a = ap.parse_args()
    seed = int(os.environ.get("VERIF_SEED", "0") or 0)
    prop = a.prop.upper()
    sys.path.insert(0, os.path.join(vlib.ROOT, "tools", "props"))
    try:
        mod = importlib.import_module(prop.lower())
    except ModuleNotFoundError:
        print(f"no check for {prop}", file=sys.stderr)
        return 2
    ctx = vlib.Ctx(prop, a.tier, seed)
    # watchdog: a hung worker pool (seen once, on a changed tree) must end as a machinery failure (exit 2), never as a silent hang
    # (a timer thread, not SIGALRM: several tie libraries use SIGALRM / setitimer for their own per-call CPU limits)
    import threading

    def _too_long():
        import multiprocessing
        print(f"MACHINERY-ERROR {prop}: check exceeded VERIF_MAX_S", file=sys.stderr, flush=True)
        for ch in multiprocessing.active_children():
            try:
                ch.terminate()
            except Exception:
                pass
        os._exit(2)
    wd = threading.Timer(float(os.environ.get("VERIF_MAX_S", str((3 if a.tier == "quick" else 8) * 3600))), _too_long)
    wd.daemon = True
    wd.start()
    try:
        if a.replay:
            import json
            try:
                payload = json.load(open(a.replay))
            except (OSError, ValueError):
                payload = {}
            if payload.get("neighbourhood"):
                import neighbour
                return neighbour.replay(ctx, payload)
            return mod.replay(ctx, a.replay)
        mod.run(ctx)
        # Source pins (tools/srcpin.py): when a file this property is anchored in differs from the tree the thorough tier was
        # validated on and the seeded sample found nothing, the quick command goes on to the complete closed space.
        if a.tier == "quick" and not getattr(ctx, "concrete", 0) and not os.environ.get("VERIF_NO_ESCALATE"):
            import srcpin
            hit = srcpin.affected(prop)
            if hit:
                print(f"ESCALATE property={prop}: {len(hit)} anchored source file(s) changed ({', '.join(hit[:4])}"
                      f"{' …' if len(hit) > 4 else ''}); quick sample found nothing -> exploring the thorough space")
                first = ctx
                ctx = vlib.Ctx(prop, "thorough", seed)
                ctx.escalated_from_quick = hit
                mod.run(ctx)
                ctx.violations = first.violations + ctx.violations
        # ... and, when the closed spaces still show nothing, to the neighbourhood of the changed code (tools/neighbour.py):
        # documents near those that execute the changed lines, on which the current tree and the validated sources behave
        # differently, judged by this property's own document-level oracle.
        if not a.replay and not getattr(ctx, "concrete", 0) and not os.environ.get("VERIF_NO_ESCALATE") and not os.environ.get("VERIF_NB_CHILD"):
            import srcpin, neighbour, json
            hit = srcpin.affected(prop)
            if hit and prop in neighbour.SUPPORTED:
                st = neighbour.search(ctx, prop, hit)
                print(f"NEIGHBOURHOOD property={prop}: " + json.dumps({k: v for k, v in st.items() if k not in ('samples', 'changed_lines')}))
                try:
                    evp = os.path.join(vlib.ROOT, "evidence", prop + ".json")
                    ev = json.load(open(evp))
                    ev["coverage"]["changed_code_neighbourhood"] = st
                    ev["violations"] = len(ctx.violations)
                    json.dump(ev, open(evp, "w"), indent=1, default=str)
                except (OSError, ValueError, KeyError):
                    pass
    except vlib.MachineryError as e:
        print(f"MACHINERY-ERROR {prop}: {e}", file=sys.stderr)
        return 2
    except Exception:
        traceback.print_exc()
        print(f"MACHINERY-ERROR {prop}: unexpected exception in the check itself", file=sys.stderr)
        return 2
    if ctx.violations:
        return 1
    print(f"OK property={prop} tier={a.tier} seed={seed} wall_s={round(__import__('time').time() - ctx.t0, 1)}")
    return 0


if __name__ == "__main__":
    sys.exit(main())
