"""Entry point: ./check Cxx [--tier quick|thorough] [--replay f].
exit 0 = held on everything explored; exit 1 + VIOLATION line; exit 2 = machinery failure."""
import argparse, importlib, os, sys, traceback
sys.path.insert(0, os.path.dirname(os.path.abspath(__file__)))
import vlib


def main():
    ap = argparse.ArgumentParser()
    ap.add_argument("prop")
    ap.add_argument("--tier", default=os.environ.get("VERIF_TIER", "quick"), choices=["quick", "thorough"])
    ap.add_argument("--replay")
    a = ap.parse_args()
    seed = int(os.environ.get("VERIF_SEED", "0") or 0)
    prop = a.prop.upper()
    sys.path.insert(0, os.path.join(vlib.ROOT, "tools", "props"))
    try:
        mod = importlib.import_module(prop.lower())
    except ModuleNotFoundError:
        print(f"no check for {prop}", file=sys.stderr)
        return 2
    ctx = vlib.Ctx(prop, a.tier, seed)
    try:
        if a.replay:
            return mod.replay(ctx, a.replay)
        mod.run(ctx)
    except vlib.MachineryError as e:
        print(f"MACHINERY-ERROR {prop}: {e}", file=sys.stderr)
        return 2
    except Exception:
        traceback.print_exc()
        print(f"MACHINERY-ERROR {prop}: unexpected exception in the check itself", file=sys.stderr)
        return 2
    if ctx.violations:
        return 1
    print(f"OK property={prop} tier={a.tier} seed={seed} wall_s={round(__import__('time').time() - ctx.t0, 1)}")
    return 0


if __name__ == "__main__":
    sys.exit(main())
