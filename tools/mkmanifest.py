"""Writes /verif/MANIFEST.json from the table below (single source for the registered checks)."""
import json, os
ROOT = os.path.dirname(os.path.dirname(os.path.abspath(__file__)))
ALL = ["C%02d" % i for i in range(1, 21)]

CHECKS = {
 "C18": dict(
   technique="Lean 4 proof over tables regenerated from source (translator) + process-level scenario correspondence",
   design_ref="DESIGN.md §6 C18",
   text="Theorems (code table = documented table = property table; error never masked; precedence; full decision table over all "
        "64 observations) are proved over Verif.Gen.ExitTable, which is regenerated from return_code_helper.py, main.py and the "
        "user guide on every run, so a changed cell or re-ordered result chain breaks an obligation. Every outcome category is then "
        "produced in every way the application can (≈55 scenarios × 8 scheme selectors) and the real exit status is compared with "
        "the model and with the property's table.",
   note="Trusted: Lean kernel; translator exit_table.py (AST shape of the if-chain, reflection of the scheme maps, Markdown table "
        "parse); scenario categories assigned by hand from the user guide; parser failures injected at transform_from_provider."),
}

def main():
    checks = []
    for pid in ALL:
        if pid not in CHECKS:
            continue
        c = CHECKS[pid]
        checks.append({
            "property_id": pid,
            "quick_cmd": f"./check {pid} --tier quick",
            "thorough_cmd": f"./check {pid} --tier thorough",
            "evidence_file": f"evidence/{pid}.json",
            "replay_cmd_template": f"./check {pid} --replay {{path}}",
            "engine": "lean4+correspondence",
            "level_claimed": {"category": c.get("category", "proof"), "text": c["text"], "design_ref": c["design_ref"]},
            "level_note": c["note"],
            "technique": c["technique"],
        })
    na = [{"property_id": p, "reason": "check not built yet in this round (model planned in DESIGN.md §6); not claimed"}
          for p in ALL if p not in CHECKS]
    m = {
        "version": 1,
        "setup_cmd": "./setup.sh",
        "hooks": {"guard": "PYMARKDOWN_VERIF", "enable": "no source hooks are used; observation is through --add-plugin probe plug-ins, "
                  "harness-level wrappers and audit hooks", "baseline_off_cmd":
                  "cd /repo && /venv/bin/python -m pytest -ra -q -p no:cacheprovider --timeout=900 --continue-on-collection-errors",
                  "source_commits": [], "add_only": True},
        "engines": [{"name": "lean4+correspondence", "path": "lean/", "serves_properties": sorted(CHECKS),
                     "kind_free_text": "Lean 4.33 models + theorems (lake project Verif), tables regenerated from /repo by tools/translate, "
                                       "compiled model driver verifdrv compared with the in-process implementation by tools/props/*.py"}],
        "checks": checks,
        "not_applicable": na,
        "notes": "See DESIGN.md. ./check <id> --tier quick|thorough; VERIF_SEED honoured; exit 2 = machinery failure (never a violation).",
    }
    with open(os.path.join(ROOT, "MANIFEST.json"), "w") as fh:
        json.dump(m, fh, indent=1)
    print("checks:", [c["property_id"] for c in checks])

if __name__ == "__main__":
    main()
