"""Writes /verif/MANIFEST.json from the table below (single source for the registered checks)."""
import json, os
ROOT = os.path.dirname(os.path.dirname(os.path.abspath(__file__)))
ALL = ["C%02d" % i for i in range(1, 21)]

CHECKS = {
 "C01": dict(
   technique="Lean 4 proof over a faithful control model of the block pass and faithful index-loop models of the line recognisers + trace validation of the real main loop (sys.monitoring, no source change) + function-level recogniser correspondence + exhaustive tokenization sweep with a deterministic work budget",
   design_ref="DESIGN.md §6 C01, §5.3, §8 F-HANG/F-IDX/F-X05",
   text="Theorems over Verif.Model.MainLoop (control of __parse_blocks_pass: line source, requeue list, line_number, ignore flag, closing flags; the per-line machinery is an oracle "
        "constrained by the protocol Legal read off the two sites that build a RequeueLineInfo): mainloop_terminates (every Legal run has at most (n+1)(n+2)/2 + n iterations plus one per "
        "block-quote restart — exact accounting, bound attained), mainloop_terminates_bounded_depth (each restart shrinks the token stack, so with stack depth <= K at most (K+1)((n+1)(n+2)/2+n)+1 "
        "iterations), mainloop_no_assertion (the loop's own asserts cannot fire), mainloop_line_numbers(_exact) (the line number handed down is the line's position; it is the physical line when "
        "requeues hand the current line back verbatim), mainloop_consumes_all. Over Verif.Model.Recognisers (explicit IndexError/AssertionError results, never a default): recognisers_total for "
        "collect_while_character/one_of, collect_backwards, detabify_string, is_thematic_break, is_atx_heading, the ATX closing-sequence split, is_fenced_code_block (+open/close tests), the setext "
        "underline test, __is_start_ulist/olist, is_ulist_start/is_olist_start on a list-free stack, block-quote counting (partial: index inside the line, with the diverging witness), and "
        "thematic_spec / atx_spec / fence_open_spec / setext_spec / blank_spec (accepts exactly the CommonMark sentence, written as a decomposition of the line), indentation_spec (tab stop 4). "
        "Over Verif.Model.CloseLoop: closeloop_terminates_partial (the list-closing loop ends if every repeating iteration shrinks the stack) and closeloop_needs_variant (the state recorded "
        "from '  - a\\n- 1)' is a fixed point of the do_not_emit branch that asks for a repeat: no variant exists; Lean rejects the fuel-less definition, re-checked every run). spec_total: the "
        "reference (LeanMark) is total. Tie: every recogniser vs the REAL function on all PREFIX x BODY lines and all strings of length <= 6 over its own alphabet (about 12 M calls, thorough); every "
        "iteration of the real main loop (about 1.9 M iterations of 421 k documents, 35 k requeues) must be a Legal model transition leaving line_number / len(requeue) / ignore flag / "
        "did_start_close / pending definition lines / next line as the model says; every iteration of the real list-closing loop vs the model iteration. Oracle: transform() returns without "
        "BadTokenizationError within 5 s^2 + 4800 s + 6000 LINE events (s = chars + 8 lines; measured maximum 0.24 of the budget) on d1, a 120 k hash slice of d2 + all core d2, d2 without final "
        "newline (10 k), all of d3, the repo corpus, and D_wrap (54 k), plus scaling series k = 1..256 (log-log slope <= 2.5, measured 1.89).",
   note="Partial: the ~150 other while-loops and several hundred asserts inside the container / leaf / inline handlers are not modelled — they are reached by the enumeration only; Legal is a "
        "validated hypothesis, not a theorem about link_reference_definition_helper.py; CPU time is a runtime fact (the model gives the quadratic bound on line visits, the measured LINE-event "
        "counts cover the rest); recogniser models cover the tab-free paths of fence close / setext / list starts on a stack without lists; close_required_lists is a parameter of the loop model. "
        "Trusted: Lean kernel; tools/mainlooplib.py (sys.monitoring recorder), tools/recoglib.py (sentinel stubs for collaborators). Findings: F-HANG (19 listed inputs), 36 tokenization-failure "
        "call sites F-TOK-* (8.9 k listed inputs in findings/C01.inputs.json, 86 % of them involve a TAB after a container marker), F-X05 (render)."),
 "C02": dict(
   technique="Lean 4 proof over faithful models of the in-band marker codec, tab expansion, final-newline correction, pragma re-insertion, the container tokens' per-line prefix store "
             "and the per-leaf field splits + exhaustive "
             "function-level correspondence with the real (private) functions + document-level identity oracle on registered strata with footprint-identified findings",
   design_ref="DESIGN.md §6 C02, §5.1, §5.2, §4 (strata)",
   text="Theorems over Verif.Model.Codec / Verif.Model.Tabs (index loops of parser_helper.py mirrored, defects included): remove_encode and resolve_encode (remove_all_from_text / "
        "resolve_all_from_text invert the encoding of every marker-free piece list: literals, backslash escapes, replacements, replaced-with-nothing, nested replacements), "
        "escape_roundtrip(+_resolve) for escape_special_characters, and the negative results that fix the domain: codec_collision_x05(_raises), codec_collision_empty_replacement, "
        "escape_roundtrip_excluded, resolveBackspaces_defects (hang at index 0, resume one too far), sentinel_collision / stripSentinels_id (U+00FE, U+8268, U+8269 are deleted, nothing else); "
        "detabify_eq_detab (the section loop of detabify_string = one-pass reference), detab_noTab, detab_id_of_noTab, detab_length_ge, colAfter_mono/_strict, tab_stop; final_newline_rule; "
        "pragma_reinsert(_doc) with its two excluded points proved real. Over Verif.Model.LeadingSpaces (the newline-joined per-line prefix store of list / block-quote tokens as the code "
        "keeps it: None vs \"\" vs joined parts, leading_text_index, tabbed originals, the regenerator's two look-ups, explicit AssertionError / IndexError / KeyError, Python negative-index wrap): "
        "leading_store_roundtrip (consumeAll (storeAll ps) = ps for every list of newline-free prefixes), leading_store_roundtrip_bq (= bqNormal ps: the exact effect of \"\".split == [\"\"]), "
        "leading_index_inv (0 <= index <= len(split) along every run that respects the protocol Legal), remove_last_undoes_add(_bq), with witnesses for every excluded point "
        "(leading_store_excluded, leading_index_excluded, remove_last_excluded). Over Verif.Model.LeafFields: atx_fields, thematic_fields, setext_fields, fence_close_fields, blank_fields "
        "(reassemble (fields line) = line for EVERY line the leaf recogniser accepts) and fence_open_fields_partial + fence_open_fields_excluded (an opening fence without info string and with "
        "trailing white space stores that white space twice: F-FENCE-TRAILWS proved at field level). Tie: REAL token objects under all 2.27 M operation sequences of length <= 6 over six prefixes "
        "(11.6 M operations compared, state and exception after each), every store operation of the real parser / regenerator on ~9 k documents recorded by a class-level tracer and replayed through "
        "the model and through Legal, and the block-pass tokens + regenerated line of all 666 k strings of length <= 6 over each recogniser alphabet parsed by the real parser. Tie: every modelled function vs the real function on all 137 257 strings of length <= 6 over "
        "{\\b,\\a,U+0005,U+0003,\\,x,&} (each real call under a CPU timer; 5.9 M evaluations, hangs and ValueErrors included), 37 k piece lists encoded by the real encoders, tab / nth-occurrence / "
        "final-newline / pragma functions on their own alphabets, sentinel constants by reflection. Oracle = the property itself: TransformToMarkdown().transform(tokens) == source on the registered "
        "strata (one-line documents over all 18 prefixes x 35 bodies; all 41 472 two-line core documents; the repo's 4 945 test documents; core documents wrapped in quote / list; Unicode sweep of 49 code "
        "points at every position of every body; inline break/link templates; pragma insertion at every line).",
   note="PARTIAL: the ~5 000-line per-token regenerator (transform_containers.py, transform_list_block.py, the __rehydrate_* handlers) is NOT modelled; for it the claim is exploration of the registered "
        "strata only, not proof. Registered = core stratum (DESIGN §4); two-line documents over tab / nested prefixes, wrapped two-line documents and the wrapped corpus fail in many more families on the "
        "pinned tree (measured: 4 % / 1.1 % / 5 % of documents unmatched) and run only under VERIF_FRONTIER=1, outside the claim. Proof part holds on MarkerFree / escOK / tab-free-pragma domains as stated. "
        "Trusted: Lean kernel; harness (CPU timer 20 ms = non-termination, re-checked at 1.5 s); footprint predicates tools/footprints_c02.py (each reconstructs the expected wrong output and compares for equality). "
        "Findings on the pinned tree: F-THORN, F-X05, F-MARKER-RAW, F-CHARREF-MARKER, F-FENCE-TRAILWS, F-SETEXT-TRAILWS, F-BS, F-LRD-TRAIL, F-BQLIST-OUTDENT, F-SUBLIST-MARKER, F-BQTAB-BLANK, "
        "F-PRAGMA-TAB, F-PRAGMA-FINALNL, F-RT-DEEPNEST-1. Documents that do not tokenize are C01's (skipped, counted)."),
 "C03": dict(
   technique="Lean 4 proofs about an independent reference model of CommonMark (LeanMark, written from the specification) + refinement check "
             "abs(pymarkdown tokens) = reference events and normalised HTML equality on explicitly enumerated document spaces + pinned entity table",
   design_ref="DESIGN.md §6 C03, §5.4",
   text="Theorems over Verif.Model.LeanMark for ALL documents and all four readings of the two points where the specification's prose and its appendix differ: L_total, "
        "L_balanced / L_wellFormed (every block stream well nested and class-correct), L_inline_wellNested, L_escape, L_attr_safe (+ _alt, _alt_run: every attribute value the "
        "renderer writes — href, src, title, class from the info string, start, and the piecewise alt — is free of raw <, >, \"), tight_loose_spec (+ _lookup, _events, _plain, "
        "looseSpec_plain_iff, tree_classes: the renderer's single-pass tight/loose table equals the §5.3 definition computed by structural recursion on the block tree, for every "
        "forest and for the stream of every document; without link reference definitions it is the sentence of §5.3 verbatim), html_deterministic_in_events. "
        "Tie: for every in-scope document of the spaces (corpus of the repo's own parser/rule test documents + hand-made exemplars, all one-line PREFIX x BODY documents, all 20 736 "
        "two-line core documents, a fixed hash-selected slice of 30 000 of the 396 900 two-line and 30 000 of the 216 000 three-line documents, all 196 296 inline strings of at most 4 atoms; "
        "thorough about 282 000 documents, quick a seeded sample of the same spaces + the whole corpus) pymarkdown's token stream maps to the reference's event stream (kinds, heading level, "
        "list type / marker / start, fence info word, inline nesting) and TransformToGfm's HTML equals the reference's up to white space between block tags, extensions off. "
        "A document on which the two readings of the specification differ is accepted under either reading (completely: events and HTML of the same reading). "
        "pymarkdown's entities.json is compared with a reviewed copy of the WHATWG table.",
   note="Partial: the proofs are about the reference, not about pymarkdown; the universal claim for pymarkdown's container / inline glue rests on the explored spaces (no theorem about that code), "
        "and LeanMark is 'the compliant parser' by construction from the spec text and by validation (99.2 % of the repo's 4 360 expected-HTML pairs; the rest are the listed deviations), not by a "
        "proof against the spec's prose. Recogniser-level theorems (f_spec of DESIGN §5.3) are not built. Link destinations/titles, text and code content are compared through the HTML only; label type "
        "(inline/full/collapsed/shortcut) is not compared. Documents pymarkdown cannot tokenize / render (about 1 % of the nested spaces) are C01's subject and skipped. "
        "The pinned tree fails on about 1.6 % of the explored documents: 17 defect families (known_findings.json, F-C03-*, F-INFO, F-ALTRAW), each justified against the spec wording, "
        "4 402 exact inputs + signatures in findings/C03.inputs.json; an unlisted failing input or a listed one failing differently is a VIOLATION."),
 "C04": dict(
   technique="Lean 4 proof of a sound-and-complete stream monitor + the compiled monitor run on pymarkdown's real, un-abstracted token streams + independent direct oracle + plug-in stream comparison",
   design_ref="DESIGN.md §6 C04",
   text="Theorems over Verif.Model.WellFormed for ALL token lists: wfCheck_sound_complete (the one-pass stack automaton accepts iff the stream is a well-nested forest — every end token closes "
        "the innermost open start, is named end-<its name> and its back-pointer is that start, nothing left open — and respects the class discipline: root/containers hold containers and leaf "
        "blocks, leaf blocks and inline scopes hold only inline tokens, li only directly inside a list, special tokens only at the root, front-matter first, only the pragma token after "
        "end-of-stream), first_offender (the reported index is the first offending one), prefix_open_stack / prefix_accepted (after every accepted prefix the monitor's stack is exactly the "
        "still-open starts), drop_atom_preserves (removing point tokens cannot unbalance a stream), produce_wellNested / guarded_accepted (any producer writing only through push/pop/leaf, resp. "
        "monitor-guarded, primitives is accepted whatever it decides: transfer lemma for the reference producer). Tie: the compiled monitor decides the real stream (token_name, token class, "
        "EndMarkdownToken, requires_end_token, identity of start_markdown_token as an index) of every document of the pools: all one-line PREFIX x BODY documents, all two-line documents (core and "
        "full alphabets), all three-line PREFIX3 x BODY3 documents, every repo parser-test source and rule test document, and a subset with front-matter / strikethrough / task-list / "
        "extended-autolink extensions on (thorough: about 607k streams). Oracles: the statement read off the token objects by an independent recursive-descent reader; the monitor's stack tops vs "
        "the still-open starts computed from the definition; the stream delivered to a recording plug-in's next_token in a real scan == the parser's stream minus the pragma token.",
   note="Partial: no theorem about pymarkdown's own token_stack / token_document manipulation — the universal claim for the implementation rests on the monitored pools; documents that fail to "
        "tokenize or hang are C01's subject (skipped, counted; note that pymarkdown's inline pass asserts part of the discipline itself, so some nesting bugs surface as tokenization failures). "
        "li is checked to stand directly inside A list, not that it is the right one. Trusted: Lean kernel; the serialiser in tools/props/c04.py (li mapped to a point token in the driver). "
        "Finding: F-BLANK-IN-HTML (BLANK leaf token nested inside html-block)."),
 "C05": dict(
   technique="Lean 4 proofs about the reference model's positions (range, monotonicity, column bound, opening character of every block kind) + position refinement check through abs "
             "+ direct opener oracle on pymarkdown's tokens, on enumerated document spaces incl. container-wrapped, multi-line-inline and pragma-shifted documents",
   design_ref="DESIGN.md §6 C05, §5.4",
   text="Theorems over Verif.Model.LeanMark for ALL documents and readings: L_pos_range (1 <= line <= n, column >= 1, end lines and payload lines in range), L_lines_mono, L_col_bound "
        "(1 <= column <= length of the tab-expanded line), L_opener (the character of the tab-expanded line at the reported position is the element's opening character: > quote, bullet / first "
        "digit of list and item, # ATX, first text character of paragraph and setext heading, -_* thematic break, ` ~ fence, [ link reference definition, indented code after its 4 columns, "
        "HTML block < after <= 3 columns). Tie: on every document whose structure agrees with the reference (C03's comparison) the (line, column) of every abstract event of pymarkdown equals the "
        "reference's (about 770 000 positions, thorough); documents with pragma lines are compared with the reference on the document without them, lines shifted. Oracle independent of LeanMark: "
        "posOK(source, token) for every positioned token pymarkdown emits (about 850 000, thorough): line exists, column in the tab-expanded line, opener of the token kind at that position "
        "(setext: underline + original position = first text character), block tokens in non-decreasing line order. The same table is applied to the reference's own block and inline events on every "
        "explored document (0 failures). Spaces: C03's + every corpus document wrapped once in `> `, `- `, `1. ` + 3 048 multi-line inline element documents in 6 container contexts + "
        "20 000 corpus documents with a pragma line inserted (between blocks / inside a leaf block).",
   note="Partial: no theorem about pymarkdown's position arithmetic, and no inline L_opener theorem (inline openers of the reference are checked dynamically only). The comparison with the reference is made "
        "only where the structure agrees; elsewhere only the direct oracle applies, and it cannot see a position that points at another element's identical opener (that is how F-BQNESTCOL is only found "
        "by the comparison). Text tokens and soft breaks are not checked. html-block: the column where the block's own <= 3 columns of indentation start is accepted (pymarkdown's convention). "
        "Findings on the pinned tree: F-LISTCOL, F-BQNESTCOL, F-TABPOS (footprint predicates, about 9 800 tokens in the thorough sweep), and 733 exact inputs in findings/C05.inputs.json "
        "(F-C05-INLINECOL after multi-line inline elements, F-C05-BLOCKPOS, F-C05-HTMLCOL incl. a negative column, F-C05-LISTPOS, F-C05-PRAGMA-INSIDE, F-C05-PRAGMA)."),
 "C06": dict(
   technique="Reference-model correspondence: Lean 4 reference conditions written from the rule pages over LeanMark's block structure, compared with the real rules run alone; "
             "Lean 4 proof that pins each condition to its documented sentence and, for the line rules, proves the code-shaped (faithful) model equal to the documented one; "
             "page-example oracle independent of the model",
   design_ref="DESIGN.md §6 C06, §5.7",
   text="Verif.Model.RuleSpec.* gives, for each of the 24 rules, cond : documented configuration -> lines -> LeanMark events -> [(line, column?)], written from "
        "newdocs/src/plugins/rule_mdXXX.md only. Theorems (Verif.Props.C06, all unbounded): md009_iff, md010_iff (+ md010_one_per_tab), md012_iff, md012_faithful_eq_runs, md013_iff "
        "(i reported iff len(line i) > limit(kind i) and kind not switched off and (strict or white space beyond the limit)), md047_iff (clean iff the document is empty or ends with a "
        "newline character), md022_clean_iff, md025_clean_iff/_count, md001Go_clean_iff, md003Go_clean_iff, isDupOf_iff (MD024), md031_iff, md032_nested_silent, md035_fixed_iff, md040_iff, "
        "md041_heading/_para/_container, md042_iff, md046_fenced_iff/_indented_iff, md048_backtick_iff/_tilde_iff, md004_dash_iff, md018Text_iff, md026Text_iff: they only FIX THE MEANING of the "
        "reference. For the line rules the faithful models Verif.Model.LineRules (mirror of rule_md_009/010/012/047.py and of __next_line_fix_mode_end) are connected to the reference by real "
        "theorems: md010_faithful_eq_spec(_default) (columns len(detabify(prefix))+1 = tab-stop columns), md047_faithful_eq_spec, md009_faithful_eq_spec_partial (hypotheses: list_item_empty_lines "
        "off, br_spaces != 1, no tab in trailing white space — each excluded point has a decide-checked witness and is a finding), and the fixes satisfy md009/md010/md047_fix_removes_own_trigger "
        "(H1 of C09), _fix_idempotent, _fix_only_whitespace / md047_fix_only_newline (C08), md047_fix_iff_scan (except the empty document), and the pairwise interference table: "
        "md009_fix_creates_no_md010, md009/md010_fix_creates_no_md047, md010_md047_commute, md047_fix_creates_no_md009_md010, with decide-checked counter-examples for MD010 -> MD009 "
        "(a line ending in a tab) and for MD009/MD047 not commuting. THE PROPERTY ITSELF is decided by the correspondence: every rule alone, 1-8 documented configuration values each (74 "
        "configurations), real scan vs cond on every document of the pool (rule test resources, every repo parser-test source, all one-line PREFIX x BODY documents, all two-line core documents, 1788 generated heading-sequence / link-form / "
        "hash-line documents) that is in LeanMark's scope and on which pymarkdown's HTML equals LeanMark's: thorough = all 27,834 of 28,712 documents (2.06M evaluations, 260k non-trivial), "
        "quick = seeded sample of 2000. Secondary tie: LineRules "
        "scan (with columns) and fix (bytes) vs the real scan/fix under the line context read off LeanMark. Oracle: 97 examples copied from the pages (every Failure Scenario must be reported, "
        "every Correct Scenario must not) evaluated on the real rule and on cond.",
   note="Partial: reference-model correspondence — the theorems fix the meaning of the reference and (MD009 partial, MD010, MD047) its equality with the faithful model; the 20 token rules are "
        "explored, not proved. The reference is my reading of the pages: where a page is silent about WHERE a report goes the anchor line is a stated convention (columns compared only for "
        "MD010/MD013); readings chosen among ambiguous ones are marked in the RuleSpec files (MD022 exact count, MD012 runs per container scope, MD019 in columns and for non-closed headings, "
        "MD032 'normally' inside a block quote = relative to that quote, MD047 = at least one final newline). Outside the claimed set: front-matter (extension off), MD013 stern (page too vague; "
        "only its one unambiguous consequence is probed), MD024 siblings_only beyond the page example, LeanMark-out-of-scope or HTML-disagreeing documents (C03's subject), crashing rules (C07's). "
        "Findings (17 families, 2741 exact inputs in findings/C06.inputs.json, plus 5 page examples the real rule contradicts): MD009 list_item_empty_lines / br_spaces=1, MD010 indented code with "
        "code_blocks=False, MD012 list-marker lines counted as blank, MD013 SetExt text lines measured as the preceding element / stern inverted, MD018 seven hashes, MD019 empty heading, MD022/MD031/"
        "MD032 blind next to empty containers and at nested boundaries, MD023 inside multi-line links, MD024 Atx vs SetExt never equal, MD041 on blank documents (F-BLANKDOC). Trusted: Lean kernel, "
        "LeanMark (validated separately), the harness."),
 "C07": dict(
   technique="Lean 4 proof over a faithful rule-engine model + engine correspondence through probe plug-ins + direct oracle sweep",
   design_ref="DESIGN.md §6 C07",
   text="Theorems over Verif.Model.Engine (PluginScanFailure.__lt__ is a strict weak order whose incomparability is key equality; printed list is "
        "Pairwise-sorted by (line, column, rule id) and a permutation of the unsuppressed collected reports, also on the exception path; "
        "uniqueness iff the rules' reports are unique; counter = printed; a raising callback is wrapped as that rule's fault and nothing runs after it). "
        "The model is tied to the code by running probe rules (implemented twice: Lean and generated plug-ins) through the real `scan` and comparing printed "
        "order, errors, exit status and call logs. The rule bodies are not modelled: range / uniqueness / crash-freedom / determinism are evaluated on real scans "
        "of the document pool under default, all-enabled and each-rule-alone.",
   note="Partial: 46 rule bodies explored, not proved. Trusted: Lean kernel, harness, probe-rule generator. Rule crashes on the pinned tree are recorded by call "
        "site (rule, exception type, function) in known_findings.json."),
 "C08": dict(
   technique="Lean 4 proof over the fix-mode model (line pass) + fix-mode correspondence + fingerprint differential through the independent LeanMark renderer",
   design_ref="DESIGN.md §6 C08",
   text="fix_writes_every_line_once and linePass_id over Verif.Model.FixSched: the line phase of a fix pass writes every line exactly once and, when no rule rewrites, "
        "reproduces the document character for character; the repaired defect F-ENG (context re-binding truncating the file) is kept as a model with pinned_fix_line_loss. "
        "Tie: probe fixer rules through the real `fix` vs the model (bytes written back, file operations, call log). Oracle: the reference rendering (LeanMark, Lean) of the "
        "document before and after the real `fix` has the same fingerprint (block skeleton + whitespace-normalised text, modulo the documented normalisations), under the default "
        "rule set and each fix-capable default rule alone.",
   note="Partial: the 24 token-level fixers and the Markdown regenerator are not modelled — explored through the fingerprint differential only. Meaning-changing fixes of the "
        "pinned tree are listed input by input in findings/C08.inputs.json (F-FIX-MEANING). Documents outside LeanMark's alphabet are skipped (counted)."),
 "C09": dict(
   technique="Lean 4 proof over the fix-mode level scheduler + fix-mode correspondence + convergence sweep on the real rules",
   design_ref="DESIGN.md §6 C09",
   text="levels_strictly_increase and passes_bounded (the scheduler terminates in at most #levels passes, for every pass function), fix_fixed_point (one run leaves no fix-capable "
        "rule triggering, under H1 own-level clean / H2 no lower-level trigger created / Hdet detection complete), fix_idempotent, and the same-level gap witness. The concrete "
        "fixLoop is proved to be the abstract scheduler (fixLoop_eq_sched). Tie: probe fixers with chosen levels through the real `fix` vs the model (pass sequence, bytes, exit, "
        "operations, call log). Oracle: fix(d); scan(fix d) shows no fix-capable failure; fix(fix d) changes nothing — default set and each fix-capable default rule alone.",
   note="Partial: H1/H2/Hdet are hypotheses for the real fixers (explored). Non-converging inputs of the pinned tree are listed one by one in findings/C09.inputs.json (F-NONCONVERGE)."),
 "C10": dict(
   technique="Lean 4 proof over the fix-mode model (flags, file operations) + operation-log correspondence + per-file / multi-file oracle",
   design_ref="DESIGN.md §6 C10",
   text="overwrite_iff_flag (the target is written in a pass iff the pass completed and recorded a fix), untouched_if_no_record, temps_balanced, pass_ops, not_fixed_content_same "
        "(not announced ⇒ byte-identical), result_fixed_iff, scan_ops_readonly. Tie: real file operations (audit hook), bytes, 'Fixed:' line and exit status of probe-fixer runs vs the model. "
        "Oracle: per document bytes change ⇔ 'Fixed:' ⇔ exit FIXED and no fix-capable failure ⇒ untouched; subsets of files × {scan, scan-stdin, scan -l, fix} × both schemes with "
        "directory and temp-directory snapshots.",
   note="Partial: A-REC (a fix record implies different content) is explored, not proved; 10 listed inputs (F-FIXREPORT). Fixed: F-FIX-NORULES."),
 "C15": dict(
   technique="Lean 4 proof over the fix-mode fault model and a crash-point model of the write-back + fault enumeration on real runs + strace kill injection",
   design_ref="DESIGN.md §6 C15",
   text="fault_never_writes_target, fault_is_system_error, no_temp_left_partial with temp_leak_witness, early_fault_no_leak; rename_protocol_atomic vs copy_protocol_not_atomic / "
        "copy_protocol_completes. Tie/oracle: an exception injected at the k-th invocation of each callback, a parser failure, an undecodable file, at every position of a 3-file run, "
        "scan and fix, with and without --continue-on-error: exit status is the system error, the failing file is named, the other files are processed exactly as alone, every file is "
        "afterwards original or completely fixed, no temporary file left; the real write-back is killed with strace at each copy syscall and the file found is compared with the model.",
   note="category fault_enumeration would also fit; claimed as proof of the containment logic + enumeration. Partial: kernel behaviour between syscalls is not modelled. "
        "Findings: F-TMP, F-DECODE, F-COPY, F-TOKERR-UNNAMED."),
 "C11": dict(
   technique="Lean 4 proof over a faithful pragma model + engine/recognition correspondence + insertion differential on real rules",
   design_ref="DESIGN.md §6 C11",
   text="Theorems over Verif.Model.Pragma for every document / pragma text / id table: compile_targets (next-line hits n+1 only, num-lines N hits n+1..n+N), "
        "suppressed_iff / document_suppressed_iff (a failure is swallowed iff some pragma covers that line and names that rule), malformed_suppresses_nothing, "
        "resolve_ids_registered/_accounted, alias_invariance, pragma_invisible (the block parser is fed exactly the other lines, later ones numbered one higher), "
        "pragma_lines_recorded. Tie: probe-rule scenarios with every pragma form through the real scan vs the model; look_for_pragmas vs isPragma on all short strings. "
        "Oracle: scan and token stream of a document with a pragma inserted at every point vs the document without it.",
   note="Partial for 'parses as if deleted' inside multi-line elements: on the pinned tree this fails (finding F-PRAGMA-INSIDE, footprint = the document does not split "
        "cleanly at the insertion point); at clean split points the oracle is exact. ASCII case folding."),
 "C12": dict(
   technique="Lean 4 proof over the engine model + rule-field table regenerated from source (translator) + subset differential on real rules",
   design_ref="DESIGN.md §6 C12",
   text="union_collected / union_printed / disable_removes_own_only: for every rule set, state and event stream the interleaved dispatch collects a permutation of "
        "what each rule collects alone and leaves each rule in the state it reaches alone; no_shared_writes / no_module_state by decide over Verif.Gen.RuleFields "
        "(AST of every rule source, regenerated each run) against a reviewed baseline. Differential: each rule alone, all, default, default minus each on the document pool.",
   note="Trusted: Lean kernel; rule_fields.py (syntactic abstraction: no setattr/__dict__ tricks), cross-checked by the differential; theorems assume no raising callback."),
 "C13": dict(
   technique="Lean 4 proof over the engine model + reset tables regenerated from source (translators: rules; parser/shell statics) + state snapshots + pair/triple differential",
   design_ref="DESIGN.md §6 C13",
   text="file_history_independent / run_history_independent / run_prefix_history_independent for rules whose starting_new_file is a total reset; exceptions_pinned, "
        "reset_rhs_const, no_start_no_state by decide over Verif.Gen.RuleFields against the reviewed baseline of 20 written-before-read exceptions; reset_needed_witness. "
        "Dynamic cross-check: vars(rule) after starting_new_file, fresh vs after a document. Differential: ordered pairs and triples of pool documents in one invocation "
        "vs alone (scan default, scan all rules, fix; the sequence position is the leading path component), and a reused PyMarkdownApi object. "
        "Parser and shell: statics_reset / statics_exceptions_pinned / statics_resets_pinned / statics_config_pinned / statics_wellFormed / statics_coverage by decide over "
        "Verif.Gen.ParserStatics (every class-/module-level mutable or written binding and every instance attribute of the long-lived objects is constant on the "
        "per-document path, re-bound at the start of every per-document entry function, or one of 6 reviewed exceptions with pinned writer sets); "
        "parser_state_history_free (any per-document body that leaves constant keys alone and does not read the exception keys is history free). Dynamic cross-check: "
        "whole-state snapshots in one fresh process right after each per-document initialisation, first document vs after every pool document (scan, fix, API reuse).",
   note="Trusted: Lean kernel; rule_fields.py and parser_statics.py abstractions (syntactic: name-resolved call graph, parameter-mutation summaries, one-step aliases; "
        "cross-checked by snapshots every run); the baseline exceptions are claimed only on the explored sequences; state outside the interpreter (logging module "
        "level, file system) is not in the table."),
 "C14": dict(
   technique="Lean 4 proof over the engine model + life-cycle correspondence through recording probe plug-ins",
   design_ref="DESIGN.md §6 C14",
   text="lifecycle_scan / lifecycle_files: for every rule set without raising callbacks and every file, each rule's call log grows by exactly start?, tokens?, "
        "lines 1..n with exact text?, done(n+1)?; lines_numbered, lines_count. Tie: recording probes with every subset of overridden callbacks, enabled and disabled, "
        "ids sorting before/between/after the built-ins, on empty / one-line / no-final-newline / pragma-only documents and multi-file runs: real call log vs model log "
        "and vs the property's shape computed from the file text and the real token stream.",
   note="Scan mode. The fix-mode pass shape is not yet modelled (DESIGN §8 F-LIFE). Trusted: Lean kernel, probe generator, str(token) as token identity."),
 "C16": dict(
   technique="Lean 4 proof over faithful models of the line providers, stdin/API spool and API argument assembly + provider/spool/argparse correspondence + four-way entry-point differential",
   design_ref="DESIGN.md §6 C16, §5.1",
   text="Theorems for all strings: joinNL_splitNL, splitNL_length, univNL_idem, fsp_eq_split (FileSourceProvider = splitNL∘univNL with the end-of-file flags characterised), "
        "mem_eq_split, fsp_eq_mem, spool_idem (stdin→temp file→reader = direct read), api_args_equiv, log_args_inert. Tie: real providers vs model on all strings over "
        "{a,space,LF,CR,TAB,é} of length ≤ 6; the temp file really written by __scan_from_stdin vs the model; __build_common_arguments, the real argparse parser and the real "
        "enable/disable outcome vs apiArgs/parseArgs/cmdLineState. Oracle: scan file / scan-stdin (in-process and real subprocesses) / scan_string / scan_path and fix in place / "
        "fix_path / fix_string on 401 documents × 12 rule selections; every log level × --stack-trace × log file leaves failures, exit code and files identical.",
   note="Trusted: Lean kernel; harness canonicalisation; argparse modelled only for the option forms the API and user guide use; ASCII identifiers; os.linesep = LF. "
        "Empty/whitespace-only strings are rejected by the API by documentation and excluded from scan_string/fix_string only. Findings: F-FIXSTR-NL, F-SPOOL-LOCALE."),
 "C17": dict(
   technique="Lean 4 proof over a faithful configuration model + tables regenerated from source and docs (translators) + exhaustive in-process correspondence",
   design_ref="DESIGN.md §6 C17",
   text="Theorems over Verif.Model.Config: merge_last_wins, layer_order (six-layer total order for every layer content, consistently named rule), cmdline_over_all, "
        "disable_over_enable (+wildcard), alias_invariance (rule state and every setting), first_section_wins with the mixed-identifier witness, lenient_default / strict_error; "
        "code_eq_doc / doc_layer_order / code_layer_order by decide over Verif.Gen.RuleMeta and Verif.Gen.DocTables, regenerated every run from a real PluginManager, the rule pages, "
        "advanced_configuration.md and the AST of the loaders, modulo the committed Baseline.docDiffs. The real application is run in-process on the whole finite space (about 12k cases) "
        "and compared with the compiled model and with the documented order written independently in Python.",
   note="Trusted: Lean kernel; translators rule_meta.py / doc_tables.py; json/PyYAML/tomli parse the files; in-range/out-of-range values from a hand table; ASCII identifiers; "
        "extensions' enable flags not covered. Findings: F-HARDLIST-MD033/-MD044/-PML100, F-MD043-DOCNAME."),
 "C18": dict(
   technique="Lean 4 proof over tables regenerated from source (translator) + process-level scenario correspondence",
   design_ref="DESIGN.md §6 C18",
   text="Theorems (code table = documented table = property table; error never masked; precedence; full decision table over all "
        "64 observations) are proved over Verif.Gen.ExitTable, which is regenerated from return_code_helper.py, main.py and the "
        "user guide on every run, so a changed cell or re-ordered result chain breaks an obligation. Every outcome category is then "
        "produced in every way the application can (≈55 scenarios × 8 scheme selectors) and the real exit status is compared with "
        "the model and with the property's table.",
   note="Trusted: Lean kernel; translator exit_table.py (AST shape of the if-chain, reflection of the scheme maps, Markdown table "
        "parse); scenario categories assigned by hand from the user guide; parser failures injected at transform_from_provider. Finding: F-NOFILES."),
 "C19": dict(
   technique="Lean 4 proof over a faithful model of application_file_scanner.py (+ modelled os.path/os.walk/glob/fnmatch) and a documentation-level spec; exhaustive in-process correspondence on materialised trees; end-to-end subset",
   design_ref="DESIGN.md §6 C19",
   text="Unbounded theorems on `discover`: sorted, no duplicate string, every result an eligible existing file, completeness w.r.t. the documented designation, error flag and "
        "(without error) result independent of argument order, --recurse monotone; under Normalised arguments each file once and discover = spec (written from the user guide), "
        "and the invocation outcome = documented outcome except exactly F-LIST / F-NOFILES (witness theorems for F-DUP, F-LIST, F-NOFILES). Tie: all 413 parent-closed trees "
        "≤5 entries × 726 argument multisets × recurse × list × 4 extension strings: real determine_files_to_scan == model; glob.glob and fnmatch models validated every run; "
        "end-to-end runs (scan, fix, scan -l, list_path).",
   note="Trusted: Lean kernel; harness; modelled not verified: glob/fnmatch/os.path/os.walk (validated each run); POSIX, no symlinks, relative paths below cwd; "
        "Normalised/WF hypotheses as stated."),
 "C20": dict(
   technique="Lean 4 proof over a faithful front-matter model (parametric in the parser proper via the shift law) + extension-flag table regenerated from the AST of the source "
             "(translator) + header-stage / handler-table correspondence + 64-subset inertness differential",
   design_ref="DESIGN.md §6 C20, §2.2 ExtFlags, §8 F-FM",
   text="Theorems over Verif.Model.FrontMatter for EVERY parser proper satisfying ShiftInvariant, every YAML oracle, both allow_blank_lines settings: fm_shift (valid block of k lines -> "
        "front-matter token ++ shift_k(parse rest)), fm_token_only_valid (converse), fm_abandon_identity (+ syntactic corollaries: not a start / blank line / invalid YAML with equally "
        "spelled fences -> exactly the plain parse), fm_disabled_identity, start_line_shape (start = `---` + trailing ASCII whitespace only), excluded points fm_eof_error/fm_eof_witness "
        "(F-FM), fm_close_spelling_witness (F-FM-CLOSE), fm_yaml_raise. Over Verif.Gen.ExtFlags (regenerated every run): flags_guard (every extension hook site outside the extension "
        "packages is dominated by its own flag or is a reviewed data-driven consumer), reviewed_pinned, wiring_straight/_complete, defaults, copies_only_in_props, every_flag_guards, "
        "ext_chars_owned, handlers_off/_on, all_off_tables, emph_strike, handlers_depend_on. Tie: real flags and inline handler/emphasis tables for all 64 subsets == model tables; real "
        "header stage (wrapped __process_front_matter_header_if_present: next line, line number, requeue, provider rest, token, exception) == model headerStage on the whole header-shape "
        "product (start x body x close x rest x position x LF/CRLF x allow_blank_lines; YAML verdict from the real __validate_yaml), and end to end through the real parser. Oracle "
        "(independent of the model): Python restatement of 'valid block' decides token++shift (tokens, HTML, regenerated Markdown) vs plain parse; inertness over 64 subsets x pool split "
        "by trigger syntax: output depends only on S ∩ triggers(doc); a disabled extension leaves no artefact token; all-off == default == expected HTML on the repo's spec cases "
        "(188 of them full of extension syntax).",
   note="Partial for 'behaves as plain CommonMark' (reference = repo spec expectations until LeanMark) and for 'changes only documents containing the syntax' inside the shared passes "
        "(explored on the finite pool, not proved). Trusted: Lean kernel; ext_flags.py (syntactic guard analysis; private helpers guarded via their call sites; asserts not counted); "
        "PyYAML outside the model (verdict passed in); MainLoop abstraction (requeue+provider = concatenation, checked end to end); textual trigger predicates. "
        "Findings: F-FM, F-FM-CLOSE, F-FM-YAML-TYPEERROR/-READER/-TESTHOOK, F-EA-IMG-ALT, F-HTML-LEADNL."),
}

# Building blocks integrated after the first build (builder sessions): sentences appended to level_claimed.text / technique.
EXTRA = {
 "C01": dict(text=" Function-level building blocks: Verif.Props.LinkRecog link_recognisers_total / lrd_total (destination, title, label, inline body, backslash and character-reference handlers, link reference definition parse: no IndexError / assert, returned index in range, progress), Verif.Props.InlineRecog inline_recognisers_total_partial, tag_scanners_total, fuel_sufficient (raw HTML, autolinks, character references, escapes, code spans) with excluded-point witnesses that are real crashes (F-TOK-CHARREF-RANGE, F-TOK-EMPTY-COMMENT, F-TOK-STARTTAG-SLASH), Verif.Props.Emphasis resolve_total_partial, fuel_sufficient_partial, fuel_monotone. Ties: real functions vs models on all strings <= 6 over per-function alphabets (42 M + 56 M requests thorough) and 2.6 M emphasis requests. Over Verif.Model.BqCount (faithful model of block_quote_count_helper.count_block_quote_starts and its helpers, arbitrary stack / flags, explicit IndexError / "
                  "AssertionError / divergence): loop_fuel_mono, count_terminates (the fuel len+2 is never exhausted when the start index is inside the line), count_diverges (outside the line the "
                  "real loop hangs: witness), count_total and count_bounds (list-free stack, caller's guard). Tie: real function vs model on all strings <= 7 over {>, space, tab, a, -} x start index x 16 stack "
                  "configurations (3.4 M calls thorough)."),
 "C02": dict(text=" Function-level building blocks: Verif.Props.LinkRecog inline_body_reassembly, dest/title/label/lrd_pieces_reassembly, rehydrate_lossless_partial with rehydrate_excluded (F-RT-EMPTY-TITLE); Verif.Props.InlineRecog angle/rawhtml/charref/backslash/codespan_reassembly, codespan_text_roundtrip; Verif.Props.Emphasis resolve_conservation, resolve_plains_preserved, resolve_lossless_partial. Over Verif.Model.Coalesce (faithful model of coalesce_text_blocks, TextMarkdownToken.combine / remove_final_whitespace, both modes): merge_preserves_content, "
                  "coalesce_preserves_content (flatten unchanged; hypotheses with witnesses content_excluded_final / _tab), coalesceOnly_preserves_text, coalesce_preserves_nonText, coalesce_marks_spec, "
                  "coalesce_error_iff. Tie: spy on the real pass during real parses + synthetic lists of real token objects (590 k cases thorough)."),
 "C03": dict(text=" Function-level building blocks: Verif.Props.LinkRecog dest_angle_spec, dest_raw_spec, title_quote_spec, title_paren_spec, label_spec (pymarkdown's recognisers = LeanMark's specification scanners on stated inputs, *_differs witnesses outside), unescape_value, normalize_spec; Verif.Props.InlineRecog backslash_spec, uri_spec_partial, email_spec + email_regex_is_model, charref_spec_partial, open_tag_is_lenient_automaton, rawhtml_spec_partial, codespan_spec_partial; Verif.Props.Emphasis flanking / can_open / can_close / rule_of_3 = the CommonMark sentences, rule_of_3_deviation (F-C03-RULE3-REMAINING); Verif.Props.GfmRender (faithful model of TransformToGfm, every HTML handler and list looseness): render_total, render_balanced, render_escapes, looseness_spec_partial (= the CommonMark definition on the token tree, 7 excluded streams), paragraph_tightness_partial. Tie: byte-exact HTML and is_loose flags on 46 k real documents, 365 k synthetic well-formed and 101 k ill-formed streams. Over Verif.Model.BqCount: count_eq_spec (the faithful marker count = an independent recursive specification), specStack_eq_specCM / count_eq_commonmark_partial (= the CommonMark "
                  "block-quote-marker definition under the stated hypothesis; witness commonmark_excluded '>  >')."),
 "C04": dict(text=" Function-level building blocks: Verif.Props.Emphasis resolve_wellNested (emphasis start/end tokens balanced and properly nested for every delimiter list, every policy), resolve_specials_ordered; Verif.Props.GfmRender render_run / render_balanced (the generator's own stack discipline on well-formed streams; explicit IndexError / AssertionError results on ill-formed ones). Over Verif.Model.Coalesce: coalesce_preserves_wf (WellNested and ClassOK of the stream survive the coalesce pass; blank_in_code_is_rejected shows the pass repairs the block-pass stream), "
                  "coalesce_no_adjacent_text, coalesce_no_blank_in_code."),
 "C05": dict(text=" Over Verif.Model.LeafPos (faithful model of PositionMarker / index_indent / realize_leading_whitespace and the position each leaf processor assigns): atx_pos_true, thematic_pos_true, "
                  "fence_pos_true, setext_pos_true, paragraph_pos_true, indented_pos_true_partial (+ indented_pos_excluded = F-ICODE-BLANK-IN-LIST), leafView_spec, opener_is_source_char, atx_pos_source "
                  "— for all lines, all container indents: the column points at the element's own opening character of the tab-expanded line and lies within it. Over Verif.Model.Coalesce: "
                  "merged_position_first. Tie: real tokens of all strings <= 6 over each recogniser alphabet at top level and <= 5 behind '> ', '- ', '1. ', '   ' (526 k documents thorough)."),
 "C06": dict(text=" Function-level building block Verif.Props.TokenRules: md001/004/035/048/038/039_scan_iff (faithful scan = the documented sentence), md001/004/035/048_faithful_eq_spec (= the reference conditions of Verif.Model.RuleSpec), mdX_scan_reads."),
 "C08": dict(text=" Function-level building block Verif.Props.TokenRules: mdX_fix_only_style for MD001 MD004 MD029 MD035 MD048 MD019 MD021 MD038 MD039 — token count, order, kinds and every field other than the named style field unchanged (md001_fix_eq_clamp: exactly previous level + 1); md038_fix_empties_span is the proved counter-example (F-MD038-ONE-SPACE)."),
 "C09": dict(text=" Function-level building block Verif.Props.TokenRules: H1 (mdX_fix_removes_trigger) and mdX_fix_idempotent for eight token fixers, proved false for MD038 (md038_fix_keeps_trigger); H2 as the 28-pair inertness table with counter-examples md001_md019_interference, md029_md030_interference; bundleA/B_fix_removes_triggers (joint level-1 pass). Tie: real rule classes through a real PluginManager on real and synthetic token streams (1.3 M comparisons thorough)."),
}

# Round-4 building blocks (sentences appended to level_claimed.text, one list entry per block and property).
INLINELOOP = (" Verif.Props.InlineLoop (faithful model of the inline dispatcher InlineProcessor.__process_inline_text_block with the text-block and line-end helpers; "
              "loop theorems hold for EVERY handler table meeting the contract RespOK, and real_table_meets_contract_partial shows the modelled recognisers meet it): ")
SCANRULES = (" Verif.Props.ScanRules (faithful per-token state machines of MD003 MD022 MD024 MD025 MD026 MD036 MD040 MD041 MD042 MD045, real rule classes driven through a real "
             "PluginManager: 2.4 M comparisons thorough, 347 of 347 rule lines reached): ")
REGENLEAF = (" Verif.Props.RegenLeaf (faithful model of the container-free Markdown regenerator: TransformToMarkdown.transform main loop, final-newline correction, "
             "every leaf / inline / front-matter rehydrate handler, paragraph rehydrate_index in an object store; tied to the real transform on 340 k distinct real and "
             "field-mutated streams, 68 k real exceptions at 27 call sites agreed): ")
LISTSTARTS = (" Verif.Props.ListStarts (faithful model of list-item start recognition for an ARBITRARY stack: list_block_starts_helper, list_block_pre_list_helper, "
              "list_block_can_close_helper with the close_open_blocks pop and find_last_block_quote_on_stack; real functions on real stack / token objects in a real ParserState: "
              "117 M requests thorough + 258 k calls harvested from 19 k parses, line coverage 422 of 422): ")
LEAFBLOCKS2 = (" Verif.Props.LeafBlocks2 (faithful models of the HTML-block start / end conditions of html_helper.py and leaf_block_helper.py, of fenced-code content lines and "
               "of indented-code content lines; spec side HtmlBlockSpec from CommonMark 4.4-4.6 in the 0.29 and 0.31 versions; 13.8 M requests thorough, type-6 tag table of the "
               "source = model = CommonMark 0.29 re-checked every run): ")
SCANRULES2 = (" Verif.Props.ScanRules2 (faithful models of MD011 MD013 MD014 MD018 MD020 MD028 MD032 MD033 MD034 incl. the next_line side of MD011 / MD013; 1.14 M comparisons "
              "thorough through a real PluginManager, 411 of 411 lines of the modelled methods reached, four regular expressions checked against CPython's re by tables): ")
TOKENRULES2 = (" Verif.Props.TokenRules2 (264 theorems; faithful models of MD023, MD030 scan + fix, MD037 incl. __process_fixes' running offset, MD044, MD046 over the extended token, "
               "replacement records, pragma re-keying, the joint passes md029+md030 / md023+md030; 4.8 M comparisons thorough against the real rule classes): ")
LISTRULES = (" Verif.Props.ListRules (faithful models of ContainerTokenManager, MD007 and MD006, scan + fix; 2.4 M comparisons thorough, every executable line of the three modules hit; "
             "MD005 is not modelled): ")
EXTRA2 = {
 "C03": [" Verif.Props.LeafBlocks2b (32): html_start_spec_partial (kinds 2-5, every line indented <= 3, no further hypothesis), html_start_spec1_partial (kind 1, TAB-free; html_start_spec1_excluded), html_start_spec6_partial / html_start_spec_1to6_partial (any text without TAB and U+212A; both hypotheses shown necessary), html_start_spec_indented, html_start_spec_other, html_start_spec_partial_cm031, and every departure from the specification as a theorem: html_start_differs_dash / _digit / _upper_attr / _digit_attr / _kelvin / _textarea / _search / _decl_lower / _close_pre, html_end_differs_case; fence_content_tab_excluded (three AssertionError shapes), fence_close_tab_excluded.",
         " Verif.Props.ListStarts2: list_start_two_lists_columns (the limit is always 3 + parent indent), list_start_two_lists_spec_partial / _ordered_spec_partial (verdict <=> ItemStart counted from the inner / outer / column-0 base under TwoAgree) with list_start_two_lists_excluded ('- a\\n  - b\\n        - c': double-counted parent indent, arguments recorded from the real parser), content_column_spec2_partial, content_column_block_quote_spec_partial, content_column_tab_excluded.",
         LEAFBLOCKS2 + "html_end_spec (kinds 2-5, iff), html_end_spec_blank, html_end_spec_partial + html_end_excluded (</PRE>), type7_no_interrupt, fence_content_spec_partial, icode_content_spec, icode_not_eligible; html_start_spec is stated and FALSE as an equality (witnesses: <-> , <1 a>, <a B>, <a 1>, KELVIN <linK>) — totality, locality and no-interrupt are the proved parts, the tie compares with the specification on the whole space and reports the difference classes.",
         LISTSTARTS + "list_start_spec (accepts exactly the CommonMark marker sentence; marker_sentence_is_leanmark ties the sentence to LeanMark's listMarker?), "
         "list_start_decomposition (the verdict for any stack), same_list_spec (5.3: same bullet character / delimiter continues the list), interrupt_spec_partial + interrupt_excluded "
         "('a\\n01. b': is_not_one compares the text with \"1\"), content_column_spec_partial + two excluded witnesses recorded from real runs ('- -   \\n    a' gives indent 6, spec 4), "
         "list_start_nested_spec_partial + witness ('- a\\n      - c' becomes a nested list: the parent indent is counted twice), first_item_clause_inert (dead logic), columns_conserved."],
 "C01": [" Verif.Props.ListStarts2: list_start_total_tabs (corollary of list_start_total / pre_list_total for lines with TABs), leading_space_move_conserves / pre_list_leads_conserved (the non-empty per-line prefixes of the block-quote tokens are conserved as a multiset by the leading-space move; order and empty lines are not: two proved witnesses).",
         " Verif.Props.InlineLoop2: index_any_of_literal (the literal Python loop of ParserHelper.index_any_of = the model's first-hit definition = a position scan, all inputs).",
         LEAFBLOCKS2 + "html_block_total (+ html_block_total_excluded), html_normal_range, html_special_local.",
         LISTSTARTS + "list_start_total (every Int start index, guard StackOK, list_start_excluded witnesses), pre_list_total / pre_list_excluded, close_required_total, "
         "close_required_prefix, can_remove_total, can_close_terminates; root cause of the call-site finding F-TOK-AE-handle_list_nesting located (stack_count >= current_count + 2 runs "
         "the nesting loop twice: '> > a\\n- b').",
         INLINELOOP + "inline_loop_terminates (turns <= number of inline start characters; fuel always sufficient), inline_loop_total (under the guard envOK and the contract the only "
         "errors are a handler's own; six excluded-point witnesses, one per contract clause, each replayed on the real loop with a stub registered in the real handler table). Tie: real loop "
         "vs model on all strings <= 5 over the inline alphabet x 9 environments (1.69 M cases thorough) and every one of 5.2 M recorded loop turns of real parses is a legal model transition."],
 "C08": [TOKENRULES2 + "mdX_fix_only_style for the five (which fields of which token kinds may change and by how much; MD037: only spaces adjacent to a marker are removed, "
         "MD044: only letter case inside a matched name, lengths preserved) with PROVED counter-examples where the real fix destroys text: MD037 'a * * b' -> 'a * b', nested pairs delete a "
         "letter; MD044 with a dotted capital I shifts every later index; MD023 deletes a leading &copy; from a SetExt heading line; MD046's pragma line delta uses end_token.line_number (0).",
         REGENLEAF + "regen_field_local (changing one style field of one leaf token — ATX hash count, fence character, thematic break text … — changes only that token's own "
         "contribution to the regenerated text; regen_field_local_excluded shows the one field shape where it does not): the token-level statements mdX_fix_only_style transfer to text "
         "for container-free documents."],
 "C02": [" Verif.Props.RegenLeaf2: fence_close_no_colon + regen_leaf_roundtrip_fence (the closing-fence hypothesis of regen_leaf_roundtrip is now proved, not assumed), regen_icode_closed, regen_icode_roundtrip_partial (indented code without blank lines / tabs). Verif.Props.InlineLoop2: inline_loop_line_end_partial (where every character of a line-break turn goes: backslash hard break, space hard break, soft break; nothing lost).",
         LEAFBLOCKS2 + "fence_content_roundtrip_partial, icode_roundtrip (stored white space + text = the source line, through C02's resolve_encode / remove_encode; general for tab-free lines, TAB cases are #guard tests + tie).",
         REGENLEAF + "regen_total (no exception on streams satisfying the explicit guard WF, by a guard-to-context simulation; 12 regen_excluded_* witnesses, one per guard clause), "
         "regen_concat / regen_concat_parts (the output is the concatenation of per-token contributions + final-newline correction), regen_blocks_compose, regen_paragraph_text / "
         "regen_paragraph_document, regen_leaf_roundtrip (blank line, thematic break, ATX heading, paragraph, setext heading, closed fenced block: regenerating the tokens the block pass "
         "produces gives back the lines — composes the LeafFields reassembly lemmas; stream-level witnesses for F-THORN, F-FENCE-TRAILWS, F-SETEXT-TRAILWS), regen_pragma_only_last.",
         INLINELOOP + "inline_loop_conservation (text pieces and handler-consumed ranges tile the paragraph text exactly; nothing handled twice), inline_loop_content_partial "
         "(what the text tokens hold through Codec.encode, one-line texts)."],
 "C04": [INLINELOOP + "inline_loop_order (the inline token list only grows at its end; no two adjacent plain text tokens), real_table_order."],
 "C05": [INLINELOOP + "inline_loop_positions_partial and loop_tokens_positions (line/column at every turn, the position handed to each handler and the one used for text tokens = the true "
         "position), with the full statement PROVED FALSE for the code by positions_excluded_multiline / positions_excluded_setext — the root causes of the known family F-C05-INLINECOL "
         "(an element spanning a line break does not advance the paragraph's per-line indentation index; setext heading after a hard break counts the indentation twice; the code-span "
         "column delta ignores the paragraph's leading white space)."],
 "C06": [" Verif.Props.ScanRules1b: md042 / md045 / md041_faithful_eq_spec_stream (whole report list = the reference condition on explicitly extracted elements; difference classes proved: U+00A0, U+000B, <H1>, trailing '<h1 '), md026_faithful_eq_spec_exact (iff; the verdicts differ exactly when the text ends in a configured ';' that closes a character reference: md026_differs 'a&#33;'), md022_above_closed_form / md022_verdict_closed_form (no recursive notion for container-free streams) with md022_closed_form_excluded.",
         " Verif.Props.ScanRules2b: md032_scan_iff (under the guard Safe032; the condition is stated over the containers still on the rule's stack, which keeps a list that ended after a blank line: md032_never_popped), md018/md020_scan_iff_partial (one-paragraph files), md013_faithful_eq_spec_partial + md013_faithful_differs_stern.",
         TOKENRULES2 + "mdX_scan_iff and mdX_faithful_eq_spec (or _partial + proved witness, each run on the real rule) for MD023 MD030 MD037 MD044 MD046.",
         SCANRULES2 + "mdX_scan_iff for MD013 and MD011 (under the guard that leaf / blank-line tokens start on increasing lines: the governing token of a line is the last such token starting at or before it), MD014 MD034 MD028 (every stream), MD033 (when the assert cannot fail); MD018 MD020 MD032: model + tie + excluded points (md032_stack_leak).",
         SCANRULES + "mdX_scan_iff (reports <=> a sentence-shaped condition over the stream; unconditional for MD003 MD022 MD025 MD040 MD042 MD045, under a guard every parsed stream "
         "satisfies for MD024 MD026 MD036 MD041, 8 excluded-point witnesses), mdX_faithful_eq_spec against Verif.Model.RuleSpec (full: MD003 MD024 MD025 MD040; _partial with proved "
         "witnesses md045_differs (U+000B), md042_differs (U+00A0), md041_h1_differs (<H1>), md024_text_differs, md022_count_unknown_after_list)."],
 "C07": [" Verif.Props.ScanRules2b: md032_total, md032_reports_in_range (+ md032_line_above_excluded), md018_total_partial, md018_reports_in_range_partial with md018_reports_in_range_excluded ('   x\\n#a' -> 2:4).",
         LISTRULES + "md007_total_partial (no exception on streams satisfying an explicit invariant: balanced containers + a line budget for the enclosing block quotes; proof by refining the dict bookkeeping to a frame stack), md007_total_excluded_known_crash (the known IndexError stream violates the invariant and the model raises as the real rule does) + five more excluded witnesses, md006_total, md007_reports_in_range, md006_reports_in_range; the invariant holds on 110 976 of 111 004 parsed streams, the 28 others are the 7 known-crash documents x 4 configurations.",
         SCANRULES2 + "mdX_reports_in_range for MD013 MD011 MD014 MD033 MD034 (adjust034_bounds), mdX_total for MD014 MD028 MD034 (every file) and MD013 MD011 MD033 (under their guards); excluded points that are real crashes: md033_excluded (<h1 </h1>), md011_excluded / md013_excluded (a one-line pragma document: empty leaf-token list).",
         SCANRULES + "mdX_reports_in_range for all ten (every report's (line, column) is the position, or for a SetExt heading the original position, of a token of the stream of the named "
         "kind; md026_delta_bounds for MD026's computed deltas)."],
 "C12": [" Verif.Props.ScanRules1b: md041_scan_reads_exact, md036_scan_reads_exact (line and column of the remembered token only), md041_md036_position_read.",
         " Verif.Props.ScanRules2b: allNine_projection (each of the nine rules alone returns exactly its share of the joint list, same order, token and line pass), md018_scan_reads, md020_scan_reads.",
         SCANRULES2 + "mdX_scan_reads for MD011 MD013 MD014 MD028 MD032 MD033 MD034.",
         SCANRULES + "allTen_projection (in the joint pass each rule's share of the report list is exactly what it reports alone, same order), mdX_scan_reads (the verdict depends only on the "
         "named token kinds / fields)."],
 "C13": [" Verif.Props.ScanRules2b: md018_state_reset, md020_state_reset for ALL A, B (the three parser fields starting_new_file leaves alone are assigned at the next paragraph start before they are read).",
         LISTRULES + "md007_state_reset_partial (for EVERY leftover state of the plug-in object, incl. a file abandoned in the middle of the token pass), md007_state_reset_excluded, ctm_clear_eq_fresh_iff (ContainerTokenManager.clear() does not reset list_adjust_map: after clear() the manager equals a fresh one iff the map was empty — reports on well-formed streams proved unaffected), md006_state_reset.",
         SCANRULES2 + "mdX_state_reset (file B after file A = B alone, all A, B) for MD011 MD013 MD014 MD028 MD032 MD033 MD034; md018_stale_delayed_line (MD018 / MD020 reset 4 of 7 parser fields: a stale delayed line is reported into the previous file's context); 43 k two-file comparisons against fresh rule objects.",
         SCANRULES + "mdX_state_reset: scanAfter rule cfg A B = scan rule cfg B for ALL streams A, B (nine rules assign every field in starting_new_file; MD022 leaves "
         "__start_heading_blank_line_count unassigned: proved harmless, with an example that the start states really differ); 71 k two-file sequences on one PluginManager vs fresh objects."],
}

def main():
    checks = []
    for pid in ALL:
        if pid not in CHECKS:
            continue
        c = dict(CHECKS[pid])
        for k, v in EXTRA.get(pid, {}).items():
            c[k] = c[k] + v
        for v in EXTRA2.get(pid, []):
            c["text"] = c["text"] + v
        checks.append({
            "property_id": pid,
            "quick_cmd": f"./check {pid} --tier quick",
            "thorough_cmd": f"./check {pid} --tier thorough",
            "evidence_file": f"evidence/{pid}.json",
            "replay_cmd_template": f"./check {pid} --replay {{path}}",
            "engine": "lean4+correspondence",
            "level_claimed": {"category": c.get("category", "proof"), "text": c["text"], "design_ref": c["design_ref"]},
            "level_note": c["note"],
            "technique": c["technique"],
        })
    na = [{"property_id": p, "reason": "check not built yet in this round (model planned in DESIGN.md §6); not claimed"}
          for p in ALL if p not in CHECKS]
    m = {
        "version": 1,
        "setup_cmd": "./setup.sh",
        "hooks": {"guard": "PYMARKDOWN_VERIF", "enable": "no source hooks are used; observation is through --add-plugin probe plug-ins, "
                  "harness-level wrappers and audit hooks", "baseline_off_cmd":
                  "cd /repo && /venv/bin/python -m pytest -ra -q -p no:cacheprovider --timeout=900 --continue-on-collection-errors",
                  "source_commits": [], "add_only": True},
        "engines": [{"name": "lean4+correspondence", "path": "lean/", "serves_properties": sorted(CHECKS),
                     "kind_free_text": "Lean 4.33 models + theorems (lake project Verif), tables regenerated from /repo by tools/translate, "
                                       "compiled model driver verifdrv compared with the in-process implementation by tools/props/*.py"}],
        "checks": checks,
        "not_applicable": na,
        "notes": "See DESIGN.md. ./check <id> --tier quick|thorough; VERIF_SEED honoured; exit 2 = machinery failure (never a violation).",
    }
    with open(os.path.join(ROOT, "MANIFEST.json"), "w") as fh:
        json.dump(m, fh, indent=1)
    print("checks:", [c["property_id"] for c in checks])

if __name__ == "__main__":
    main()
