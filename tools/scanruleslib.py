"""Correspondence of the faithful models of ten scan-only token rules (lean/Verif/Model/ScanRules/*.lean, driver `scanrules`)
with the REAL rule classes MD003 MD022 MD024 MD025 MD026 MD036 MD040 MD041 MD042 MD045 of pymarkdown.

Real side, per (rule, raw configuration, token stream): a real `PluginManager` with exactly that rule enabled (or all ten together:
rule `all`) and configured from a property dictionary is driven the way `FileScanHelper.__process_file_scan` drives it —
`starting_new_file()`, `next_token` for every token, `completed_file` — and the raw report list of the scan context is read:
(line, column, rule, extra information) in the order the reports were made; an exception is observed by its root class.
Two-file sequences: the SAME manager scans stream A (exception or not), then stream B; B's reports are compared with the model's
`scanAfter` — and with B alone on both sides (the reset theorem `mdX_state_reset`).
Configuration: the rule instance's own `query_config()` is compared with the model's `initXXX` for every raw configuration
(valid values, values of the wrong type, values the validator refuses).
Model side: the abstraction of the stream (`abstract`: kind + exactly the fields of `Tok`) goes to `verifdrv scanrules`.

Token streams:
  * parsed: the REAL parser's stream (with the end-of-stream token, as the scan has it) of every document of `docs.families()`,
    `docs.repo_sources()`, `docs.rule_resources()` and the closed rule-targeted family `extra_docs()`; documents that start with
    `---` also with the front-matter extension on;
  * synthetic: every list of length ≤ N over a per-rule alphabet of abstract tokens, built into REAL token objects with the real
    constructors (`build`) — shapes the parser never produces (an end without a start, level-0 and level-7 headings, empty text).
Thorough = all of it; quick = a `ctx.rng` sample of the same space plus everything short.
CPython tables: `str.strip(chars)` for the three character sets and `str.lower()` are compared with the model's on a fixed table.
Line coverage of the ten rule modules under the space is measured with `sys.monitoring` and reported (`unreached`)."""
import itertools, os, sys, zlib
import multiprocessing as mp
import vlib, docs, implib
import tokenruleslib as trl

H = vlib.hexs
RULE_IDS = ["md003", "md022", "md024", "md025", "md026", "md036", "md040", "md041", "md042", "md045"]
ALL = "+".join(RULE_IDS)

FIELDS = ["kind", "line", "col", "oline", "ocol", "hashCount", "trailing", "keys", "text", "uri", "alt", "dbg"]
DEFAULT = dict(kind="other", line=0, col=0, oline=0, ocol=0, hashCount=0, trailing=0, keys=(), text="", uri="", alt="", dbg="")


class Unabstractable(Exception):
    pass


# ------------------------------------------------------------------ abstraction: real token -> Tok
def kind_of(t):
    if t.is_atx_heading: return "atx"
    if t.is_setext_heading: return "setext"
    if t.is_atx_heading_end: return "end-atx"
    if t.is_setext_heading_end: return "end-setext"
    if t.is_front_matter: return "front-matter"
    if t.is_paragraph: return "para"
    if t.is_paragraph_end: return "end-para"
    if t.is_text: return "text"
    if t.is_blank_line: return "BLANK"
    if t.is_thematic_break: return "tbreak"
    if t.is_link_reference_definition: return "link-ref-def"
    if t.is_fenced_code_block: return "fcode-block"
    if t.is_html_block: return "html-block"
    if t.is_end_token:
        if t.is_list_end: return "list-end"
        if t.is_block_quote_end: return "end-block-quote"
        if t.is_inline_emphasis_end: return "end-emphasis"
        if t.is_leaf_end_token: return "leaf-end"
        return "other-end"
    if t.is_inline_emphasis: return "emphasis"
    if t.is_inline_link: return "link"
    if t.is_inline_image: return "image"
    return "other"


# the predicates the ten rules evaluate, as the MODEL derives them from the kind (Tok.isHeading, isEnd, isLeafEnd …)
_END_KINDS = {"end-atx", "end-setext", "end-para", "leaf-end", "list-end", "end-block-quote", "end-emphasis", "other-end"}
_LEAF_END = {"end-atx", "end-setext", "end-para", "leaf-end"}


def predicate_vector_model(k):
    return (k == "atx", k == "setext", k == "end-atx", k == "end-setext", k == "front-matter", k == "para", k == "end-para",
            k == "text", k == "BLANK", k == "tbreak", k == "link-ref-def", k == "fcode-block", k == "html-block",
            k in _END_KINDS, k == "list-end", k == "end-block-quote", k in _LEAF_END and k in _END_KINDS,
            k == "emphasis", k == "end-emphasis", k == "link", k == "image")


def predicate_vector_real(t):
    return (t.is_atx_heading, t.is_setext_heading, t.is_atx_heading_end, t.is_setext_heading_end, t.is_front_matter, t.is_paragraph,
            t.is_paragraph_end, t.is_text, t.is_blank_line, t.is_thematic_break, t.is_link_reference_definition,
            t.is_fenced_code_block, t.is_html_block, t.is_end_token, t.is_list_end, t.is_block_quote_end,
            bool(t.is_end_token and t.is_leaf_end_token), t.is_inline_emphasis, t.is_inline_emphasis_end, t.is_inline_link,
            t.is_inline_image)


def abstract(t):
    k = kind_of(t)
    if tuple(bool(x) for x in predicate_vector_real(t)) != predicate_vector_model(k):
        raise Unabstractable("predicates of %s differ from kind %s" % (t.token_name, k))
    d = dict(DEFAULT)
    d["kind"], d["line"], d["col"] = k, t.line_number, t.column_number
    d["dbg"] = t.debug_string(include_column_row_info=False)
    if k == "atx":
        d["hashCount"], d["trailing"] = t.hash_count, t.remove_trailing_count
    elif k == "setext":
        d["hashCount"], d["oline"], d["ocol"] = t.hash_count, t.original_line_number, t.original_column_number
    elif k == "front-matter":
        d["keys"] = tuple(t.matter_map.keys())
    elif k == "text":
        d["text"] = t.token_text
    elif k == "fcode-block":
        d["text"] = t.extracted_text
    elif k in ("link", "image"):
        d["uri"] = t.active_link_uri
        if k == "image":
            d["alt"] = t.text_from_blocks
    if k != "setext" and hasattr(t, "original_line_number"):
        raise Unabstractable("original_line_number on " + t.token_name)
    return d


def enc_tok(d):
    return ",".join([d["kind"], str(d["line"]), str(d["col"]), str(d["oline"]), str(d["ocol"]), str(d["hashCount"]), str(d["trailing"]),
                     "/".join(H(k) for k in d["keys"]), H(d["text"]), H(d["uri"]), H(d["alt"]), H(d["dbg"])])


def enc_toks(ds):
    return ";".join(enc_tok(d) for d in ds)


# ------------------------------------------------------------------ synthetic: Tok -> real token object
def build(d, prev=None):
    """A REAL token object for the abstract token `d` (fields not in `d` take `DEFAULT`; `dbg` is whatever the object gives)."""
    from pymarkdown.general.position_marker import PositionMarker
    from pymarkdown.tokens.markdown_token import EndMarkdownToken
    from pymarkdown.tokens.atx_heading_markdown_token import AtxHeadingMarkdownToken
    from pymarkdown.tokens.setext_heading_markdown_token import SetextHeadingMarkdownToken
    from pymarkdown.tokens.paragraph_markdown_token import ParagraphMarkdownToken
    from pymarkdown.tokens.blank_line_markdown_token import BlankLineMarkdownToken
    from pymarkdown.tokens.text_markdown_token import TextMarkdownToken
    from pymarkdown.tokens.thematic_break_markdown_token import ThematicBreakMarkdownToken
    from pymarkdown.tokens.fenced_code_block_markdown_token import FencedCodeBlockMarkdownToken
    from pymarkdown.tokens.html_block_markdown_token import HtmlBlockMarkdownToken
    from pymarkdown.tokens.unordered_list_start_markdown_token import UnorderedListStartMarkdownToken
    from pymarkdown.tokens.link_start_markdown_token import LinkStartMarkdownToken
    from pymarkdown.tokens.image_start_markdown_token import ImageStartMarkdownToken
    from pymarkdown.tokens.emphasis_markdown_token import EmphasisMarkdownToken
    from pymarkdown.tokens.link_reference_definition_markdown_token import LinkReferenceDefinitionMarkdownToken
    from pymarkdown.tokens.end_of_stream_token import EndOfStreamToken
    from pymarkdown.extensions.front_matter_markdown_token import FrontMatterMarkdownToken
    x = dict(DEFAULT); x.update(d)
    k = x["kind"]
    pm = PositionMarker(x["line"], x["col"] - 1, "")
    if k == "atx":
        return AtxHeadingMarkdownToken(x["hashCount"], x["trailing"], "", pm)
    if k == "setext":
        ch = {1: "=", 2: "-"}.get(x["hashCount"], "*")
        para = ParagraphMarkdownToken("", PositionMarker(x["oline"], x["ocol"] - 1, ""))
        return SetextHeadingMarkdownToken(ch, 3, "", pm, para)
    if k == "front-matter":
        return FrontMatterMarkdownToken("---", "---", [], {key: "v" for key in x["keys"]}, pm)
    if k == "para":
        return ParagraphMarkdownToken("", pm)
    if k == "BLANK":
        return BlankLineMarkdownToken("", pm)
    if k == "text":
        return TextMarkdownToken(x["text"], "", line_number=x["line"], column_number=x["col"])
    if k == "tbreak":
        return ThematicBreakMarkdownToken("-", "", "---", pm)
    if k == "link-ref-def":
        return _lrd(pm)
    if k == "fcode-block":
        return FencedCodeBlockMarkdownToken("`", 3, x["text"], "", "", "", "", "", pm)
    if k == "html-block":
        return HtmlBlockMarkdownToken(pm, "")
    if k in ("link", "image"):
        from pymarkdown.links.link_helper_properties import LinkHelperProperties
        lhp = LinkHelperProperties()
        lhp.label_type, lhp.inline_link, lhp.inline_title, lhp.ex_label = "inline", x["uri"], "", ""
        lhp.before_link_whitespace = lhp.before_title_whitespace = lhp.after_title_whitespace = ""
        lhp.pre_inline_link = lhp.pre_inline_title = ""
        lhp.bounding_character = '"'
        if k == "link":
            return LinkStartMarkdownToken("t", x["line"], x["col"], lhp)
        return ImageStartMarkdownToken("alt", x["alt"], x["line"], x["col"], lhp)
    if k == "emphasis":
        return EmphasisMarkdownToken(1, "*", x["line"], x["col"])
    if k == "other":
        return UnorderedListStartMarkdownToken("-", 2, 0, "", None, pm)
    if k == "other-end" and x["line"]:
        return EndOfStreamToken(x["line"])         # its name starts with `end-`: `is_end_token` is true of it
    end_name = {"end-atx": "atx", "end-setext": "setext", "end-para": "para", "leaf-end": "fcode-block", "list-end": "ulist",
                "end-block-quote": "block-quote", "end-emphasis": "emphasis", "other-end": "link"}.get(k)
    if end_name:
        start = prev if prev is not None else ParagraphMarkdownToken("", pm)
        return EndMarkdownToken(end_name, "", None, start, False)
    raise Unabstractable("build " + k)


def _lrd(pm):
    """a real link reference definition token: taken from a parse (its constructor takes the parser's private record types)"""
    if "lrd" not in _CACHE:
        toks = parse("[a]: /u\n")
        _CACHE["lrd"] = [t for t in toks if t.is_link_reference_definition][0]
    import copy
    return copy.copy(_CACHE["lrd"])


_CACHE = {}


def build_all(ds):
    out = []
    for d in ds:
        prev = None
        k = d["kind"]
        if k in ("end-atx", "end-setext", "end-para", "end-emphasis"):
            want = k[4:]
            for e in reversed(out):
                if e.token_name == want:
                    prev = e
                    break
        out.append(build(d, prev))
    return out


# ------------------------------------------------------------------ the real rules
_PM = {}


def manager(rule, cfg):
    """A real PluginManager with exactly `rule` enabled and configured from the property dictionary `cfg` (cached; the cache key keeps
    the TYPE of every value: `1` and `True` are different configurations).  Rule `all`: the ten rules together, cfg = {rule: {key: value}}."""
    key = (rule, repr(sorted((k, repr(v)) for k, v in cfg.items())))
    if key not in _PM:
        trl._fast_inspect()
        from application_properties import ApplicationProperties
        from pymarkdown.general.main_presentation import MainPresentation
        from pymarkdown.plugin_manager.plugin_manager import PluginManager
        import pymarkdown, enginelib
        ids, _ = enginelib.builtin_meta()
        on = RULE_IDS if rule == "all" else [rule]
        props = ApplicationProperties()
        d = {r: dict(c) for r, c in cfg.items() if c} if rule == "all" else ({rule: dict(cfg)} if cfg else {})
        if d:
            props.load_from_dict({"plugins": d}, clear_map=False)
        pm = PluginManager(MainPresentation())
        pdir = os.path.join(os.path.dirname(pymarkdown.__file__), "plugins")
        pm.initialize(pdir, [], ",".join(on), ",".join(i.lower() for i in ids if i.lower() not in on), props, False, False)
        pm.apply_configuration(props)
        assert [p.plugin_id.lower() for p in pm.enabled_plugins] == on, (rule, [p.plugin_id for p in pm.enabled_plugins])
        _PM[key] = pm
    return _PM[key]


def fresh_manager(rule, cfg):
    """a PluginManager (and rule objects) that has scanned nothing yet — for the C13 oracle "B alone" (≈ 5 ms)"""
    key = (rule, repr(sorted((k, repr(v)) for k, v in cfg.items())))
    saved = _PM.pop(key, None)
    try:
        return manager(rule, cfg)
    finally:
        if saved is not None:
            _PM[key] = saved
        else:
            _PM.pop(key, None)


def _root(e):
    while e.__cause__ is not None:
        e = e.__cause__
    return type(e).__name__


def _opt(s):
    return "-" if s is None else "=" + H(s)


def real_scan(pm, toks, with_rule):
    try:
        ctx = pm.starting_new_file("f.md")
        for t in toks:
            pm.next_token(ctx, t)
        pm.completed_file(ctx, -1)
        reps = ctx._PluginScanContext__reported
        return "ok " + ",".join((("%d:" % int(r.rule_id[2:])) if with_rule else "") +
                                "%d:%d:%s" % (r.line_number, r.column_number, _opt(r.extra_error_information)) for r in reps)
    except Exception as e:          # noqa: BLE001 — the exception class IS the observation
        return "err " + _root(e)


def real_answer(rule, cfg, toks, before=None):
    pm = manager(rule, cfg)
    if before is not None:
        real_scan(pm, before, rule == "all")
    return real_scan(pm, toks, rule == "all")


def real_cfg(rule, cfg):
    """the rule instance's `query_config()` in the driver's `cfg` answer syntax"""
    pm = manager(rule, cfg)
    items = pm.enabled_plugins[0].plugin_instance.query_config()
    out = []
    for it in items:
        v = it.value
        out.append(("1" if v else "0") if isinstance(v, bool) else str(v) if isinstance(v, int) else H(v))
    return "|".join(out)


def _val(v):
    if isinstance(v, bool):
        return "b1" if v else "b0"
    if isinstance(v, int):
        return "i%d" % v
    return "s" + H(v)


def enc_cfg(rule, cfg):
    if rule == "all":
        return ";".join("%s.%s=%s" % (r, k, _val(v)) for r in sorted(cfg) for k, v in sorted(cfg[r].items()))
    return ";".join("%s=%s" % (k, _val(v)) for k, v in sorted(cfg.items()))


# ------------------------------------------------------------------ the rules: raw configurations, synthetic alphabets
def _t(kind, line=1, col=1, **kw):
    return dict(kind=kind, line=line, col=col, **kw)


def _e(kind):
    return dict(kind=kind)


_HEAD = [_t("atx", hashCount=1), _t("atx", hashCount=2, trailing=1, line=3), _t("atx", hashCount=3, line=5),
         _t("setext", hashCount=1, line=8, oline=7, ocol=1), _t("setext", hashCount=2, line=11, oline=9, ocol=2)]

RULES = {
    "md003": dict(
        cfgs=[{}] + [{"style": s} for s in ("consistent", "atx", "atx_closed", "setext", "setext_with_atx", "setext_with_atx_closed")]
             + [{"style": "bogus"}, {"style": 3}, {"style": "ATX"}, {"allow-setext-update": True}, {"allow-setext-update": 1},
                {"style": "consistent", "allow-setext-update": True}, {"style": "setext", "allow-setext-update": True},
                {"style": "bogus", "allow-setext-update": True}],
        alphabet=_HEAD + [_t("atx", hashCount=3, trailing=2, line=6), _t("para")],
        maxlen=4,
    ),
    "md022": dict(
        cfgs=[{}, {"lines_above": 0}, {"lines_below": 0}, {"lines_above": 2, "lines_below": 2}, {"lines_above": -1}, {"lines_below": "2"},
              {"lines_above": True}, {"lines_above": 0, "lines_below": 2}],
        alphabet=[_t("atx", hashCount=1, line=2), _e("end-atx"), _t("setext", hashCount=1, line=4, oline=3, ocol=1), _e("end-setext"),
                  _t("BLANK", line=5), _t("BLANK", line=6), _t("BLANK", line=8), _t("tbreak", line=1), _t("link-ref-def"), _e("end-para"), _e("end-block-quote"),
                  _e("list-end"), _e("end-emphasis"), _t("para"), _t("other-end", line=9, col=0)],
        maxlen=4,
    ),
    "md024": dict(
        cfgs=[{}, {"siblings_only": True}, {"allow_different_nesting": True}, {"siblings_only": False, "allow_different_nesting": True},
              {"siblings_only": "yes"}, {"siblings_only": 1}],
        alphabet=[_t("atx", hashCount=1), _t("atx", hashCount=2, line=3), _t("atx", hashCount=3, line=5), _t("atx", hashCount=0, line=6),
                  _t("atx", hashCount=7, line=7), _t("setext", hashCount=1, line=9, oline=8, ocol=1), _t("setext", hashCount=-1, line=12, oline=11, ocol=1),
                  _e("end-atx"), _e("end-setext"), _t("text", text="a", col=3), _t("text", text="b", col=3)],
        maxlen=4,
        extra_lists="md024",
    ),
    "md025": dict(
        cfgs=[{}, {"level": 2}, {"level": 0}, {"level": 7}, {"level": "2"}, {"front_matter_title": "Subject"}, {"front_matter_title": " "},
              {"front_matter_title": "a:b"}, {"front_matter_title": " title "}, {"front_matter_title": 5}, {"level": 6, "front_matter_title": "subject"}],
        alphabet=[_t("atx", hashCount=1), _t("atx", hashCount=2, line=3), _t("atx", hashCount=6, line=4), _t("setext", hashCount=1, line=6, oline=5, ocol=1),
                  _t("setext", hashCount=2, line=9, oline=8, ocol=1), _t("front-matter", keys=("title",)), _t("front-matter", keys=("subject", "x")),
                  _t("front-matter", keys=(" title ",)), _t("para")],
        maxlen=4,
        front_matter=True,
    ),
    "md026": dict(
        cfgs=[{}, {"punctuation": ""}, {"punctuation": "?"}, {"punctuation": ".a"}, {"punctuation": 5}, {"punctuation": "\n"}],
        alphabet=[_t("atx", hashCount=1, col=2), _t("setext", hashCount=1, line=4, oline=2, ocol=3), _e("end-atx"), _e("end-setext"),
                  _t("text", text="a.", col=3), _t("text", text="b", col=3), _t("text", text="x\ny!", col=3), _t("text", text="q?\n", col=3),
                  _t("text", text="", col=3), _t("emphasis", col=4), _e("end-emphasis"), _e("end-para")],
        maxlen=4,
    ),
    "md036": dict(
        cfgs=[{}, {"punctuation": ""}, {"punctuation": "a"}, {"punctuation": True}],
        alphabet=[_t("para", line=2, col=2), _t("para", line=5, col=1), _t("emphasis", col=2), _t("text", text="a", col=3), _t("text", text="a.", col=3),
                  _t("text", text="a\nb", col=3), _t("text", text="", col=3), _e("end-emphasis"), _e("end-para"), _t("BLANK", line=3)],
        maxlen=6,
        len5_sample=True,
    ),
    "md040": dict(
        cfgs=[{}],
        alphabet=[_t("fcode-block", text=x, line=i + 1) for i, x in enumerate(("", "py", " ", "\t\n", "\x0b\x0c\r ", "\xa0", " x "))] + [_t("para")],
        maxlen=2,
    ),
    "md041": dict(
        cfgs=[{}, {"level": 2}, {"level": 0}, {"level": True}, {"front_matter_title": ""}, {"front_matter_title": "  "}, {"front_matter_title": "Subject "},
              {"front_matter_title": "a:b"}, {"front_matter_title": 1}, {"level": 3, "front_matter_title": "subject"}],
        alphabet=[_t("atx", hashCount=1), _t("atx", hashCount=2, line=3), _t("setext", hashCount=1, line=6, oline=5, ocol=1),
                  _t("front-matter", keys=("title",)), _t("front-matter", keys=("subject",)), _t("html-block", line=2), _t("html-block", line=4),
                  _t("text", text="<h1>a", col=1), _t("text", text="  <h1 x", col=1), _t("text", text="<h2>", col=1), _t("text", text="<h1", col=1),
                  _t("BLANK", line=1), _t("para", line=2), _t("other-end", line=9, col=0)],
        maxlen=4,
        front_matter=True,
    ),
    "md042": dict(
        cfgs=[{}],
        alphabet=[_t(k, uri=u, col=i + 1) for k in ("link", "image") for i, u in enumerate(("", "#", " # ", "/u", "\t#\n", "##", "#a", " ", "\xa0", "\x0b\x0c"))]
                 + [_t("para")],
        maxlen=2,
    ),
    "md045": dict(
        cfgs=[{}],
        alphabet=[_t("image", alt=a, uri="/u", col=i + 1) for i, a in enumerate(("", "a", " ", "\t\n\x0c\r", "\xa0     　", "\x0b", "​", " a ", " "))]
                 + [_t("link", uri="/u"), _t("para")],
        maxlen=2,
    ),
    "all": dict(
        cfgs=[{}, {"md003": {"style": "setext_with_atx"}, "md022": {"lines_above": 0, "lines_below": 2}, "md024": {"siblings_only": True},
                   "md025": {"level": 2}, "md026": {"punctuation": "?"}, "md036": {"punctuation": ""}, "md041": {"level": 2}},
              {"md003": {"style": "consistent", "allow-setext-update": True}, "md025": {"front_matter_title": "subject"},
               "md041": {"front_matter_title": ""}, "md022": {"lines_above": 2}}],
        alphabet=[_t("atx", hashCount=1, col=1), _t("atx", hashCount=3, trailing=1, line=3), _t("setext", hashCount=1, line=6, oline=5, ocol=1),
                  _e("end-atx"), _e("end-setext"), _t("text", text="a.", col=3), _t("para", line=2), _t("emphasis", col=2), _e("end-emphasis"),
                  _e("end-para"), _t("BLANK", line=4), _t("fcode-block", text="", line=7), _t("image", alt="", uri="#", col=5), _t("html-block", line=1)],
        maxlen=3,
    ),
}


def md024_lists():
    """heading sequences for MD024: (level, text) sequences of length ≤ 4 over levels 1–3 and two texts, as complete ATX headings"""
    out = []
    for n in range(1, 5):
        for seq in itertools.product([(1, "a"), (2, "a"), (3, "a"), (2, "b"), (1, "b")], repeat=n):
            l = []
            for i, (lv, tx) in enumerate(seq):
                l += [_t("atx", hashCount=lv, line=2 * i + 1), _t("text", text=tx, col=lv + 2, line=2 * i + 1), _e("end-atx")]
            out.append(l)
    return out


def jobs_of(rules):
    return [(r, c) for r in rules for c in RULES[r]["cfgs"]]


def enc_jobs(jobs):
    return "&".join("%s~%s" % (r, enc_cfg(r, c)) for r, c in jobs)


# ------------------------------------------------------------------ document spaces
def extra_docs():
    """Closed family of rule-targeted documents."""
    out = []
    H1 = {"atx": lambda n, t: "#" * n + " " + t + "\n", "closed": lambda n, t: "#" * n + " " + t + " " + "#" * n + "\n",
          "setext": lambda n, t: t + "\n" + ("===" if n == 1 else "---") + "\n"}
    styles = [("atx", 1), ("atx", 2), ("atx", 3), ("closed", 1), ("closed", 3), ("setext", 1), ("setext", 2)]
    # heading sequences of every style (MD003), all pairs and triples
    for n in (1, 2, 3):
        for seq in itertools.product(styles, repeat=n):
            out.append("\n".join(H1[s](lv, "h%d" % i) for i, (s, lv) in enumerate(seq)))
    # blank lines around headings (MD022): 0–3 blank lines above and below, three heading kinds, inside quote / list
    for above, below in itertools.product(range(4), repeat=2):
        for h in ("# h\n", "h\n===\n", "## h ##\n"):
            out.append("text\n" + "\n" * above + h + "\n" * below + "text\n")
            out.append("\n" * above + h + "\n" * below)
            out.append("---\n" + "\n" * above + h + "\n" * below + "---\n")
            out.append("> q\n" + ">\n" * above + "> " + h.replace("\n", "\n> ").rstrip("> ") + ">\n" * below + "> q\n")
        out.append("- a\n" + "\n" * above + "  # h\n" + "\n" * below + "  b\n")
        out.append("> # h\n" + "\n" * below + "text\n")
        out.append("# a\n" + "\n" * above + "# b\n" + "\n" * below + "# c")
        out.append("[a]: /u\n" + "\n" * above + "# b\n" + "\n" * below + "```\nx\n```\n")
    # duplicate headings across nesting (MD024)
    for seq in itertools.product([(1, "a"), (2, "a"), (3, "a"), (2, "b")], repeat=3):
        out.append("\n".join("#" * lv + " " + t + "\n" for lv, t in seq))
    out += ["# a\n\na\n===\n", "a\n===\n\na\n===\n", "a\n---\n\n## a\n", "# a *b*\n\n# a *b*\n", "# a *b*\n\n# a _b_\n", "# a\n\n#  a\n", "# a\n\n# a #\n",
            "# a\n\n> # a\n", "# [a](/u)\n\n# [a](/v)\n", "# a\n\n# A\n"]
    # trailing punctuation (MD026)
    for p in ".,;:!?。，；：！？":
        out += ["# a%s\n" % p, "a%s\n===\n" % p, "# a%s #\n" % p, "a\nb%s\n---\n" % p, "# *a%s*\n" % p, "# a%s  \n" % p]
    out += ["# a &amp;\n", "# a&#59;\n", "# a\\;\n", "# `a.`\n", "# a <b>.\n", "# a. <b>\n", "a.\nb\n===\n", "a\n b.\n===\n", "  a\n  b!\n===\n", "# .\n", "#\n", "# a.\n# b!\n"]
    # emphasis used as a heading (MD036)
    for e in ("*a*", "**a**", "_a_", "*a b*", "*a.*", "*a?*", "*a*.", "x *a*", "*a* x", "*a\nb*", "***a***", "*a **b***", "*[a](/u)*", "*`a`*", "*a*\n*b*"):
        out += [e + "\n", "\n" + e + "\n\ntext\n", "> " + e + "\n", "- " + e + "\n", "text\n\n" + e + "\n"]
    # fences with / without info (MD040)
    for f in ("```", "~~~", "````"):
        for info in ("", "py", " ", " py", "  ", "\t", " py x", "\xa0", "&amp;", "\\"):
            out += ["%s%s\nx\n%s\n" % (f, info, f), "> %s%s\n> x\n" % (f, info), "- %s%s\n  x\n" % (f, info)]
    # first line (MD041)
    for first in ("# h\n", "## h\n", "h\n===\n", "h\n---\n", "text\n", "\n# h\n", "\n\ntext\n", "<h1>a</h1>\n", "<h1 x>a</h1>\n", "  <h1>a\n", "<h2>a</h2>\n", "<!-- c -->\n",
                  "<!-- c -->\n\n# h\n", "- a\n", "> # h\n", "---\n", "```\nx\n```\n", "[a]: /u\n", "[a]: /u\n\n# h\n", "", "\n", "   \n", "<H1>a</H1>\n", "<h1\n>\n"):
        out.append(first)
        for fm in ("---\ntitle: T\n---\n", "---\nTitle: T\n---\n", "---\nsubject: S\n---\n", "---\nauthor: A\n---\n"):
            out.append(fm + first)
    for fm in ("---\ntitle: T\n---\n", "---\nsubject: S\n---\n", "---\nauthor: A\n---\n"):
        for seq in itertools.product((1, 2), repeat=2):
            out.append(fm + "\n" + "\n\n".join("#" * n + " h%d" % i for i, n in enumerate(seq)) + "\n")
    # empty links (MD042), images (MD045)
    for d in ("", "#", " ", " # ", "/u", "<>", "<#>", "#a", "##", "<> \"t\"", "\"t\""):
        out += ["[a](%s)\n" % d, "![a](%s)\n" % d, "x\n[a](%s)\n" % d, "# [a](%s)\n" % d, "- [a](%s)\n" % d]
    out += ["[a]\n\n[a]: #\n", "[a][]\n\n[a]: <>\n", "[a][b]\n\n[b]: #\n", "![a][b]\n\n[b]: #\n", "[a]: #\n", "<#>\n", "[a]( # )\n"]
    for a in ("", " ", "a", "\t", "\xa0", "　", "*a*", "**", "`a`", " a ", "​", "![b](/v)", "![](/v)", "[b](/v)", "[](/v)", "\\ ", "&nbsp;", "&#32;"):
        out += ["![%s](/u)\n" % a, "![%s][r]\n\n[r]: /u\n" % a, "x ![%s](/u) y\n" % a, "# ![%s](/u)\n" % a]
    seen, res = set(), []
    for d in out:
        if d not in seen:
            seen.add(d); res.append(d)
    return res


def parse(src, front_matter=False):
    from pymarkdown.general.source_providers import InMemorySourceProvider
    tk = implib.parser(("front-matter",) if front_matter else None)
    return tk.transform_from_provider(InMemorySourceProvider(src), do_add_end_of_stream_token=True)


def doc_space(quick, rng):
    fam = docs.families()
    corpus = docs.repo_sources()
    res = [t for _, t in docs.rule_resources()]
    extra = extra_docs()
    if quick:
        fam = docs.sample(rng, fam, 120)
        corpus = docs.sample(rng, corpus, 150)
        res = docs.sample(rng, res, 120)
        extra = docs.sample(rng, extra, 260)
    seen, out = set(), []
    for tag, ds in (("families", fam), ("corpus", corpus), ("resources", res), ("extra", extra)):
        for d in ds:
            if d not in seen:
                seen.add(d)
                out.append((tag, d))
    return out


# ------------------------------------------------------------------ line coverage of the ten rule modules
_COV = {"on": False, "hit": set()}
_TOOL = 5


def cov_start():
    if _COV["on"]:
        return
    mon = sys.monitoring
    vlib.claim_tool(_TOOL, "scanruleslib")
    wanted = tuple("rule_md_%s.py" % r[2:] for r in RULE_IDS)

    def on_line(code, line):
        if code.co_filename.endswith(wanted):
            _COV["hit"].add((os.path.basename(code.co_filename), line))
        return mon.DISABLE
    mon.register_callback(_TOOL, mon.events.LINE, on_line)
    mon.set_events(_TOOL, mon.events.LINE)
    _COV["on"] = True


def cov_lines():
    """executable lines of the modelled methods of the ten rule modules: {(file, line)}"""
    import importlib
    skip = {"get_details", "query_config", "__init__", "<module>"}
    out = set()

    def walk(code, fname):
        if code.co_name in skip or code.co_name.startswith("RuleMd") and False:
            return
        for _, _, ln in code.co_lines():
            if ln is not None and ln != code.co_firstlineno:
                out.add((fname, ln))
        for c in code.co_consts:
            if hasattr(c, "co_lines"):
                walk(c, fname)
    for r in RULE_IDS:
        m = importlib.import_module("pymarkdown.plugins.rule_md_%s" % r[2:])
        fname = os.path.basename(m.__file__)
        src = open(m.__file__, encoding="utf-8").read()
        top = compile(src, m.__file__, "exec")
        for c in top.co_consts:
            if hasattr(c, "co_lines"):           # class bodies
                for f in c.co_consts:
                    if hasattr(f, "co_lines") and f.co_name not in skip:
                        walk(f, fname)
    return out


# ------------------------------------------------------------------ workers
def _stream_jobs(toks, abst, rules, tag, src, out):
    jobs = jobs_of(rules)
    enc = enc_toks(abst)
    req = "scan|" + enc_jobs(jobs) + "|" + enc
    real = "&".join(real_answer(r, c, toks) for r, c in jobs)
    sjobs = [(r, c) for r, c in jobs if r != "all"]
    spec = ("spec|" + enc_jobs(sjobs) + "|" + enc) if sjobs else None
    out.append((tag, src, req, real, None, spec))


def _work_docs(args):
    chunk, rules = args
    cov_start()
    out = []
    for tag, src in chunk:
        for fmx in ((False, True) if src.startswith("---") else (False,)):
            try:
                toks = parse(src, fmx)
            except Exception as e:      # noqa: BLE001 — parser failures are C01's business
                out.append((tag, src, None, "parse " + type(e).__name__))
                continue
            try:
                abst = [abstract(t) for t in toks]
            except Exception as e:      # noqa: BLE001
                out.append((tag, src, None, "ABSTRACT " + type(e).__name__ + " " + str(e)))
                continue
            _stream_jobs(toks, abst, rules, tag, src, out)
    return out, set(_COV["hit"])


def _strip_dbg(d):
    d = dict(d); d["dbg"] = ""
    return d


def _build_checked(ds):
    full = [dict(DEFAULT, **d) for d in ds]
    toks = build_all(full)
    abst = [abstract(t) for t in toks]
    if [_strip_dbg(a) for a in abst] != full:
        raise Unabstractable("abstract(build(d)) != d: " + repr([(a, b) for a, b in zip(abst, full) if _strip_dbg(a) != b][:1]))
    return toks, abst


def _work_synth(args):
    rule, lists = args
    cov_start()
    out = []
    for ds in lists:
        try:
            toks, abst = _build_checked(ds)
        except Exception as e:          # noqa: BLE001
            out.append(("synthetic", ds, None, "build " + type(e).__name__ + " " + str(e)[:160]))
            continue
        _stream_jobs(toks, abst, [rule], "synthetic", ds, out)
    return out, set(_COV["hit"])


def _work_pairs(args):
    rule, pairs = args
    cov_start()
    out = []
    jobs = jobs_of([rule])
    for a, b in pairs:
        try:
            ta, aa = _build_checked(a)
            tb, ab = _build_checked(b)
        except Exception as e:          # noqa: BLE001
            out.append(("pair", (a, b), None, "build " + type(e).__name__ + " " + str(e)[:160]))
            continue
        req = "after|" + enc_jobs(jobs) + "|" + enc_toks(ab) + "|" + enc_toks(aa)
        real = "&".join(real_answer(r, c, tb, before=ta) for r, c in jobs)
        # "B alone" on rule objects that have scanned nothing (one pair in eight: a fresh PluginManager costs 5 ms)
        alone = None
        if zlib.crc32(req.encode()) % 8 == 0:
            alone = "&".join(real_scan(fresh_manager(r, c), tb, r == "all") for r, c in jobs)
        out.append(("pair", (a, b), req, real, alone, None))
    return out, set(_COV["hit"])


def _work_docpairs(args):
    pairs, rules = args
    cov_start()
    out = []
    jobs = jobs_of(rules)
    for a, b in pairs:
        try:
            ta, tb = parse(a, a.startswith("---")), parse(b, b.startswith("---"))
            aa, ab = [abstract(t) for t in ta], [abstract(t) for t in tb]
        except Exception as e:          # noqa: BLE001
            out.append(("docpair", (a, b), None, "parse " + type(e).__name__))
            continue
        req = "after|" + enc_jobs(jobs) + "|" + enc_toks(ab) + "|" + enc_toks(aa)
        real = "&".join(real_answer(r, c, tb, before=ta) for r, c in jobs)
        alone = "&".join(real_scan(fresh_manager(r, c), tb, r == "all") for r, c in jobs)
        out.append(("docpair", (a, b), req, real, alone, None))
    return out, set(_COV["hit"])


def _dispatch(w):
    return {"D": _work_docs, "S": _work_synth, "P": _work_pairs, "Q": _work_docpairs}[w[0]](w[1:])


def synth_lists(rule, quick, rng):
    spec = RULES[rule]
    alpha, n = spec["alphabet"], spec["maxlen"]
    if spec.get("len5_sample"):
        # MD036's automaton needs five tokens for a report: all lists ≤ 4, and the lists of length 5–6 that start with a paragraph
        lists = [list(p) for k in range(5) for p in itertools.product(alpha, repeat=k)]
        core = [a for a in alpha if a["kind"] != "BLANK" and not (a["kind"] == "para" and a["line"] == 5)]
        lists += [[alpha[0]] + list(p) for k in (4, 5) for p in itertools.product(core, repeat=k)]
    else:
        lists = [list(p) for k in range(n + 1) for p in itertools.product(alpha, repeat=k)]
    if spec.get("extra_lists") == "md024":
        lists += md024_lists()
    if quick and len(lists) > 700:
        short = [l for l in lists if len(l) <= 2]
        lists = short + rng.sample([l for l in lists if len(l) > 2], 700)
    return lists


def pair_lists(rule, quick, rng):
    """two-file sequences: A and B over the rule's alphabet, each of length ≤ 2 (B up to 3 for the rules whose report needs it)"""
    alpha = RULES[rule]["alphabet"]
    A = [list(p) for k in range(3) for p in itertools.product(alpha, repeat=k)]
    B = [list(p) for k in range(1, 3) for p in itertools.product(alpha, repeat=k)]
    pairs = [(a, b) for a in A for b in B]
    cap = 500 if quick else 12000
    if len(pairs) > cap:
        pairs = rng.sample(pairs, cap) if quick else [p for i, p in enumerate(pairs) if i % (len(pairs) // cap + 1) == 0]
    return pairs


def doc_pairs(quick, rng):
    """two-file sequences of real documents: A leaves every rule in the middle of something, B is judged"""
    A = ["# a\n", "a\n===\n", "# a", "text\n\n# a.", "*a*\n", "---\ntitle: T\n---\n", "<h2>\n", "# a\n\n# a\n", "### a ###\n\n", "a\n---", "> # a\n> b\n", "- # a\n\n\n"]
    B = ["# a\n", "## a\n\ntext\n", "a\n===\n", "\n# a.\n", "*a*\n", "text\n# a\ntext\n", "### b\n\n# a\n", "b\n---\n\n# a #\n", "<h1>x</h1>\n", "```\nx\n```\n\n![](#)\n", ""]
    pairs = [(a, b) for a in A for b in B]
    return docs.sample(rng, pairs, 40) if quick else pairs


def _chunks(seq, n):
    seq = list(seq)
    return [seq[i:i + n] for i in range(0, len(seq), n)]


STRIP_TABLE = ["", " ", "a", " a ", "\t a\n", "\x0ba\x0c", "\r", "\xa0a\xa0", "  x　", "​", "\x1c a", "  ", "#", " # ", "\x0b", " a",
               "a b", " \t\n\x0b\x0c\r", "            ", "\x85", "\x1f a \x1f"]


def cpython_tables():
    """`str.strip(chars)` with the three character sets and `str.lower()` — model vs CPython"""
    from pymarkdown.general.constants import Constants
    sets = {"a": Constants.ascii_whitespace, "u": Constants.unicode_whitespace.value(), "s": " "}
    reqs, want = [], []
    singles = [chr(c) for c in list(range(0, 0x100)) + [0x1680, 0x180e] + list(range(0x2000, 0x2030)) + [0x205f, 0x2060, 0x3000, 0xfeff]]
    for key, chars in sets.items():
        for s in STRIP_TABLE + singles + [c + "x" + c for c in singles]:
            reqs.append("strip|%s|%s" % (key, H(s))); want.append(H(s.strip(chars)))
    lows = [chr(c) for c in range(0x80)] + ["Title", "SUBJECT ", " a:B", "title"]
    for r in RULES.values():
        for c in r["cfgs"]:
            for v in (c.values() if r is not RULES["all"] else [x for d in c.values() for x in d.values()]):
                if isinstance(v, str):
                    lows.append(v)
    for s in lows:
        reqs.append("lower|" + H(s)); want.append(H(s.lower()))
    got = vlib.Driver("scanrules").run(reqs)
    bad = [dict(request=r, cpython=w, model=g) for r, w, g in zip(reqs, want, got) if w != g]
    return len(reqs), bad


def config_check():
    """`query_config()` of the real instance vs the model's `initXXX`, for every raw configuration of every rule"""
    reqs, want, where = [], [], []
    for r in RULE_IDS:
        for c in RULES[r]["cfgs"]:
            if r in ("md040", "md042", "md045"):
                continue
            reqs.append("cfg|%s~%s" % (r, enc_cfg(r, c))); want.append(real_cfg(r, c)); where.append((r, c))
    got = vlib.Driver("scanrules").run(reqs)
    bad = [dict(rule=w[0], cfg=w[1], real=a, model=b) for w, a, b in zip(where, want, got) if a != b]
    return len(reqs), bad


WITNESSES = [
    ("md045_differs", "md045", {}, "![\x0b](/u)\n", "no report: U+000B is not in Constants.unicode_whitespace (LeanMark's isUniWs has it)"),
    ("md042_differs", "md042", {}, "[a](#\xa0)\n", "no report: strip(ascii_whitespace) leaves '#\\xa0'"),
    ("md024_text_differs", "md024", {}, "# a\n\n#  a\n", "no report: the debug strings differ in the white space after the hashes (F-C06-MD024-MISSED)"),
    ("md041_h1_differs", "md041", {}, "<H1>a</H1>\n", "reported: only lower-case '<h1 ' / '<h1>' is accepted"),
    ("md022_count_unknown_after_list", "md022", {}, "- \n# h\n", "no 'Above' report: the count is unknown until a leaf block ends (F-C06-MD022-MISSED)"),
    ("md041 blank document (F-BLANKDOC)", "md041", {}, "\n", "reported at the end-of-stream token: a line past the end, column 0"),
]


def witnesses():
    """the real rule on the witness documents of the `_differs` / `_partial` theorems"""
    out = []
    for name, rule, cfg, doc, expect in WITNESSES:
        try:
            toks = parse(doc)
            out.append(dict(theorem=name, rule=rule, document=doc, real=real_answer(rule, cfg, toks), note=expect))
        except Exception as e:          # noqa: BLE001
            out.append(dict(theorem=name, rule=rule, document=doc, real="parse " + type(e).__name__, note=expect))
    return out


def run(ctx, quick, rules=None):
    """Correspondence real rule classes ↔ model.  Returns coverage counts (+ `disagreements`, `failing_inputs`)."""
    import time as _t
    rules = list(rules or RULES)
    rng = ctx.rng
    cov = {"rules": rules, "jobs": len(jobs_of(rules))}
    space = doc_space(quick, rng)
    work = [("D", c, rules) for c in _chunks(space, 24)]
    for r in rules:
        lists = synth_lists(r, quick, rng)
        cov["synthetic " + r] = len(lists)
        work += [("S", r, c) for c in _chunks(lists, 64)]
        if r not in ("md040", "md042", "md045"):
            pairs = pair_lists(r, quick, rng)
            cov["pairs " + r] = len(pairs)
            work += [("P", r, c) for c in _chunks(pairs, 64)]
    dpairs = doc_pairs(quick, rng)
    cov["document pairs"] = len(dpairs)
    work += [("Q", c, rules) for c in _chunks(dpairs, 12)]
    t0 = _t.time()
    with mp.Pool(8) as pool:
        parts = pool.map(_dispatch, work, chunksize=1)
    cov["seconds real side"] = round(_t.time() - t0, 1)
    results, hit = [], set()
    for p, h in parts:
        results += p
        hit |= h
    parse_fail = [(x[0], x[1], x[3]) for x in results if x[2] is None and str(x[3]).startswith("parse ")]
    bad_harness = [(x[0], x[1], x[3]) for x in results if x[2] is None and not str(x[3]).startswith("parse ")]
    good = [x for x in results if x[2] is not None]
    t0 = _t.time()
    answers = vlib.Driver("scanrules").run([x[2] for x in good])
    with_spec = [x for x in good if len(x) > 5 and x[5]]
    spec_answers = dict(zip([id(x) for x in with_spec], vlib.Driver("scanrules").run([x[5] for x in with_spec])))
    cov["seconds model side"] = round(_t.time() - t0, 1)
    spec_cmp = {"parsed streams: spec = real": 0, "synthetic streams: spec = real": 0, "synthetic streams: spec differs (outside the guards)": 0}
    disagreements, failing, n_cmp, n_reports, errs, per_rule = [], [], 0, 0, {}, {}
    reset_cmp = 0
    for x, ans in zip(good, answers):
        tag, src, req, real = x[0], x[1], x[2], x[3]
        jobs = req.split("|")[1].split("&")
        m_parts, r_parts = ans.split("&"), real.split("&")
        if len(m_parts) != len(jobs) or len(r_parts) != len(jobs):
            disagreements.append(dict(space=tag, input=src, job="*", real=real[:300], model=ans[:300]))
            continue
        alone = x[4].split("&") if len(x) > 4 and x[4] is not None else None
        if id(x) in spec_answers:
            sp = spec_answers[id(x)].split("&")
            sj = [(j, r) for j, r in zip(jobs, r_parts) if not j.startswith("all")]
            for (job, r), s_ans in zip(sj, sp):
                if s_ans == r:
                    spec_cmp["parsed streams: spec = real" if tag != "synthetic" else "synthetic streams: spec = real"] += 1
                elif tag == "synthetic":
                    spec_cmp["synthetic streams: spec differs (outside the guards)"] += 1
                else:
                    disagreements.append(dict(space=tag, input=src, job=job, real=r, spec=s_ans,
                                              what="the right-hand side of mdX_scan_iff differs on a PARSED stream: its guard is not true of every real stream"))
        for k, (job, m, r) in enumerate(zip(jobs, m_parts, r_parts)):
            n_cmp += 1
            rule = job.split("~")[0]
            if r.startswith("err"):
                errs[rule + " " + r[4:]] = errs.get(rule + " " + r[4:], 0) + 1
                if tag not in ("synthetic", "pair"):
                    failing.append(dict(space=tag, document=src, job=job, real=r, property="C07"))
            elif r != "ok ":
                n = r.count(",") + 1
                n_reports += n
                per_rule[rule] = per_rule.get(rule, 0) + n
            if m != r:
                disagreements.append(dict(space=tag, input=src, job=job, real=r, model=m))
            if alone is not None:
                reset_cmp += 1
                if alone[k] != r:
                    failing.append(dict(space=tag, document=src, job=job, real_after=r, real_alone=alone[k], property="C13"))
    n_tab, bad_tab = cpython_tables()
    n_cfg, bad_cfg = config_check()
    for b in bad_tab:
        disagreements.append(dict(space="cpython-table", **b))
    for b in bad_cfg:
        disagreements.append(dict(space="config", **b))
    want = cov_lines()
    unreached = sorted(want - hit)
    cov.update({"documents": len(space), "streams": len(good), "comparisons": n_cmp, "real reports": n_reports, "reports per rule": per_rule,
                "real exception answers": errs, "two-file comparisons (B after A = B on fresh rule objects, real side)": reset_cmp,
                "scan_iff right-hand sides": spec_cmp, "witness documents (real rule)": witnesses(),
                "cpython table entries": n_tab, "configuration checks": n_cfg, "harness skips": len(bad_harness), "skips": bad_harness[:20],
                "documents the parser fails on (C01's business)": len(parse_fail),
                "rule lines reachable": len(want), "rule lines reached": len(want & hit),
                "unreached": ["%s:%d" % u for u in unreached],
                "disagreements": disagreements, "failing_inputs": failing})
    if disagreements:
        ctx.broken.append("correspondence scanrules: %d disagreements, first %r" % (len(disagreements), disagreements[0]))
    if bad_harness:
        ctx.broken.append("scanrules harness could not abstract/build %d inputs, first %r" % (len(bad_harness), bad_harness[0]))
    return cov


if __name__ == "__main__":
    import json, random, time

    class _C:
        rng = random.Random(int(os.environ.get("VERIF_SEED", "1")))
        broken = []
    t0 = time.time()
    quick = "--thorough" not in sys.argv
    rules = [a for a in sys.argv[1:] if a in RULES] or None
    cov = run(_C, quick, rules)
    for a in sys.argv:
        if a.startswith("--dump="):
            json.dump(cov, open(a[7:], "w"), default=str)
    dis, fail = cov.pop("disagreements"), cov.pop("failing_inputs")
    print(json.dumps(cov, indent=1, default=str))
    print("disagreements", len(dis), "failing_inputs", len(fail), "time %.1fs" % (time.time() - t0))
    for d in dis[:10]:
        print(json.dumps(d, default=str)[:1800])
    for d in fail[:6]:
        print("FAIL", json.dumps(d, default=str)[:600])
