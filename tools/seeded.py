"""Seeded regressions (/verif/seeded/<id>/): confirm them and run the checks against them.

  tools/seeded.py confirm <id>     scratch worktree + patch: existing test suite passes, demo fails with / passes without
  tools/seeded.py run <id> [tier]  git -C /repo apply; ./check <property>; git -C /repo checkout -- .   -> seeded/<id>/result.json
  tools/seeded.py all [tier]       run every seeded regression
Never commits anything to /repo.
"""
import json, os, subprocess, sys, time
ROOT = os.path.dirname(os.path.dirname(os.path.abspath(__file__)))
SEED = os.path.join(ROOT, "seeded")
PY = "/venv/bin/python"


def sh(cmd, **kw):
    return subprocess.run(cmd, shell=isinstance(cmd, str), capture_output=True, text=True, **kw)


def demo_cmd(d):
    for n in ("demo.py", "demo.sh"):
        if os.path.exists(os.path.join(d, n)):
            return [PY, os.path.join(d, n)] if n.endswith(".py") else ["sh", os.path.join(d, n)]
    raise SystemExit("no demo in " + d)


def confirm(mid):
    d = os.path.join(SEED, mid)
    wt = f"/tmp/sv-{mid}"
    sh(f"git -C /repo worktree remove --force {wt}")
    r = sh(f"git -C /repo worktree add {wt} HEAD")
    if r.returncode:
        raise SystemExit(r.stderr)
    out = {}
    try:
        r = sh(f"git -C {wt} apply {os.path.join(d, 'patch.diff')}")
        if r.returncode:
            r = sh(f"git -C {wt} apply --3way {os.path.join(d, 'patch.diff')}")
        out["applies"] = r.returncode == 0
        if not out["applies"]:
            out["apply_error"] = r.stderr[-300:]
            return out
        t = sh(f"cd {wt} && {PY} -m pytest -q -p no:cacheprovider -n 16 2>&1 | tail -15")
        failed = [l for l in t.stdout.splitlines() if l.startswith("FAILED") and "test_markdown_with_dash_e_single_by_id_and_bad_config_file" not in l]
        out["suite_passes"] = not failed and ("passed" in t.stdout or "FAILED" in t.stdout or t.stdout.strip() != "")
        out["suite_tail"] = t.stdout.splitlines()[-3:]
        out["suite_new_failures"] = failed[:5]
        cmd = demo_cmd(d)
        w = subprocess.run(cmd, capture_output=True, text=True, cwd=wt, env=dict(os.environ, PYTHONPATH=wt), timeout=600)
        wo = subprocess.run(cmd, capture_output=True, text=True, cwd="/repo", env=dict(os.environ, PYTHONPATH="/repo"), timeout=600)
        out["demo_with_change"] = w.returncode
        out["demo_without_change"] = wo.returncode
        out["confirmed"] = out["suite_passes"] and w.returncode != 0 and wo.returncode == 0
    finally:
        sh(f"git -C /repo worktree remove --force {wt}")
    return out


def run(mid, tier="quick", inplace=False):
    """inplace=True: the brief's procedure (git -C /repo apply … checkout).  Default: the same patch in a scratch worktree and
    VERIF_REPO pointing at it, so that nothing else using /repo at the same time (baseline builds, other agents) is disturbed."""
    d = os.path.join(SEED, mid)
    meta = json.load(open(os.path.join(d, "meta.json")))
    props = meta["property"] if isinstance(meta["property"], list) else [meta["property"]]
    props = list(dict.fromkeys(props + meta.get("also_check", [])))
    env = dict(os.environ)
    wt = f"/tmp/sr-{mid}"
    if inplace:
        if sh("git -C /repo status --porcelain").stdout.strip():
            raise SystemExit("/repo is not clean")
        r = sh(f"git -C /repo apply {os.path.join(d, 'patch.diff')}")
    else:
        sh(f"git -C /repo worktree remove --force {wt}")
        r = sh(f"git -C /repo worktree add {wt} HEAD")
        if not r.returncode:
            r = sh(f"git -C {wt} apply {os.path.join(d, 'patch.diff')}")
            if r.returncode:      # /repo moved on (later fix: commits): merge the change
                r = sh(f"git -C {wt} apply --3way {os.path.join(d, 'patch.diff')}")
        env["VERIF_REPO"] = wt
    if r.returncode:
        raise SystemExit("patch does not apply: " + r.stderr)
    res = {}
    try:
        for p in props:
            t0 = time.time()
            c = subprocess.run([os.path.join(ROOT, "check"), p, "--tier", tier], capture_output=True, text=True, cwd=ROOT, env=env)
            vio = [l for l in c.stdout.splitlines() if l.startswith("VIOLATION")]
            lines = c.stdout.splitlines()
            first = next((i for i, l in enumerate(lines) if l.startswith("VIOLATION")), None)
            esc = next((i for i, l in enumerate(lines) if l.startswith("ESCALATE")), None)
            stage = None if first is None else "quick-sample" if esc is None or first < esc else \
                "changed-code-neighbourhood" if any('"neighbourhood": true' in open(os.path.join(ROOT, v.split("replay=")[1].split()[0])).read() for v in vio[:1] if os.path.exists(os.path.join(ROOT, v.split("replay=")[1].split()[0]))) else "escalated-thorough-space"
            res[p] = {"exit": c.returncode, "violations": vio[:3], "caught": c.returncode == 1 and bool(vio), "stage": stage,
                      "neighbourhood": next((l for l in lines if l.startswith("NEIGHBOURHOOD")), None),
                      "no_failing_input": any("no-failing-input-found" in v for v in vio) and not any("no-failing-input-found" not in v for v in vio),
                      "wall_s": round(time.time() - t0, 1), "stderr_tail": c.stderr[-300:] if c.returncode == 2 else ""}
    finally:
        if inplace:
            sh("git -C /repo checkout -- .")
        else:
            sh(f"git -C /repo worktree remove --force {wt}")
        sh(f"rm -rf {os.path.join(ROOT, 'replays')}")
        # restore generated Lean tables and evidence to the clean-tree state
        sh(f"cd {ROOT} && {PY} tools/regen.py")
        sh(f"cd {ROOT} && git checkout -- evidence lean/Verif/Gen 2>/dev/null")
    json.dump({"tier": tier, "mode": "git -C /repo apply" if inplace else "scratch worktree + VERIF_REPO", "results": res},
              open(os.path.join(d, "result.json"), "w"), indent=1)
    return res


if __name__ == "__main__":
    cmd = sys.argv[1]
    if cmd == "confirm":
        r = confirm(sys.argv[2])
        print(json.dumps(r, indent=1))
        p = os.path.join(SEED, sys.argv[2], "confirm.json")
        json.dump(r, open(p, "w"), indent=1)
    elif cmd == "run":
        print(json.dumps(run(sys.argv[2], sys.argv[3] if len(sys.argv) > 3 else "quick"), indent=1))
    elif cmd == "all":
        tier = sys.argv[2] if len(sys.argv) > 2 else "quick"
        for mid in sorted(os.listdir(SEED)):
            if os.path.exists(os.path.join(SEED, mid, "patch.diff")):
                r = run(mid, tier)
                print(mid, {p: ("CAUGHT" + (" (no input)" if v["no_failing_input"] else "")) if v["caught"] else f"missed (exit {v['exit']})" for p, v in r.items()})
