"""Source pins: which files of /repo differ from the tree on which the thorough tier was last validated.

`tools/srcpins.json` (committed; rebuilt only by `tools/srcpin.py --rebuild` after every tier was re-validated on the tree)
holds sha1(file bytes) of every source / documentation file a property is anchored in.  On every run `changed()` recomputes
them on the CURRENT working tree (VERIF_REPO or /repo).  A difference is NOT a violation and is never reported as one; it only
decides how deep the quick tier looks: when a file a property is anchored in has changed, the quick command goes on, after its
own sample found nothing, to the complete closed space of the thorough tier (`check.py`: "ESCALATE").  On the unchanged tree
nothing differs and the quick tier is exactly the seeded sample.
"""
import fnmatch, hashlib, json, os, sys

ROOT = os.path.dirname(os.path.dirname(os.path.abspath(__file__)))
PINS = os.path.join(ROOT, "tools", "srcpins.json")
DIRS = ["pymarkdown", "newdocs/src", "docs"]
EXTS = (".py", ".md", ".json", ".txt", ".yaml", ".yml", ".toml")
# properties that rest on the whole parser (every non-rule file under pymarkdown/ is relevant to them) ...
PARSER_WIDE = ["C01", "C02", "C03", "C04", "C05", "C08"]
# ... and the one that rests on every rule body and on the token shapes the parser hands them
EVERYTHING = ["C07", "C10", "C11", "C14", "C15", "C17", "C18"]      # + the shell properties whose thorough tier takes under a minute


def repo():
    return os.environ.get("VERIF_REPO", "/repo")


def current():
    base, out = repo(), {}
    for d in DIRS:
        for dp, dn, fn in os.walk(os.path.join(base, d)):
            dn[:] = [x for x in dn if x != "__pycache__"]
            for f in fn:
                if f.endswith(EXTS):
                    p = os.path.join(dp, f)
                    with open(p, "rb") as fh:
                        out[os.path.relpath(p, base)] = hashlib.sha1(fh.read()).hexdigest()
    return out


def changed():
    """sorted list of repo-relative paths that were modified, added or removed w.r.t. the pins"""
    try:
        pins = json.load(open(PINS))["files"]
    except (OSError, ValueError, KeyError):
        return None
    cur = current()
    return sorted(p for p in set(pins) | set(cur) if pins.get(p) != cur.get(p))


def _anchors():
    out = {}
    for line in open(os.path.join(ROOT, "properties.jsonl"), encoding="utf-8"):
        p = json.loads(line)
        pats = []
        for f in (p.get("anchors") or {}).get("files", []):
            pats.append(f.split(" ")[0].strip())
        out[p["id"]] = pats
    return out


def affected(prop, files=None):
    """the changed files that are relevant to `prop` (anchor globs of properties.jsonl, PARSER_WIDE, EVERYTHING)"""
    files = changed() if files is None else files
    if not files:
        return []
    anch = _anchors()
    mine = anch.get(prop, [])
    hit = [f for f in files if any(fnmatch.fnmatch(f, pat) for pat in mine)]
    if prop in PARSER_WIDE:
        hit += [f for f in files if f.startswith("pymarkdown/") and not f.startswith("pymarkdown/plugins/")]
    if prop in EVERYTHING:
        hit += [f for f in files if f.startswith("pymarkdown/")]
    return sorted(set(hit))


if __name__ == "__main__":
    if "--rebuild" in sys.argv:
        cur = current()
        json.dump({"note": "sha1 of the files of /repo on which every tier was last validated; see tools/srcpin.py",
                   "files": cur}, open(PINS, "w"), indent=0, sort_keys=True)
        print("pinned", len(cur), "files")
    else:
        ch = changed()
        print("changed:", ch)
        for pid in sorted(_anchors()):
            a = affected(pid, ch)
            if a:
                print(pid, a)
