"""Engine correspondence: probe rules implemented twice (Lean: Verif/Drv/Engine.lean; here as
generated plug-ins), real `scan` runs vs the Lean engine model."""
import hashlib, json, os, re, sys
import vlib, implib

SEM_TMPL = '''
from pymarkdown.plugin_manager.plugin_details import PluginDetailsV2
from pymarkdown.plugin_manager.rule_plugin import RulePlugin
import builtins
LOG = builtins.__dict__.setdefault("_verif_sem_log", [])

class {cls}(RulePlugin):
    def __init__(self):
        super().__init__()
        self.count = 0
    def get_details(self):
        return PluginDetailsV2(plugin_name="{name}", plugin_id="{pid}", plugin_enabled_by_default={enabled},
            plugin_description="verif probe", plugin_version="0.0.1", plugin_interface_version=2,
            plugin_supports_fix=False, plugin_fix_level=1)
{methods}
'''
SEM_METHODS = {
    "start": '''
    def starting_new_file(self):
        LOG.append(("{pid}", "S"))
        if {resets}:
            self.count = 0
''',
    "token": '''
    def next_token(self, context, token):
        LOG.append(("{pid}", "T", str(token)))
        s = self.count
        self.count += 1
        if {tokTrig!r} and {tokTrig!r} in str(token):
            self.report_next_token_error(context, token, extra_error_information=str(s))
''',
    "line": '''
    def next_line(self, context, line):
        LOG.append(("{pid}", "L", context.line_number, line))
        if {boom!r} and {boom!r} in line:
            raise Exception("probe boom")
        s = self.count
        self.count += 1
        if {lineTrig!r} and {lineTrig!r} in line:
            self.report_next_line_error(context, line.index({lineTrig!r}) + 1, extra_error_information=str(s))
''',
    "done": '''
    def completed_file(self, context):
        LOG.append(("{pid}", "D", context.line_number))
        if {doneReport}:
            self.report_next_line_error(context, 1, extra_error_information=str(self.count))
''',
}


def sem_log():
    import builtins
    return builtins.__dict__.setdefault("_verif_sem_log", [])


def write_probe(dirpath, spec):
    """spec: dict(id, start, token, line, done, resets, doneReport, lineTrig, tokTrig, boom)"""
    key = hashlib.sha1(json.dumps(spec, sort_keys=True).encode()).hexdigest()[:10]
    mod = f"vs_{spec['id'].lower()}_{key}"
    cls = "".join(x.capitalize() or "_" for x in mod.split("_"))
    cbs = [c for c in ("start", "token", "line", "done") if spec[c]]
    methods = "".join(SEM_METHODS[c].format(pid=spec["id"], resets=spec["resets"], tokTrig=spec["tokTrig"],
                                            boom=spec["boom"], lineTrig=spec["lineTrig"], doneReport=spec["doneReport"]) for c in cbs)
    src = SEM_TMPL.format(cls=cls, name=",".join(probe_names(spec)), pid=spec["id"], methods=methods, enabled=default_enabled(spec))
    return implib.write(os.path.join(dirpath, mod + ".py"), src)


# How a probe's effective `enabled` state comes about (spec["how"]): by its own default, or by -e / -d on the command line
# naming it by id, first name or second name — including the cross-identifier combinations where "disable beats enable"
# must hold whichever identifiers are used.  how -> (enabled by default, -e identifier index, -d identifier index); index 0 = id.
HOWS_ON = {"default": (True, None, None), "e-id": (False, 0, None), "e-name": (False, 1, None), "e-alias": (False, 2, None)}
HOWS_OFF = {"default": (False, None, None), "d-id": (True, None, 0), "d-name": (True, None, 1), "d-alias": (True, None, 2),
            "d-alias-e-id": (True, 0, 2), "d-id-e-name": (False, 1, 0), "d-name-e-alias": (False, 2, 1), "d-name-e-id": (True, 0, 1)}


def probe_names(spec):
    return ["probe-" + spec["id"].lower(), "alias-" + spec["id"].lower()]


def _how(spec):
    on = bool(spec.get("enabled", True))
    return (HOWS_ON if on else HOWS_OFF)[spec.get("how", "default")]


def default_enabled(spec):
    return _how(spec)[0]


def cli_selection(specs):
    """(-e identifiers, -d identifiers) implementing each spec's `how`."""
    en, dis = [], []
    for sp in specs:
        _, e, d = _how(sp)
        idents = [sp["id"].lower()] + probe_names(sp)
        if e is not None:
            en.append(idents[e])
        if d is not None:
            dis.append(idents[d])
    return en, dis


_META = {}


def builtin_meta():
    """(ids of all built-in rules, all_ids map key->plugin_id) by reflection on a PluginManager."""
    if not _META:
        from application_properties import ApplicationProperties
        from pymarkdown.general.main_presentation import MainPresentation
        from pymarkdown.plugin_manager.plugin_manager import PluginManager
        import pymarkdown
        pm = PluginManager(MainPresentation())
        pdir = os.path.join(os.path.dirname(pymarkdown.__file__), "plugins")
        pm.initialize(pdir, [], "", "", ApplicationProperties(), False, False)
        allids = getattr(pm, "_PluginManager__all_ids")
        _META["ids"] = sorted({fp.plugin_id for fp in allids.values()})
        _META["all_ids"] = {k: fp.plugin_id for k, fp in allids.items()}
        _META["default"] = sorted({fp.plugin_id for fp in allids.values() if fp.plugin_enabled_by_default})
        _META["fix"] = {fp.plugin_id: (fp.plugin_supports_fix, fp.plugin_fix_level) for fp in allids.values()}
    return _META["ids"], _META["all_ids"]


def default_ids():
    builtin_meta()
    return _META["default"]


def fix_meta():
    builtin_meta()
    return _META["fix"]


def only_args(enabled):
    """argv prefix that enables exactly the given built-in rule ids."""
    ids, _ = builtin_meta()
    a = []
    off = [x for x in ids if x not in enabled]
    if off:
        a += ["-d", ",".join(off)]
    if enabled:
        a += ["-e", ",".join(enabled)]
    return a


def xs(s):
    return "x" + " ".join(format(ord(c), "x") for c in s)


def unxs(s):
    s = s.strip()
    return "".join(chr(int(w, 16)) for w in s[1:].split())


def file_lines(text):
    """What FileSourceProvider delivers for a file with this text (no \\r here):
    split on \\n; a final newline yields a last empty line."""
    return text.split("\n")


REP = re.compile(r"^(.*?):(\d+):(\d+): ([A-Z]+\d+): (.*) \(([^()]*)\)$")


def parse_printed(stdout, names):
    """stdout of a scan -> {file: [(line, col, id, extra)]} in print order, plus unparsed lines."""
    per = {n: [] for n in names}
    other = []
    for l in stdout.splitlines():
        m = REP.match(l)
        if m and m.group(1) in per:
            desc = m.group(5)
            extra = ""
            mm = re.match(r"^(.*?) \[(.*)\]$", desc)
            if mm:
                extra = mm.group(2)
            per[m.group(1)].append((int(m.group(2)), int(m.group(3)), m.group(4), extra))
        elif l.strip():
            other.append(l)
    return per, other


def real_tokens(text):
    """(str(token), line, col) for the token stream the engine hands to rules."""
    from pymarkdown.general.source_providers import InMemorySourceProvider
    tk = implib.parser()
    toks = tk.transform_from_provider(InMemorySourceProvider(text), do_add_end_of_stream_token=True)
    if toks and toks[-1].is_pragma:
        toks = toks[:-1]
    return [(str(t), t.line_number, t.column_number) for t in toks]


def flags(spec):
    return "".join("1" if spec[k] else "0" for k in ("start", "token", "line", "done", "resets", "doneReport"))


def model_request(specs, texts, cont, extra_ids=None, tokens=None):
    ids, allids = builtin_meta()
    amap = dict(allids)
    for sp in specs:
        amap[sp["id"].lower()] = sp["id"].lower()
        amap["probe-" + sp["id"].lower()] = sp["id"].lower()
    if extra_ids:
        amap.update(extra_ids)
    ordered = sorted((s for s in specs if s.get("enabled", True)), key=lambda s: s["id"].lower())
    rules = ";".join(",".join([xs(sp["id"]), flags(sp), xs(sp["lineTrig"]), xs(sp["tokTrig"]), xs(sp["boom"])]) for sp in ordered)
    files = []
    for i, t in enumerate(texts):
        tks = tokens[i] if tokens is not None else real_tokens(t)
        tk = "!" if tks is None else "/".join(f"{xs(a)}:{l}:{c}" for a, l, c in tks)
        ls = file_lines(t)
        files.append(tk + "," + ("/".join(xs(l) for l in ls) if ls else "~"))
    return ("1" if cont else "0") + "|" + ";".join(f"{xs(k)}={xs(v)}" for k, v in sorted(amap.items())) + "|" + rules + "|" + ";".join(files), ordered


def parse_answer(ans, nspecs):
    fileS, failures, anyfail, logS, pfS = ans.split("|")
    files = []
    for f in (fileS.split(";") if fileS else []):
        reps, err = f.rsplit(",", 1)
        rl = []
        for r in (reps.split("/") if reps else []):
            a, b, c, d = r.split(":")
            rl.append((int(a), int(b), unxs(c).upper(), unxs(d)))
        if err.startswith("P:"):
            _, pid, act = err.split(":")
            err = ("P", unxs(pid).upper(), act)
        else:
            err = (err,)
        files.append((rl, err))
    logs = []
    for l in (logS.split(";") if nspecs else []):
        evs = []
        for e in (l.split("/") if l else []):
            p = e.split(":")
            if p[0] == "S":
                evs.append(("S",))
            elif p[0] == "T":
                evs.append(("T", unxs(p[1])))
            elif p[0] == "L":
                evs.append(("L", int(p[1]), unxs(p[2])))
            else:
                evs.append(("D", int(p[1])))
        logs.append(evs)
    pfs = []
    for f in pfS.split(";"):
        pfs.append([tuple(x.split(":", 1)) for x in f.split("/")] if f else [])
    return files, int(failures), anyfail == "1", logs, pfs


ACTION = {"starting_new_file": "S", "next_token": "T", "next_line": "L", "completed_file": "D"}


def run_real(ws, specs, texts, cont, extra_args=(), enable_builtin=False):
    """Real `scan` of the files with only the probe rules enabled (built-ins disabled by id)."""
    d = os.path.join(ws, "eng")
    import shutil
    shutil.rmtree(d, ignore_errors=True)
    os.makedirs(d)
    names = []
    for i, t in enumerate(texts):
        n = f"f{i:02d}.md"
        implib.write(os.path.join(d, n), t)
        names.append(n)
    pdir = os.path.join(ws, "probes")
    argv = []
    for sp in specs:
        argv += ["--add-plugin", write_probe(pdir, sp)]
    ids, _ = builtin_meta()
    en, dis = cli_selection(specs)
    if not enable_builtin:
        dis = list(ids) + dis
    if dis:
        argv += ["-d", ",".join(dis)]
    if en:
        argv += ["-e", ",".join(en)]
    if cont:
        argv.append("--continue-on-error")
    argv += list(extra_args) + ["scan"] + names
    log = sem_log()
    log.clear()
    code, out, err = vlib.run_main(argv, cwd=d)
    per, other = parse_printed(out, names)
    # errors: continue mode prints "<file>:0:0: <msg>" on stderr; otherwise the long form
    errs = {}
    for n in names:
        m = re.search(re.escape(n) + r":0:0: (.*)", err)
        if m:
            errs[n] = m.group(1)
        m = re.search(r"(\w+) encountered while scanning '" + re.escape(n) + r"':\n(.*)", err)
        if m:
            errs[n] = m.group(2)
    ferr = {}
    for n, msg in errs.items():
        m = re.search(r"Plugin id '(\w+)' had a critical failure during the '(\w+)' action", msg)
        ferr[n] = ("P", m.group(1).upper(), ACTION[m.group(2)]) if m else ("T",) if "tokeniz" in msg.lower() or "BadTokenization" in msg else ("?", msg)
    plog = {}
    for e in list(log):
        plog.setdefault(e[0], []).append(tuple(e[1:]))
    return dict(code=code, printed=per, other=other, errs=ferr, stderr=err, names=names, log=plog)


PF_KIND = [("specified without command", "noCommand"), ("not understood", "unknownCommand"), ("blank id", "blankId"),
           ("unable to find a plugin", "unknownId"), ("was not followed by a count", "noCount"),
           ("not a valid positive integer", "badCount"), ("were not followed by a list", "noIds")]


def real_pragma_failures(stderr, names):
    per = {n: [] for n in names}
    for l in stderr.splitlines():
        m = re.match(r"^(.*?):(\d+):1: INLINE: (.*)$", l)
        if m and m.group(1) in per:
            kind = next((k for s, k in PF_KIND if s in m.group(3)), "?" + m.group(3))
            per[m.group(1)].append((m.group(2), kind))
    return per


def compare(real, answer, ordered_specs):
    """Differences between a real run and the model's answer (list of strings; empty = agree)."""
    mfiles, mfail, manyfail, mlogs, mpfs = parse_answer(answer, len(ordered_specs))
    diffs = []
    names = real["names"]
    # files started: all in the model's list
    for i, n in enumerate(names):
        if i < len(mfiles):
            mp, me = mfiles[i]
            rp = real["printed"][n]
            if rp != mp:
                diffs.append(f"printed[{n}]: real {rp} model {mp}")
            re_ = real["errs"].get(n, ("-",))
            if tuple(re_) != tuple(me):
                diffs.append(f"error[{n}]: real {re_} model {me}")
        else:
            if real["printed"][n] or n in real["errs"]:
                diffs.append(f"file {n} processed by implementation but not by model")
    rfail = sum(len(v) for v in real["printed"].values())
    if rfail != mfail:
        diffs.append(f"failure count real {rfail} model {mfail}")
    want_code = 1 if (manyfail or mfail) else 0
    if real["code"] != want_code:
        diffs.append(f"exit code real {real['code']} model {want_code}")
    for sp, ml in zip(ordered_specs, mlogs):
        rl = real["log"].get(sp["id"], [])
        if [tuple(e) for e in rl] != ml:
            # first difference
            k = next((j for j, (a, b) in enumerate(zip(rl, ml)) if tuple(a) != b), min(len(rl), len(ml)))
            diffs.append(f"log[{sp['id']}] differs at call {k}: real {rl[k] if k < len(rl) else None} model {ml[k] if k < len(ml) else None} (lengths {len(rl)}/{len(ml)})")
    rpf = real_pragma_failures(real["stderr"], names)
    for i, n in enumerate(names):
        if i < len(mfiles) and i < len(mpfs):
            mm = [(a, b.split(":")[0]) for a, b in mpfs[i]]
            if rpf[n] != mm and not (i < len(mfiles) and mfiles[i][1] != ("-",)):
                diffs.append(f"pragma failures[{n}]: real {rpf[n]} model {mm}")
    return diffs


def exc_signature(exc):
    """Call-site signature of a wrapped failure: root exception type, function and module where it
    was raised (no line numbers, so unrelated edits do not change it)."""
    root = exc
    while root.__cause__ is not None:
        root = root.__cause__
    tb = root.__traceback__
    last = None
    while tb is not None:
        last = tb
        tb = tb.tb_next
    where = "?"
    if last is not None:
        co = last.tb_frame.f_code
        where = f"{os.path.basename(co.co_filename)}:{co.co_name}"
    return f"{type(root).__name__}@{where}"


FULL = re.compile(r"^(.*?):(\d+):(\d+): ([A-Z]+\d+): (.*)$")


def scan_docs(ws, docs, extra_args=(), sub="pool"):
    """One real `scan --continue-on-error` over many documents.
    Returns [(reports [(line, col, id, text)], error or None)] aligned with docs."""
    import shutil
    d = os.path.join(ws, sub)
    shutil.rmtree(d, ignore_errors=True)
    os.makedirs(d)
    names = []
    for i, t in enumerate(docs):
        n = f"d{i:05d}.md"
        implib.write(os.path.join(d, n), t)
        names.append(n)
    captured = {}
    from pymarkdown.file_scan_helper import FileScanHelper
    orig = FileScanHelper._FileScanHelper__handle_scan_error

    def spy(self, next_file, this_exception, allow_shortcut=False):
        captured[os.path.basename(next_file)] = exc_signature(this_exception)
        return orig(self, next_file, this_exception, allow_shortcut)

    FileScanHelper._FileScanHelper__handle_scan_error = spy
    try:
        code, out, err = vlib.run_main(["--continue-on-error"] + list(extra_args) + ["scan"] + names, cwd=d)
    finally:
        FileScanHelper._FileScanHelper__handle_scan_error = orig
    per = {n: [] for n in names}
    for l in out.splitlines():
        m = FULL.match(l)
        if m and m.group(1) in per:
            per[m.group(1)].append((int(m.group(2)), int(m.group(3)), m.group(4), m.group(5)))
    errs = {}
    for l in err.splitlines():
        m = re.match(r"^(d\d{5}\.md):0:0: (.*)$", l)
        if m:
            errs[m.group(1)] = m.group(2) + " || " + captured.get(m.group(1), "?")
    fatal = None
    if code not in (0, 1) or ("Error" in err and not errs and "INLINE" not in err):
        fatal = err[-400:]
    return [(per[n], errs.get(n)) for n in names], fatal
