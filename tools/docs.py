"""Document spaces shared by the parser/rule-family checks (DESIGN §4).  All spaces are finite and
explicitly enumerated; quick = seeded sample of the space thorough enumerates."""
import glob, itertools, json, os
import vlib

PREFIX = ["", " ", "   ", "    ", "\t", "> ", ">", ">  ", ">\t", "- ", "-\t", "1. ", "10) ",
          "  - ", "   > ", "> - ", "- > ", "> > "]
BODY = ["", "a", "a  ", "a\\", "# h", "#h", "## h ##", "#\th", "---", "***", "* * *", "===", "```", "```py",
        "~~~", "<div>", "<!-- c -->", "</x>", "[r]: /u", "[r]: /u \"t\"", "[r]", "+ x", "2) y", "*e*", "__s__",
        "`c`", "&amp;", "&#35;", "<b>", "<http://a.b>", "![i](/u)", "[t](/u \"T\")", "\\*", "þ", "é"]

# the core stratum (DESIGN §4 "Strata"): no tabs, ≤ 3 spaces of indentation, one level of nesting
CORE_PREFIX = ["", " ", "   ", "> ", "- ", "1. "]
CORE_BODY = ["", "a", "a  ", "# h", "## h ##", "---", "***", "===", "```", "~~~", "[r]: /u", "[r]", "+ x", "2) y",
             "*e*", "__s__", "`c`", "&amp;", "<b>", "<http://a.b>", "![i](/u)", "[t](/u \"T\")", "\\*", "é"]

PREFIX3 = ["", "  ", "> ", "- ", "1. ", "    "]
BODY3 = ["", "a", "# h", "---", "```", "===", "+ x", "[r]: /u", "*e*", "<b>"]


def lines_of(prefixes, bodies):
    seen, out = set(), []
    for p in prefixes:
        for b in bodies:
            l = p + b
            if l not in seen:
                seen.add(l)
                out.append(l)
    return out


def d1(prefixes=PREFIX, bodies=BODY):
    for l in lines_of(prefixes, bodies):
        yield l
        yield l + "\n"


def dn(n, prefixes, bodies, final_newline=True):
    ls = lines_of(prefixes, bodies)
    for t in itertools.product(ls, repeat=n):
        yield "\n".join(t) + ("\n" if final_newline else "")


_CASES = None


def repo_cases():
    """[(name, markdown, expected_html)] extracted (AST) from /repo/test — committed copy in corpus/."""
    global _CASES
    if _CASES is None:
        p = os.path.join(vlib.ROOT, "corpus", "repo_cases.json")
        _CASES = [(c["name"], c["md"], c["html"]) for c in json.load(open(p, encoding="utf-8"))]
    return _CASES


def repo_sources():
    seen, out = set(), []
    for _, md, _ in repo_cases():
        if md not in seen:
            seen.add(md)
            out.append(md)
    return out


def rule_resources():
    """[(relative path, text)] of the repo's own rule test documents."""
    root = os.path.join(vlib.REPO, "test", "resources", "rules")
    out = []
    for p in sorted(glob.glob(os.path.join(root, "**", "*.md"), recursive=True)):
        try:
            out.append((os.path.relpath(p, root), open(p, encoding="utf-8", newline="").read()))
        except (UnicodeDecodeError, OSError):
            pass
    return out


def sample(rng, seq, k):
    seq = list(seq)
    if len(seq) <= k:
        return seq
    return rng.sample(seq, k)


def hash_slice(seq, k, salt=""):
    """A seed-INDEPENDENT selection of about k items of seq (by sha1 of the item), so that the thorough tier explores the
    same finite space on every run and every quick sample is a subset of it."""
    import hashlib
    seq = list(seq)
    if len(seq) <= k:
        return seq
    scored = sorted(seq, key=lambda x: hashlib.sha1((salt + repr(x)).encode("utf-8", "surrogatepass")).hexdigest())
    return scored[:k]


def families():
    """Rule-targeted structured documents (closed, seed-independent): heading level sequences, list marker / number
    sequences, trailing whitespace and tabs, fences, emphasis / code-span / link spacing, rules, quote spacing, and
    multi-line inline elements followed by a trigger line.  Returns a de-duplicated list."""
    import itertools
    out = []
    # headings: every level sequence of length 2..4 over 1..4 (ATX), a few setext / closed variants
    for n in (2, 3, 4):
        for seq in itertools.product((1, 2, 3, 4), repeat=n):
            out.append("\n\n".join("#" * l + f" H{i}" for i, l in enumerate(seq)) + "\n")
    for seq in itertools.product((1, 2, 3), repeat=3):
        out.append("\n".join("#" * l + f" H{i}" for i, l in enumerate(seq)) + "\n")           # no blank lines between
    out += ["T\n===\n\nS\n---\n\n### h\n", "T\n===\n\n### h\n\n#### k\n", "# T #\n\n### h ###\n", "#T\n\n##  S\n", " # T\n\n  ## S\n",
            "# A\n\n# A\n\n## A\n", "# T.\n\n## S!\n", "text\n\n# late\n"]
    # unordered lists: marker sequences, flat and nested, with indentation variants
    for marks in itertools.product("-+*", repeat=3):
        out.append("".join(f"{m} i{k}\n" for k, m in enumerate(marks)))
        out.append(f"{marks[0]} a\n  {marks[1]} b\n    {marks[2]} c\n")
    for ind in (1, 2, 3):
        out.append(" " * ind + "- a\n" + " " * ind + "- b\n")
        out.append("- a\n" + " " * (ind + 1) + "- b\n")
    for sp in (1, 2, 3):
        out.append("-" + " " * sp + "a\n-" + " " * sp + "b\n")
        out.append("1." + " " * sp + "a\n2." + " " * sp + "b\n")
    # ordered lists: number sequences x delimiter
    for nums in ((1, 1, 1), (1, 2, 3), (0, 1, 2), (3, 4, 5), (1, 3, 2), (0, 0, 0), (2, 2, 2), (9, 10, 11), (10, 11, 12), (1, 2, 2)):
        for d in ".)":
            out.append("".join(f"{x}{d} i{k}\n" for k, x in enumerate(nums)))
            out.append(f"{nums[0]}{d} a\n   {nums[1]}{d} b\n")
    out += ["10. x\n", "003. ok\n", "1. a\n\n   para\n2. b\n", "1. a\n- b\n1. c\n", "- a\n\n- b\n- c\n", "text\n- a\n- b\ntext\n", "- a\n\ntext\n"]
    # trailing whitespace / tabs
    for tail in ("", " ", "  ", "   ", "\t", " \t", "\t ", "    "):
        out.append("# T\n\nline" + tail + "\nnext\n")
        out.append("- item" + tail + "\n- two\n")
        out.append("```\ncode" + tail + "\n```\n")
        out.append("text" + tail)
    out += ["a\tb\n", "\ta\n", "- a\n\n\tb\n", "> a\tb\n", "```\n\tcode\n```\n", "a\n\n\n\nb\n", "a\n\n\nb\n\n\n\nc\n", "a\n\n", "a\n\n\n", "\n\na\n", "a"]
    # fences
    for op, cl in (("```", "```"), ("~~~", "~~~"), ("````", "````")):
        for lang in ("", "py"):
            for before, after in (("", ""), ("text\n", ""), ("", "text\n"), ("text\n", "text\n"), ("text\n\n", "\ntext\n")):
                out.append(before + op + lang + "\ncode\n" + cl + "\n" + after)
    out += ["```py\na\n```\n\n~~~py\nb\n~~~\n", "    indented\n\n```\nfenced\n```\n", "- a\n  ```\n  c\n  ```\n- b\n", "> ```\n> c\n> ```\n"]
    # emphasis / code span / link spacing
    out += ["a * b * c\n", "a ** b** c\n", "a _ b_ c\n", "a *b * c\n", "a __ b __ c\n", "* a *\n", "` a`\n", "`a `\n", "` a `\n", "`  a  `\n",
            "[ a](/u)\n", "[a ](/u)\n", "[ a ](/u)\n", "![ a ](/u)\n", "[](/u)\n", "[a]()\n", "[a](#)\n", "![](/u)\n", "<b>x</b>\n", "http://x.y\n", "<http://x.y>\n"]
    # rules and quotes
    for a, b in itertools.product(("---", "***", "___", "- - -", "* * *", "----"), repeat=2):
        out.append(a + "\n\n" + b + "\n")
    out += [">  a\n", ">a\n", "> a\n>  b\n", "> a\n\n> b\n", ">   a\n> > b\n", "> - a\n>   b\n"]
    # multi-line inline elements followed by a trigger line
    inl = ["`\ncode `", "` code\n`", "`\ncode\n`", "`co\nde`", "` code\n   `", "[te\nxt](/u)", "[text](\n/u)", "[text](/u\n\"t\")", "![al\nt](/u)",
           "*em\nph*", "**str\nong**", "<b\nx='1'>", "<!-- c\nd -->", "<http://a.b\n>", "[te\nxt][r]", "a\\\nb", "a  \nb"]
    nxt = ["#b", "# b", "b", " #b", "##b ##", "- b"]
    for i in inl:
        for n in nxt:
            out.append("a " + i + " b\n" + n + "\n")
        out.append("> a " + i.replace("\n", "\n> ") + " b\n> #b\n")
        out.append("- a " + i.replace("\n", "\n  ") + " b\n  #b\n")
    out.append("[r]: /u\n")
    # characters str.splitlines() treats as line ends (a file's readlines() does not), before block-significant text
    for ch in ("\u2028", "\u2029", "\x85", "\x0c", "\x0b", "\x1c"):
        for nxt in ("# not a heading", "1. x", "- x", "> x", "---"):
            out.append("Some text" + ch + nxt + " \n")
    # code spans: delimiter run x padding x content with embedded backticks (MD038)
    for dl in ("`", "``"):
        for lp in ("", " ", "  ", "   "):
            for rp in ("", " ", "  ", "   "):
                for c in (("a", "a b") if dl == "`" else ("a", "`a`", "a`b", "`a", "a`")):
                    out.append("Use " + dl + lp + c + rp + dl + " to build.\n")
        out.append("Run " + dl + "  `make" + dl + " first and " + dl + "make test" + dl + " afterwards\n")
    # emphasis markers with inner spaces (MD037)
    for m in ("*", "**", "_", "__"):
        for lp in ("", " ", "  "):
            for rp in ("", " ", "  "):
                for c in ("a", "a b"):
                    out.append("x " + m + lp + c + rp + m + " y\n")
    # link / image text padding (MD039)
    for bang in ("", "!"):
        for lp in ("", " ", "  "):
            for rp in ("", " ", "  "):
                out.append("see " + bang + "[" + lp + "a" + rp + "](/u) end\n")
    # ATX spacing and indentation (MD018-MD023)
    for h in ("#", "##"):
        for sp in ("", " ", "  ", "   ", "\t"):
            out.append(h + sp + "a\n")
            for csp in ("", " ", "  ", "   "):
                out.append(h + sp + "a" + csp + h + "\n")
        for ind in (" ", "  ", "   "):
            out.append(ind + h + " a\n")
    # nested list indentation (MD005 / MD007)
    for m1, w in (("-", 2), ("1.", 3)):
        for ind in range(0, 7):
            out.append(f"{m1} a\n" + " " * ind + f"{m1} b\n")
            out.append(f"{m1} a\n" + " " * w + f"{m1} b\n" + " " * ind + f"{m1} c\n")
    # block-quote marker spacing (MD027)
    for sp in ("", " ", "  ", "   "):
        for c in ("a", "# h", "- a", "```"):
            out.append(">" + sp + c + "\n>" + sp + "b\n")
    # list marker spacing (MD030)
    for m in ("-", "1."):
        for sp in (" ", "  ", "   ", "    "):
            out.append(m + sp + "a\n" + m + sp + "b\n")
            out.append(m + sp + "a\n\n" + " " * (len(m) + len(sp)) + "p\n" + m + sp + "b\n")
    return list(dict.fromkeys(out))


def inline_emph(maxlen=7, alphabet="*_a "):
    """All one-paragraph documents over the emphasis alphabet up to maxlen characters (21 844 for the defaults): every
    way delimiter runs of the two emphasis characters can open, cross and close."""
    import itertools
    out = []
    for n in range(1, maxlen + 1):
        for t in itertools.product(alphabet, repeat=n):
            s = "".join(t)
            if s.strip() == s and ("*" in s or "_" in s):
                out.append(s)
    return out


def inline_links(maxlen=6):
    """Paragraphs from <= maxlen atoms of the link / image / code-span / escape alphabet."""
    import itertools
    atoms = ["[", "]", "(", ")", "!", "`", "\\", "<", ">", "a", " ", "/u", "*"]
    out = []
    for n in range(1, maxlen + 1):
        if n <= 4:
            for t in itertools.product(atoms, repeat=n):
                s = "".join(t)
                if s.strip() == s:
                    out.append(s)
    return list(dict.fromkeys(out))


# D_inline (DESIGN §4): single paragraphs from at most n atoms (distinct concatenations only)
INLINE_ATOMS = ["*", "**", "_", "__", "`", "``", "[", "]", "(", ")", "!", "\\", "<", ">", "\"", "&", "&amp;", "a", " ", "\n", "/u"]


def d_inline(n=4, atoms=INLINE_ATOMS):
    seen = set()
    for k in range(1, n + 1):
        for t in itertools.product(atoms, repeat=k):
            s = "".join(t)
            if s not in seen:
                seen.add(s)
                yield s


def leaf_edges():
    """Leaf-block opener/closer shapes x trailing whitespace x leading indentation (closed, seed-independent)."""
    leaves = ["# a", "# a #", "# a#", "# C#", "## a ##", "## a##", "# a \\#", "#", "# ", "#\ta", "####### a", "a\n===", "a\n---", "a\n= =", "a\nb\n===",
              "```", "```py", "``` py x", "~~~", "~~~~", "```\nc\n```", "~~~\nc\n~~~", "---", "***", "* * *", "_ _ _", "<div>", "<!-- c -->", "<?x?>",
              "[r]: /u", "[r]: /u \"t\"", "[r]:\n/u", "    code", "a", "a\\", "1. a", "- a", "> a", "a  \nb", "*a*", "`a`", "[a](/u)"]
    trail = ["", " ", "  ", "   ", "\t", " \t"]
    lead = ["", " ", "   "]
    out = []
    for l in leaves:
        for t in trail:
            for i in lead:
                lines = l.split("\n")
                body = "\n".join(i + x for x in lines[:-1] + [lines[-1] + t])
                out += [body + "\n", body]
                if len(lines) > 1:
                    body2 = "\n".join([i + lines[0] + t] + [i + x for x in lines[1:]])
                    out.append(body2 + "\n")
    return list(dict.fromkeys(out))


def link_edges():
    """Link / image / definition forms x destination and title edge shapes (percent escapes, entities, parentheses,
    angle brackets, spaces, non-ASCII), plain and inside '> ' and '- '."""
    dests = ["/u", "/u%2", "/u%20", "/u%", "/u%g", "/u%2g", "/u%F", "/a(b)", "/a\\(b", "<a b>", "<>", "", "#", "/ü", "/a&b", "/a&amp;b", "/a*b*", "/a\\*b", "/a`b", "/a\"b", "/a%%", "/%41%zz"]
    titles = ["", " \"t\"", " 't'", " (t)", " \"t%2\"", " \"a\\\"b\""]
    out = []
    for d in dests:
        for t in titles:
            body = [f"[l]({d}{t})", f"![i]({d}{t})", f"x [l]({d}{t}) y"]
            for b in body:
                out.append(b + "\n")
            if d:
                out.append(f"[r]: {d}{t}\n\n[r]\n")
                out.append(f"> [r]: {d}{t}\n>\n> [r]\n")
                out.append(f"- [l]({d}{t})\n")
                out.append(f"- > [bar]: {d}\n")
    out += ["<http://a.b/c%2>\n", "<http://a.b/c%20d>\n", "<a@b.c>\n", "[l](/u \"t\" x)\n", "[l](/u\n\"t\")\n", "[l]( /u )\n", "[l](</u> \"t\")\n"]
    return list(dict.fromkeys(out))


def inline_edges():
    """Witness documents of the defects the function-level building blocks found (builder sessions B1-B6: numeric character
    references out of range, empty comment / start tag ending in '/', empty link titles, '<' inside an angle destination,
    backslash-space in a destination, rule of 3 on partly consumed runs, looseness through several list ends / block quotes / link
    reference definitions, blank indented code behind a list marker, token fixers that expose each other) and their one-deletion
    neighbours.  No in-band marker characters (those are C02's codec space)."""
    w = ["a <!----> b", "a <!---> b", "a <!--> b", "a <!-- --> b", "&#x110000;", "&#1114112;", "&#xFFFFFF;", "&#9999999;", "&#xD800;", "&#xDFFF;", "&#0;", "&#x10FFFF;",
         "<a /", "<a b /", "<abc /", "<a / >", "a <a b=> c", "a <a b= > c", "a <a b=c> d", "a <http://a\x7fb> c", "a <foo@bar.com\n    > b", "a </a\n    > b", "a <!A\nb> c",
         "[a](/u \"\")", "[a](/u '')", "[a](/u ())", "![a](/u \"\")", "[a](<b<c>)", "[a](/u\\ \"t\")", "[a](/u\\\t\"t\")", "[a](<u>\"t\")",
         "[a](/u \"&#x110000;\")", "[a](/u&#xD800;)", "[a](/u \"&#xD800;\")", "[a](/u (a(b)c))", "[a](<% 1>)", "[a](/%+1)", "[a](/u \"t\" )",
         "*a***a*", "***a*a*a", "****a***a", "*a****a**", "a*\u00a3b*", "a*\U000110c1b*", "a*\U000100c1b*", "a*\uff5fb*", "<a&b@c.de>",
         "- - - a\n\n  b\n", "- - a\n\n    > b\n- c\n", "- [r]: /u\n\n  - x\n- y\n", "- a\n\n  [r]: /u\n\n  c\n", "- > - a\n  >\n  > x\n",
         "-     ", "*     ", "1.     ", "-      x", "x `  a` y", "x ` ` y", "x `` y", "# a\n\n###\tb\n", "- a\n\n+ ---\n", "---\n\n- * * *\n",
         "1. a\n 1. b\n  1. c\n   1. d\n1. e\n", "10. x\n", "9. a\n10.\n11. c\n", "<div/ class=\"x\">\n*foo*", "para\n<p/ x", "> a\n\n> b\n\n> c\n",
         "- >\n>  b\n", "* > # heading\n>  text\n", "- abc\n1. [foo]:\n\nbar", "a [b](/u\n  \"t\n z\") <k>\n---\n"]
    out = []
    for d in w:
        out += [d, d + "\n" if not d.endswith("\n") else d[:-1]]
        if len(d) <= 40:
            out += [d[:i] + d[i + 1:] for i in range(len(d))]
    lab = "a" * 1000
    out += [f"[{lab}]: /u\n\n[{lab}]\n", f"[{lab[:999]}]: /u\n\n[{lab[:999]}]\n"]
    return list(dict.fromkeys(x for x in out if x))


MULTI = ["`a\nb`", "``a\n b``", "[a\nb](/u)", "[a](/u\n\"t\")", "[a](\n/u)", "<b\nc>", "<b c=\"d\ne\">", "![a\nb](/u)", "![a](/u\n\"t\")", "[a\nb][r]",
         "[a\nb]", "[a][r\ns]", "![a][r\ns]", "x\\\ny", "x  \ny", "*a\nb*", "**a\nb**", "<!-- a\nb -->", "<http://a.b>\nq"]


def multi_pairs():
    """Two multi-line inline elements in one paragraph followed by short inline elements, with the continuation lines
    indented differently (0 / 1 / 3 spaces) — per-line leading-whitespace bookkeeping across several elements."""
    seen, out = set(), []
    inds = ["", " ", "   "]
    for m1 in MULTI:
        for m2 in MULTI:
            body = "a " + m1 + " c " + m2 + " *e* `f`"
            ls = body.split("\n")
            defs = "[a b]: /r\n[r]: /r\n[r s]: /r" if "[r" in body or "[a\nb]" in body else ""
            for i1 in inds:
                for i2 in inds:
                    o = [ls[0]] + [(i1 if k % 2 == 1 else i2) + l for k, l in enumerate(ls[1:], 1)]
                    d = "\n".join(o) + ("\n\n" + defs if defs else "\n")
                    if d not in seen:
                        seen.add(d); out.append(d)
                    q = "\n".join("> " + l for l in o) + ("\n\n" + defs if defs else "\n")
                    if i1 == i2 and q not in seen:
                        seen.add(q); out.append(q)
    return out


def container_pairs():
    """Two leaf blocks inside one container (and one level deeper), the second on the container's last line or followed by
    one more line: what a rule or generator sees when it indexes per-line container prefixes."""
    leaves = ["<!-- note -->", "<div>", "```\nc\n```", "# h", "---", "text", "- item", "1. item", "[r]: /u", "    code", "a\n===", "> q"]
    conts = [("> ", "> "), ("- ", "  "), ("1. ", "   "), ("> - ", ">   "), ("- > ", "  > "), ("> > ", "> > ")]
    out = []
    for first, cont in conts:
        for l1 in leaves:
            for l2 in leaves:
                lines = l1.split("\n") + l2.split("\n")
                body = "\n".join((first if i == 0 else cont) + x for i, x in enumerate(lines))
                out += [body + "\n", "# Title\n\n" + body + "\n", body + "\n" + cont + "tail\n"]
    return list(dict.fromkeys(out))


def corpus_marker_variants(limit_len=400):
    """Every repo test document with ONE list marker swapped for another kind (unordered <-> ordered, with the continuation
    indentation of the lines below adjusted by the width difference): the repo's own nesting shapes with the other list type."""
    import re
    out = []
    mk = re.compile(r"^((?:[ >]|[-+*] |\d{1,3}[.)] )*?)([-+*]|\d{1,3}[.)]) ")
    for d in repo_sources():
        if len(d) > limit_len or "\t" in d:
            continue
        lines = d.split("\n")
        for i, l in enumerate(lines):
            pos = 0
            # every marker occurrence on this line, left to right
            for m in re.finditer(r"(?:(?<=^)|(?<=[ >]))([-+*]|\d{1,3}[.)]) ", l):
                pre = l[:m.start()]
                if not re.fullmatch(r"(?:[ >]|[-+*] |\d{1,3}[.)] )*", pre):
                    continue
                old = m.group(1)
                for new in (("1.", "+") if old in "-+*" else ("-",)):
                    if new == old:
                        continue
                    delta = len(new) - len(old)
                    col = m.start()
                    nl = lines[:]
                    nl[i] = l[:col] + new + l[col + len(old):]
                    for j in range(i + 1, len(lines)):
                        x = lines[j]
                        # a continuation line of this item is indented past the marker column: shift its content
                        if len(x) > col + len(old) and x[col:col + len(old) + 1].strip() == "" and x[:col].replace(">", " ").strip(" ") == "" or \
                           (len(x) > col + len(old) and x[col:col + len(old) + 1] == " " * (len(old) + 1)):
                            nl[j] = x[:col] + (" " * delta if delta > 0 else "") + (x[col:] if delta >= 0 else x[col - delta:])
                        elif x.strip(" >") == "":
                            continue
                        else:
                            break
                    out.append("\n".join(nl))
    return list(dict.fromkeys(out))


def nest_drop():
    """Containers nested 2-4 deep over {block quote, unordered list, ordered list}, an inner paragraph continued on a second
    line, then the document DROPS out of the inner containers: optionally a blank line that keeps only the first k quote
    markers, then a line that continues only an outer prefix of the nesting and starts a leaf block.  This is where end tokens
    of several containers of different kinds are emitted at one point (closing order, C04) and where the positions of the
    first block after the drop are computed (C05)."""
    import itertools
    kinds = {"Q": ("> ", "> "), "U": ("+ ", "  "), "O": ("1. ", "   ")}
    out = []
    for depth in (2, 3, 4):
        for stack in itertools.product("QUO", repeat=depth):
            if depth == 4 and stack.count("Q") not in (1, 2):
                continue
            first = "".join(kinds[k][0] for k in stack)
            cont = "".join(kinds[k][1] for k in stack)
            for l1 in ("-----", "text 1", "-----U", "-----O", "-----Q"):
                second = l1.startswith("-----") and len(l1) > 5
                if second:      # a list / quote that starts on the SECOND line inside the innermost container
                    if depth == 4:
                        continue
                    m, pad = kinds[l1[-1]]
                    head = [first + "-----", cont + m + "list 1", cont + pad + "list 2"]
                else:
                    head = [first + l1, cont + "list 1", cont + "list 2"] if l1 == "-----" else [first + l1, cont + "text 2"]
                nq = stack.count("Q")
                for keep in range(1, depth + (1 if second else 0)):            # the outer prefix that survives the drop
                    outer = "".join(kinds[k][1] for k in stack[:keep])
                    blanks = [None] + [">" * q for q in range(0, min(nq, 2) + 1)]
                    if keep == depth:       # only the second-line container is left: blank line carrying the whole outer prefix
                        blanks = [None, outer.rstrip()]
                    for blank in blanks:
                        for leaf in ("some text", "```block\n" + outer + "code\n" + outer + "```", "-----", "# h"):
                            lines = head + ([blank] if blank is not None else []) + [outer + x if i == 0 else x for i, x in enumerate(leaf.split("\n"))]
                            out.append("\n".join(lines) + "\n")
                            if keep == depth:
                                out.append("\n".join(lines + [outer.rstrip(), outer + "-----", first.rstrip() + " another"]) + "\n")
    return list(dict.fromkeys(out))


def nest_reopen():
    """The sub-family of nest_drop() in which a container opened on the second line is closed again while its parents stay
    open, and the parents go on (break, new item): the per-rule container bookkeeping (leading-space index trackers) has to
    pop exactly one level."""
    return [d for d in nest_drop() if d.endswith(" another\n")]
