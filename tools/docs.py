"""Document spaces shared by the parser/rule-family checks (DESIGN §4).  All spaces are finite and
explicitly enumerated; quick = seeded sample of the space thorough enumerates."""
import glob, itertools, json, os
import vlib

PREFIX = ["", " ", "   ", "    ", "\t", "> ", ">", ">  ", ">\t", "- ", "-\t", "1. ", "10) ",
          "  - ", "   > ", "> - ", "- > ", "> > "]
BODY = ["", "a", "a  ", "a\\", "# h", "#h", "## h ##", "#\th", "---", "***", "* * *", "===", "```", "```py",
        "~~~", "<div>", "<!-- c -->", "</x>", "[r]: /u", "[r]: /u \"t\"", "[r]", "+ x", "2) y", "*e*", "__s__",
        "`c`", "&amp;", "&#35;", "<b>", "<http://a.b>", "![i](/u)", "[t](/u \"T\")", "\\*", "þ", "é"]

# the core stratum (DESIGN §4 "Strata"): no tabs, ≤ 3 spaces of indentation, one level of nesting
CORE_PREFIX = ["", " ", "   ", "> ", "- ", "1. "]
CORE_BODY = ["", "a", "a  ", "# h", "## h ##", "---", "***", "===", "```", "~~~", "[r]: /u", "[r]", "+ x", "2) y",
             "*e*", "__s__", "`c`", "&amp;", "<b>", "<http://a.b>", "![i](/u)", "[t](/u \"T\")", "\\*", "é"]

PREFIX3 = ["", "  ", "> ", "- ", "1. ", "    "]
BODY3 = ["", "a", "# h", "---", "```", "===", "+ x", "[r]: /u", "*e*", "<b>"]


def lines_of(prefixes, bodies):
    seen, out = set(), []
    for p in prefixes:
        for b in bodies:
            l = p + b
            if l not in seen:
                seen.add(l)
                out.append(l)
    return out


def d1(prefixes=PREFIX, bodies=BODY):
    for l in lines_of(prefixes, bodies):
        yield l
        yield l + "\n"


def dn(n, prefixes, bodies, final_newline=True):
    ls = lines_of(prefixes, bodies)
    for t in itertools.product(ls, repeat=n):
        yield "\n".join(t) + ("\n" if final_newline else "")


_CASES = None


def repo_cases():
    """[(name, markdown, expected_html)] extracted (AST) from /repo/test — committed copy in corpus/."""
    global _CASES
    if _CASES is None:
        p = os.path.join(vlib.ROOT, "corpus", "repo_cases.json")
        _CASES = [(c["name"], c["md"], c["html"]) for c in json.load(open(p, encoding="utf-8"))]
    return _CASES


def repo_sources():
    seen, out = set(), []
    for _, md, _ in repo_cases():
        if md not in seen:
            seen.add(md)
            out.append(md)
    return out


def rule_resources():
    """[(relative path, text)] of the repo's own rule test documents."""
    root = os.path.join(vlib.REPO, "test", "resources", "rules")
    out = []
    for p in sorted(glob.glob(os.path.join(root, "**", "*.md"), recursive=True)):
        try:
            out.append((os.path.relpath(p, root), open(p, encoding="utf-8", newline="").read()))
        except (UnicodeDecodeError, OSError):
            pass
    return out


def sample(rng, seq, k):
    seq = list(seq)
    if len(seq) <= k:
        return seq
    return rng.sample(seq, k)
