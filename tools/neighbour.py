"""Changed-code neighbourhood search — support for the SEARCH FOR A FAILING INPUT, never a decision procedure.

Runs only when a source file a property is anchored in differs from the tree the tiers were validated on (tools/srcpin.py) and
the closed spaces found nothing.  It looks for documents on which the property's own oracle fails on the CURRENT tree:

  1. what changed: line hunks of every changed pymarkdown/*.py file against the committed copy of the validated sources
     (corpus/pinned_src.tgz), and the functions that contain them;
  2. seeds: ~10 k documents of the closed spaces, run through the real parser / generators / scan / fix of the current tree with
     `sys.monitoring` LINE events restricted to the changed functions -> which seeds execute the changed lines;
  3. neighbourhood: character- and line-level edits of the seeds that reach the changed code (two rounds, the second around the
     documents found divergent in the first);
  4. divergence: a behaviour fingerprint (token stream, HTML, regenerated Markdown; scan reports; fixed text) of every candidate
     on the current tree and on the validated sources (a sub-process with VERIF_REPO pointing at the extracted copy) — a
     difference is NOT a violation, it selects the documents worth the full oracle;
  5. oracle: the property module's own document-level oracle (the same functions the registered pools go through) on the
     divergent documents, on both trees.  Reported: (configuration, document, signature) that FAIL on the current tree and do NOT
     fail that way on the validated sources, re-confirmed once.  A failure that the validated sources show on the same input is a
     pre-existing defect outside the closed spaces (counted in the evidence, not reported: it is not new and the closed-world rule
     of DESIGN §4 does not cover open-world inputs).

Everything derives from VERIF_SEED.  The replay file holds the document; `./check Cxx --replay f` re-evaluates the oracle on it.
"""
import ast, collections, difflib, hashlib, io, json, multiprocessing as mp, os, random, signal, subprocess, sys, tarfile, tempfile, time

ROOT = os.path.dirname(os.path.dirname(os.path.abspath(__file__)))
sys.path.insert(0, os.path.join(ROOT, "tools"))
sys.path.insert(0, os.path.join(ROOT, "tools", "props"))
PIN_TGZ = os.path.join(ROOT, "corpus", "pinned_src.tgz")
PIN_DIRS = ["pymarkdown", "newdocs/src", "docs"]
PY = sys.executable
PARSE_PROPS = {"C01", "C02", "C03", "C04", "C05"}
RULE_PROPS = {"C06", "C07"}
FIX_PROPS = {"C08", "C09"}
SUPPORTED = PARSE_PROPS | RULE_PROPS | FIX_PROPS
TOOL = 4
DOC_CPU = 3.0


# ------------------------------------------------------------------ validated sources
def rebuild_pin(repo="/repo"):
    buf = io.BytesIO()
    with tarfile.open(fileobj=buf, mode="w:gz", compresslevel=9) as tf:
        names = []
        for d in PIN_DIRS:
            for dp, dn, fn in os.walk(os.path.join(repo, d)):
                dn[:] = sorted(x for x in dn if x != "__pycache__")
                names += [os.path.join(dp, f) for f in sorted(fn) if not f.endswith(".pyc")]
        for p in sorted(names):
            ti = tf.gettarinfo(p, arcname=os.path.relpath(p, repo))
            ti.mtime, ti.uid, ti.gid, ti.uname, ti.gname = 0, 0, 0, "", ""
            with open(p, "rb") as fh:
                tf.addfile(ti, fh)
    open(PIN_TGZ, "wb").write(buf.getvalue())
    return len(names)


def pinned_root():
    h = hashlib.sha1(open(PIN_TGZ, "rb").read()).hexdigest()[:12]
    d = os.path.join(ROOT, ".cache", "pinned-" + h)
    if not os.path.exists(os.path.join(d, ".ok")):
        tmp = tempfile.mkdtemp(prefix="pin-", dir=os.path.join(ROOT, ".cache") if os.path.isdir(os.path.join(ROOT, ".cache")) else None)
        with tarfile.open(PIN_TGZ) as tf:
            tf.extractall(tmp)
        open(os.path.join(tmp, ".ok"), "w").close()
        os.makedirs(os.path.dirname(d), exist_ok=True)
        try:
            os.rename(tmp, d)
        except OSError:          # someone else was faster
            import shutil
            shutil.rmtree(tmp, ignore_errors=True)
    return d


# ------------------------------------------------------------------ 1. what changed
def changed_spans(files, repo):
    """{absolute filename: (hunk lines, lines of the enclosing functions)} for the changed .py files under pymarkdown/"""
    pin = pinned_root()
    out = {}
    for rel in files:
        if not (rel.startswith("pymarkdown/") and rel.endswith(".py")):
            continue
        try:
            cur = open(os.path.join(repo, rel), encoding="utf-8").read().split("\n")
        except OSError:
            continue
        try:
            old = open(os.path.join(pin, rel), encoding="utf-8").read().split("\n")
        except OSError:
            old = []
        hunk = set()
        for tag, i1, i2, j1, j2 in difflib.SequenceMatcher(None, old, cur, autojunk=False).get_opcodes():
            if tag in ("replace", "insert"):
                hunk |= set(range(j1 + 1, j2 + 1))
            elif tag == "delete":
                hunk |= {max(1, j1), min(len(cur), j1 + 1)}
        func = set(hunk)
        try:
            tree = ast.parse("\n".join(cur))
            defs = [n for n in ast.walk(tree) if isinstance(n, (ast.FunctionDef, ast.AsyncFunctionDef))]
            for l in hunk:
                inner = [n for n in defs if n.lineno <= l <= (n.end_lineno or n.lineno)]
                if inner:
                    n = min(inner, key=lambda n: (n.end_lineno or n.lineno) - n.lineno)
                    func |= set(range(n.lineno, (n.end_lineno or n.lineno) + 1))
        except SyntaxError:
            pass
        out[os.path.join(repo, rel)] = (hunk, func)
        out[os.path.realpath(os.path.join(repo, rel))] = (hunk, func)
    return out


# ------------------------------------------------------------------ behaviour of one tree on a batch of documents
class _Timeout(BaseException):
    pass


def _alarm(*_):
    raise _Timeout()


_SPANS, _HITS = {}, set()


def _line_event(code, line):
    s = _SPANS.get(code.co_filename)
    if s is None or line not in s[1]:
        return sys.monitoring.DISABLE
    _HITS.add((code.co_filename, line))


def _behave_chunk(task):
    """-> [(fingerprint, hit-lines or None)] for the chunk; parts ⊆ {parse, scan, fix}"""
    chunk, parts, spans = task
    import vlib, implib
    global _SPANS
    signal.signal(signal.SIGPROF, _alarm)
    trace = bool(spans)
    if trace:
        _SPANS = spans
        mon = sys.monitoring
        vlib.claim_tool(TOOL, "verif-neighbour")
        mon.register_callback(TOOL, mon.events.LINE, _line_event)
        mon.set_events(TOOL, mon.events.LINE)
    fps = [[] for _ in chunk]
    hits = [set() for _ in chunk]
    try:
        if "parse" in parts:
            from pymarkdown.transform_gfm.transform_to_gfm import TransformToGfm
            from pymarkdown.transform_markdown.transform_to_markdown import TransformToMarkdown
            tk = implib.parser()
            for i, d in enumerate(chunk):
                _HITS.clear()
                signal.setitimer(signal.ITIMER_PROF, DOC_CPU)
                try:
                    try:
                        toks = tk.transform(d, show_debug=False)
                        fps[i].append("T:" + "\n".join(str(t) for t in toks))
                        for cls in (TransformToGfm, TransformToMarkdown):
                            try:
                                fps[i].append(cls().transform(toks))
                            except _Timeout:
                                fps[i].append("HANG")
                            except Exception as e:
                                fps[i].append("E:" + type(e).__name__)
                    except _Timeout:
                        fps[i].append("HANG")
                    except Exception as e:
                        fps[i].append("E:" + type(e).__name__)
                except _Timeout:
                    fps[i].append("HANG")
                finally:
                    signal.setitimer(signal.ITIMER_PROF, 0)
                hits[i] |= _HITS
        if "scan" in parts or "fix" in parts:
            import enginelib as E
            with implib.workspace() as ws:
                if "scan" in parts:
                    ids, _ = E.builtin_meta()
                    for cname, args in (("default", []), ("all", ["-e", ",".join(ids)])):
                        _HITS.clear()
                        try:
                            res, fatal = E.scan_docs(ws, chunk, args, sub="nb")
                        except BaseException as e:
                            res, fatal = None, type(e).__name__
                        for i in range(len(chunk)):
                            fps[i].append(json.dumps(res[i]) if res else "FATAL:" + str(fatal)[:80])
                            hits[i] |= _HITS          # batch-level attribution: every document of the chunk
                if "fix" in parts:
                    d = os.path.join(ws, "fx")
                    os.makedirs(d, exist_ok=True)
                    for i, x in enumerate(chunk):
                        _HITS.clear()
                        p = os.path.join(d, "x.md")
                        implib.write(p, x)
                        signal.setitimer(signal.ITIMER_PROF, 4 * DOC_CPU)
                        try:
                            c, o, e = vlib.run_main(["fix", "x.md"], cwd=d)
                            fps[i].append(f"{c}|{implib.read_bytes(p)!r}")
                        except _Timeout:
                            fps[i].append("HANG")
                        except BaseException as e:
                            fps[i].append("E:" + type(e).__name__)
                        finally:
                            signal.setitimer(signal.ITIMER_PROF, 0)
                        hits[i] |= _HITS
    finally:
        if trace:
            sys.monitoring.set_events(TOOL, 0)
    return [(hashlib.sha1("\0".join(f).encode("utf-8", "surrogatepass")).hexdigest()[:16], sorted(h) if trace else None) for f, h in zip(fps, hits)]


def behave(texts, parts, spans=None, procs=16, chunk=40):
    tasks = [(texts[k:k + chunk], sorted(parts), spans) for k in range(0, len(texts), chunk)]
    if not tasks:
        return []
    with mp.get_context("fork").Pool(min(procs, len(tasks))) as pl:
        res = pl.map(_behave_chunk, tasks, chunksize=1)
    return [x for r in res for x in r]


def behave_pinned(texts, parts):
    return _sub("fp", {"texts": texts, "parts": sorted(parts)})


def _sub(cmd, payload, repo=None):
    """run `neighbour.py <cmd>` in a sub-process whose pymarkdown is the validated copy"""
    os.makedirs(os.path.join(ROOT, ".cache"), exist_ok=True)
    fi = tempfile.mktemp(prefix="nb-in-", dir=os.path.join(ROOT, ".cache"))
    fo = tempfile.mktemp(prefix="nb-out-", dir=os.path.join(ROOT, ".cache"))
    json.dump(payload, open(fi, "w"))
    env = dict(os.environ, VERIF_REPO=repo or pinned_root(), VERIF_NB_CHILD="1")
    env.pop("VERIF_COLLECT", None)
    try:
        p = subprocess.run([PY, os.path.abspath(__file__), cmd, fi, fo], env=env, capture_output=True, text=True, cwd=ROOT)
        if p.returncode != 0 or not os.path.exists(fo):
            raise RuntimeError(f"neighbour sub-process {cmd} failed: {p.stderr[-600:]}")
        return json.load(open(fo))
    finally:
        for f in (fi, fo):
            try:
                os.remove(f)
            except OSError:
                pass


# ------------------------------------------------------------------ 2./3. seeds and edits
ALPHA = list(" \t\n>-*+_#`~[]()!<&\\1.):\"'=|ax/?%;@{}^$,09Aé")
LINES = ["", "text", "# h", "```", "- x", "> q", "    code", "---", "[a]: /u", "1. y", "<div>", "  - z", "***", "> - w", "a  ", "===", "~~~", "+ v", "\tt",
         "<!-- c -->", "[a]: /u 't'", "|a|b|", "> ", "2) k", "- [ ] t", "<b>", "* * *", "##", "    ", "[a]"]
LINE_PREFIX = ["> ", "- ", "1. ", " ", "  ", "   ", "    ", "\t", ">", "> > ", "  - ", "* ", "+ ", "10) ", ">  ", "-\t", "# "]
TAILS = [" *e*", " <k>", " `c`", " [l](/u)", " ![i](/u)", " <http://a.b>", " &amp;", " \\*", "  ", " **s**", " [r]", " x", "\\", " ~~d~~", " a@b.c", " www.a.b"]
UNDER = ["---", "===", "-", "=", "  ---", "--- "]
WRAPS = [("> ", "> "), ("- ", "  "), ("1. ", "   "), ("> ", ""), ("   ", "   "), ("> - ", ">   "), ("- > ", "  > "), ("* ", "  ")]


def seed_pool(rng):
    import docs
    out = list(docs.repo_sources()) + docs.families() + list(docs.d1()) + docs.leaf_edges() + docs.link_edges()
    out += docs.sample(rng, docs.container_pairs(), 600) + docs.sample(rng, docs.nest_drop(), 1200) + docs.sample(rng, docs.multi_pairs(), 500)
    out += docs.sample(rng, list(docs.dn(2, docs.CORE_PREFIX, docs.CORE_BODY)), 1500) + docs.sample(rng, docs.corpus_marker_variants(), 600)
    out += docs.sample(rng, list(docs.inline_emph()), 400)
    return [d for d in dict.fromkeys(out) if len(d) <= 600]


def literal_atoms(spans):
    """short string literals of the changed files (marker characters, tag names, keywords the changed code compares with)"""
    atoms = collections.Counter()
    for fn in spans:
        try:
            tree = ast.parse(open(fn, encoding="utf-8").read())
        except (OSError, SyntaxError):
            continue
        funcs = spans[fn][1]
        for n in ast.walk(tree):
            if isinstance(n, ast.Constant) and isinstance(n.value, str) and 1 <= len(n.value) <= 12 and "\n" not in n.value.strip("\n"):
                if n.value.isidentifier() and len(n.value) > 6:
                    continue
                atoms[n.value] += 3 if getattr(n, "lineno", 0) in funcs else 1
    return [a for a, _ in atoms.most_common(80)]


def one_edit(doc, rng, atoms):
    lines = doc.split("\n")
    k = rng.random()
    pick = (lambda: rng.choice(atoms)) if atoms and rng.random() < 0.4 else (lambda: rng.choice(ALPHA))
    if k < 0.14 and doc:
        i = rng.randrange(len(doc))
        return doc[:i] + doc[i + 1:]
    if k < 0.36:
        i = rng.randrange(len(doc) + 1)
        return doc[:i] + pick() + doc[i:]
    if k < 0.44 and doc:
        i = rng.randrange(len(doc))
        return doc[:i] + pick() + doc[i + 1:]
    if k < 0.48 and doc:
        i = rng.randrange(len(doc))
        return doc[:i] + doc[i] + doc[i:]
    ls = list(lines)
    i = rng.randrange(len(ls))
    j = rng.random()
    if j < 0.12 and len(ls) > 1:
        del ls[i]
    elif j < 0.2:
        ls.insert(i, ls[i])
    elif j < 0.34:
        ls.insert(rng.randrange(len(ls) + 1), rng.choice(LINES))
    elif j < 0.5:
        ls[i] = rng.choice(LINE_PREFIX) + ls[i]
    elif j < 0.55 and len(ls) > 1:
        k2 = rng.randrange(len(ls))
        ls[i], ls[k2] = ls[k2], ls[i]
    elif j < 0.6:
        ls[i] = ls[i].lstrip(" >\t-")
    elif j < 0.74:                      # an inline tail, preferably after a closing delimiter
        cl = [n for n, l in enumerate(ls) if l and l.rstrip()[-1:] in ")]>`*_\"'"]
        n = rng.choice(cl) if cl and rng.random() < 0.7 else i
        ls[n] = ls[n] + rng.choice(TAILS)
    elif j < 0.84:                      # a setext underline / thematic break after a text line
        tl = [n for n, l in enumerate(ls) if l.strip() and not l.lstrip().startswith(("#", "```", "~~~", ">", "-", "*", "+"))]
        n = rng.choice(tl) if tl and rng.random() < 0.8 else i
        pre = ls[n][:len(ls[n]) - len(ls[n].lstrip(" >"))] if rng.random() < 0.5 else ""
        ls.insert(n + 1, pre + rng.choice(UNDER))
    elif j < 0.93:                      # wrap the whole document in a container
        f, c = rng.choice(WRAPS)
        ls = [(f if n == 0 else c) + l if (l or c.strip()) else l for n, l in enumerate(ls)]
    else:                               # split a line in two, indenting the continuation
        if ls[i]:
            c = rng.randrange(len(ls[i]) + 1)
            ls[i:i + 1] = [ls[i][:c], rng.choice(["", " ", "  ", "    "]) + ls[i][c:]]
    return "\n".join(ls)


def edits(doc, rng, n, atoms=()):
    out = set()
    tries = 0
    while len(out) < n and tries < 4 * n:
        tries += 1
        m = doc
        for _ in range(rng.choice((1, 1, 2, 2, 3))):
            m = one_edit(m, rng, atoms)
        if m != doc and len(m) <= 700:
            out.add(m)
    return out


def line_set(hits):
    return frozenset(tuple(x) for x in hits) if hits else frozenset()


def pick_seeds(docs_, traces, hunk, limit, seen_sets=None):
    """documents that execute changed code: one representative per distinct executed-line set (sets not seen in an earlier generation
    only, when `seen_sets` is given), sets touching the changed lines first, rarest sets first, short documents first"""
    groups = collections.defaultdict(list)
    for d, (_, hits) in zip(docs_, traces):
        hs = line_set(hits)
        if hs and (seen_sets is None or hs not in seen_sets):
            groups[(0 if hs & hunk else 1, hs)].append(d)
    order = sorted(groups.items(), key=lambda kv: (kv[0][0], len(kv[1])))
    for _, v in order:
        v.sort(key=len)
    picked, rnd = [], 0
    while len(picked) < limit and any(len(v) > rnd for _, v in order):
        for _, v in order:
            if len(v) > rnd and len(picked) < limit:
                picked.append(v[rnd])
        rnd += 1
    reach_hunk = sum(len(v) for (k, _), v in groups.items() if k == 0)
    reach_func = sum(len(v) for v in groups.values())
    return picked, reach_hunk, reach_func, {hs for (_, hs) in groups}


# ------------------------------------------------------------------ 5. the property modules' own document-level oracles
class _AllBase:
    absorbed = {}

    def __init__(self, *a):
        self.absorbed = {}

    def absorbs(self, *a):
        return True


def doc_oracle(prop, texts):
    """-> sorted list of [config, doc, signature]: every failure the module's document-level oracle sees on `texts`
    (failures that one of the module's footprint families absorbs are not collected — same sensitivity as the registered pools)."""
    import importlib, vlib
    mod = importlib.import_module(prop.lower())
    got = []

    class Cap(vlib.Ctx):
        def report(self, case, symptom, payload):
            doc = case.get("doc") if isinstance(case, dict) else None
            if doc is not None:
                cfg = "report:" + symptom + (":" + str(case.get("config") or case.get("rule") or "") if isinstance(case, dict) else "")
                got.append([cfg, doc, str(payload.get("signature") or case.get("signature") or payload.get("monitor") or symptom)])
            return False

        def violation(self, payload, no_input=False):
            return None

        def known_finding(self, f, what=None):
            return None

    ctx = Cap(prop, "quick", 0)
    old_collect, old_base = vlib.collect_failure, vlib.InputBaseline
    vlib.collect_failure = lambda p, config, doc, sig: got.append([config, doc, sig])
    vlib.InputBaseline = _AllBase
    out_save = sys.stdout
    sys.stdout = io.StringIO()
    try:
        texts = list(dict.fromkeys(texts))
        if prop == "C01":
            tot = mod.sweep({"nb": texts}, render_strata=("nb",))
            for t in tot.values():
                got += [[mod.CONFIG, d, s] for d, s in t["fails"]] + [[mod.CONFIG_RENDER, d, s] for d, s in t["render_fails"]]
                got += [["trace", d, "illegal-transition"] for d, a, s in t["trace_bad"]]
        elif prop == "C02":
            ctx._c02_base = _AllBase()
            mod.triage(ctx, "nb", mod.sweep(texts), {}, [])
        elif prop == "C03":
            mod.check_pool(ctx, "nb", texts, mod.Acc(), _AllBase())
        elif prop == "C04":
            mod.process_slice(ctx, [(k, "nb", t, ()) for k, t in enumerate(texts)], mod.Acc(), True, set(range(len(texts))))
        elif prop == "C05":
            mod.check_pool(ctx, "nb", texts, mod.Acc(), _AllBase(), pragma=False)
        elif prop == "C07":
            import enginelib as E
            ids, _ = E.builtin_meta()
            configs = [("default", []), ("all-enabled", ["-e", ",".join(ids)])]
            evals, nontrivial, fails, dist = mod.oracle_sweep(ctx, texts, configs)
            for (cname, args, t, sym, det) in fails:
                f = mod.footprint(ctx, t, sym, det or "")
                got.append([cname, t, sym + ":" + ((f.get("signature") or f["id"]) if f else str(det)[:120])])
        elif prop in ("C08", "C09"):
            r = mod.sweep(ctx, texts, [("default", [])])
            fails = r[3] if prop == "C08" else r[2]
            for f in fails:
                got.append([f[0], f[1], f[3] if prop == "C08" else f[2]])
        elif prop == "C06":
            mod.neighbour_oracle(ctx, texts, got)
        else:
            raise SystemExit("no document oracle for " + prop)
    finally:
        sys.stdout = out_save
        vlib.collect_failure, vlib.InputBaseline = old_collect, old_base
    return sorted({(a, b, c) for a, b, c in got})


# ------------------------------------------------------------------ the search
def search(ctx, prop, files, budget_docs=None, generations=4):
    """-> dict (statistics for the evidence); reports violations through ctx.violation"""
    import vlib
    t0 = time.time()
    st = {"changed_files": files}
    if prop not in SUPPORTED or not any(f.startswith("pymarkdown/") and f.endswith(".py") for f in files):
        st["skipped"] = "no document-level oracle for this property / no python source changed"
        return st
    rng = random.Random(ctx.seed * 7919 + 17)
    spans = changed_spans(files, vlib.REPO)
    hunk = {(f, l) for f, (h, _) in spans.items() for l in h}
    st["changed_lines"] = {os.path.relpath(f, vlib.REPO): sorted(h)[:40] for f, (h, _) in spans.items() if f.startswith(vlib.REPO)}
    atoms = literal_atoms({f: v for f, v in spans.items() if f.startswith(vlib.REPO)})
    parts = {"parse"} if prop in PARSE_PROPS else {"parse", "scan"} if prop in RULE_PROPS else {"parse", "scan", "fix"}
    cheap = parts == {"parse"}
    if budget_docs is None:
        budget_docs = 30000 if cheap else 7000          # candidates per generation
    chunk = 60 if cheap else 25
    seeds = seed_pool(rng)
    if not cheap:
        seeds = sorted(seeds, key=lambda d: hashlib.sha1(d.encode("utf-8", "surrogatepass")).hexdigest())[:5000]
    traces = behave(seeds, parts, spans, chunk=chunk)
    frontier, reach_hunk, reach_func, seen_sets = pick_seeds(seeds, traces, hunk, 200)
    st.update(seeds=len(seeds), seeds_reaching_changed_lines=reach_hunk, seeds_reaching_changed_functions=reach_func,
              distinct_line_sets=len(seen_sets), literal_atoms=atoms[:30])
    if not frontier:
        frontier = rng.sample(seeds, min(200, len(seeds)))
        st["fallback"] = "no seed executes the changed functions: edits of random seeds"
    seen = set(seeds)
    div, gens = [], []
    for g in range(generations):
        per = max(10, budget_docs // max(1, len(frontier)))
        cand = [d for d in frontier if g == 0]
        for d in frontier:
            cand += [m for m in edits(d, rng, per, atoms) if m not in seen]
        cand = list(dict.fromkeys(cand))[:budget_docs]
        seen |= set(cand)
        if not cand:
            break
        cur = behave(cand, parts, spans, chunk=chunk)
        pin = behave_pinned(cand, parts)
        dv = [t for t, (a, _), b in zip(cand, cur, pin) if a != b[0]]
        div += dv
        novel, _, _, new_sets = pick_seeds(cand, cur, hunk, 140, seen_sets)
        seen_sets |= new_sets
        gens.append({"candidates": len(cand), "divergent": len(dv), "new_line_sets": len(new_sets)})
        frontier = list(dict.fromkeys(sorted(dv, key=len)[:60] + novel))
        if not frontier:
            frontier = sorted(rng.sample(cand, min(100, len(cand))), key=len)
        if len(div) >= 3000 or time.time() - t0 > 900:
            break
    st["generations"] = gens
    div = sorted(dict.fromkeys(div), key=len)[:3000]
    st["divergent_documents"] = len(div)
    new = []
    if div:
        cur = {tuple(x) for x in doc_oracle(prop, div)}
        pin = {tuple(x) for x in _sub("oracle", {"prop": prop, "texts": div})}
        new = sorted(cur - pin, key=lambda x: (len(x[1]), x))
        st.update(failing_on_current=len(cur), failing_on_validated_sources=len(pin), preexisting_outside_closed_space=len(cur & pin))
        if new:                                   # confirm once more, on both trees, on exactly these documents
            docs2 = list(dict.fromkeys(x[1] for x in new[:60]))
            cur2 = {tuple(x) for x in doc_oracle(prop, docs2)}
            pin2 = {tuple(x) for x in _sub("oracle", {"prop": prop, "texts": docs2})}
            new = [x for x in new if x in cur2 and x not in pin2]
    st["new_failures"] = len(new)
    st["samples"] = [{"config": c, "doc": d, "signature": s} for c, d, s in new[:5]]
    seen_sig = set()
    for c, d, s in new:
        if (c, s) in seen_sig or len(ctx.violations) >= 5:
            continue
        seen_sig.add((c, s))
        ctx.violation({"neighbourhood": True, "config": c, "doc": d, "signature": s, "input": {"doc": d, "config": c},
                       "symptom": s, "changed_files": files,
                       "oracle": f"{prop}'s document-level oracle (tools/props/{prop.lower()}.py) fails on this document on the current tree and does not "
                                 "fail this way on the validated sources (corpus/pinned_src.tgz); found by the changed-code neighbourhood search"})
    st["wall_s"] = round(time.time() - t0, 1)
    return st


def replay(ctx, payload):
    got = doc_oracle(ctx.prop, [payload["doc"]])
    hit = [x for x in got if x[0] == payload["config"] and x[2] == payload["signature"]]
    if hit:
        ctx.violation(dict(payload, replayed=True))
        return 1
    print(f"replay: {ctx.prop}'s oracle no longer fails on this document with signature {payload['signature']!r} (now: {[x[2] for x in got]})")
    return 0


if __name__ == "__main__":
    cmd = sys.argv[1]
    if cmd == "--rebuild-pin":
        print("pinned", rebuild_pin(), "files ->", PIN_TGZ)
    elif cmd == "fp":
        p = json.load(open(sys.argv[2]))
        json.dump(behave(p["texts"], set(p["parts"]), None), open(sys.argv[3], "w"))
    elif cmd == "oracle":
        p = json.load(open(sys.argv[2]))
        json.dump(doc_oracle(p["prop"], p["texts"]), open(sys.argv[3], "w"))
