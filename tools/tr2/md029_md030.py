"""MD029 + MD030 in ONE pass (both fix level 1, both enabled by default): both may request `indent_level` of the same list-item token
→ `BadPluginFixError` ("Multiple plugins (MD030 and MD029) have requested a fix for the same field of the same token")."""
import itertools


def _docs():
    out = []
    for a, b, c in itertools.product(["1.", "2.", "9.", "10.", "0."], ["1.", "2.", "3.", "10.", "11."], [" ", "  ", "   "]):
        for d in (" ", "  "):
            out.append("%s%sx\n%s%sy\n" % (a, d, b, c))
            out.append("%s%sx\n%s%sy\n\n   z\n" % (a, d, b, c))
            out.append("- o\n  %s%sx\n  %s%sy\n" % (a, d, b, c))
    return out


SPEC = dict(
    cfgs=[{}, {"md029": {"style": "ordered"}, "md030": {"ol_single": 2}}, {"md029": {"style": "one"}, "md030": {"ol_multi": 2}},
          {"md029": {"style": "zero"}}],
    docs=_docs,
    quick_docs=120,
    wf_may_fail=True,
)
