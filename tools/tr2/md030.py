"""MD030 list-marker-space (scan AND fix): configurations, synthetic alphabet, rule-targeted document family
(see tools/tokenrules2lib.py); plus the document-level transfer measurement of the fix (`transfer_report`, run stand-alone:
`/venv/bin/python tools/tr2/md030.py [--thorough]`).
"""
import itertools, os, sys

CFGS = [{}, {"ul_single": 2, "ol_single": 2}, {"ul_multi": 3, "ol_multi": 2},
        {"ul_single": 1, "ul_multi": 2, "ol_single": 1, "ol_multi": 3},
        {"ul_single": 3, "ul_multi": 3, "ol_single": 3, "ol_multi": 3},
        {"ul_single": 2, "ul_multi": 1, "ol_single": 3, "ol_multi": 2}]


# ------------------------------------------------------------------ the document family
# an item body: text of the marker line + the following lines; `{I}` = the indentation of the item's content column
BODIES = [
    "a",                                    # single line
    "a\n{I}b",                              # continuation line
    "a\nb",                                 # lazy continuation line
    "a\n{I}b\nc",                           # continuation + lazy
    "a\n\n{I}b",                            # two paragraphs
    "a\n{I}b\n\n{I}c\n{I}d\n\n{I}e",        # three paragraphs with continuation lines
    "a `c\n{I}d` e",                        # code span with a newline
    "a ``\n{I}c\n{I}`` e",                  # code span with newlines in its leading and trailing whitespace
    "a [l\n{I}m](/u) e",                    # link label with a newline
    "a ![i\n{I}m](/u) e",                   # image with a newline
    "a <b\n{I}c> d",                        # raw html with a newline
    "a\n{I}> q\n{I}> r",                    # block quote inside the item
    "a\n\n{I}> q\n{I}> r\n\n{I}b",          # paragraph, block quote, paragraph
    "a\n{I}# h\n{I}b",                      # a heading line inside the item
    "a\n\n{I}```\n{I}x\n{I}```\n\n{I}b",    # fenced code inside the item
    "a\\\n{I}b  \n{I}c",                    # hard breaks
    "a\n\n\n{I}b",                          # two blank lines
]
INNER_BODIES = ["a", "a\n{I}b", "a\nb", "a\n\n{I}b", "a `c\n{I}d` e", "a\n{I}> q\n{I}> r"]
MARKERS = ["-", "1.", "10."]


def _item(prefix, marker, spaces, body):
    """One list item at indentation `prefix`; returns (text, content indentation)."""
    ind = prefix + " " * (len(marker) + spaces)
    return prefix + marker + " " * spaces + body.replace("{I}", ind), ind


def _next(marker):
    return marker if marker == "-" else str(int(marker[:-1]) + 1) + "."


def _docs():
    out = []
    # flat lists: marker × 1–4 spaces × body, alone / followed by a second item (same or different spacing) / by a paragraph
    for m, sp, b in itertools.product(MARKERS, (1, 2, 3, 4), BODIES):
        first, _ = _item("", m, sp, b)
        out.append(first + "\n")
        for sp2 in (sp, 1 if sp != 1 else 2):
            second, _ = _item("", _next(m), sp2, "z\n{I}y")
            out.append(first + "\n" + second + "\n")
        out.append(first + "\n\npara\n")
    # nesting: outer item, inner list inside it, then (nothing | outer continuation paragraph | next outer item)
    for om, osp, im, isp, ib, tail in itertools.product(MARKERS, (1, 3), MARKERS, (1, 2, 3), INNER_BODIES, (0, 1, 2, 3)):
        outer, oind = _item("", om, osp, "o")
        inner, _ = _item(oind, im, isp, ib)
        inner2, _ = _item(oind, _next(im), isp, "k")
        doc = outer + "\n" + inner + "\n"
        if tail == 1:
            doc += "\n" + oind + "p\n" + oind + "q\n"
        elif tail == 2:
            doc += _item("", _next(om), osp, "w\n{I}v")[0] + "\n"
        elif tail == 3:
            doc += inner2 + "\n" + _item("", _next(om), osp, "w\n\n{I}v")[0] + "\n"
        out.append(doc)
    # three levels
    for m1, m2, m3, sp, b in itertools.product(MARKERS[:2], MARKERS[:2], MARKERS[:2], (1, 2, 3), INNER_BODIES[:5]):
        l1, i1 = _item("", m1, sp, "o")
        l2, i2 = _item(i1, m2, sp, "m\n{I}n")
        l3, _ = _item(i2, m3, sp, b)
        out.append(l1 + "\n" + l2 + "\n" + l3 + "\n")
        out.append(l1 + "\n" + l2 + "\n" + l3 + "\n" + _item(i1, _next(m2), sp, "s")[0] + "\n" + _item("", _next(m1), sp, "t\n{I}u")[0] + "\n")
    # lists inside a block quote, a list right after a paragraph, the examples of the rule page and the known MD029 interaction
    for m, sp in itertools.product(MARKERS, (1, 2, 3)):
        a, ind = _item("", m, sp, "a\n{I}b")
        out.append("> " + a.replace("\n", "\n> ") + "\n> " + _item("", _next(m), sp, "c")[0] + "\n")
        out.append("para\n\n" + a + "\n\n" + ind + "c\n")
    out += ["1.  first item\n", "+  first item\n", "1. first item\n", "+ first item\n",
            "+ first item\n+ second item\n  +  inner item\n\n     inner item\n", "10. x\n", "1.  x\n"]
    seen, res = set(), []
    for d in out:
        if d not in seen:
            seen.add(d)
            res.append(d)
    return res


# ------------------------------------------------------------------ the synthetic alphabet
_UL = dict(kind="ulist", seq="-", col=1)
_OL = dict(kind="olist", seq=".", col=1)
ALPHABET = [
    dict(_UL, indent=2),                                         # `- a`
    dict(_UL, indent=4, leading="    \n\n  "),                   # `-   a`, three continuation lines
    dict(_UL, indent=3, col=3, leading="x"),                     # one short line (`[:-adj]` past its start)
    dict(_OL, content="1", indent=3, leading=""),
    dict(_OL, content="10", indent=6, col=2, leading="      \n      \n\n"),
    dict(kind="li", content="", indent=3, col=1),
    dict(kind="li", content="2", indent=3, col=1),
    dict(kind="para", col=3), dict(kind="end-para", startIdx="auto"), dict(kind="BLANK", col=1),
    dict(kind="text", text="a\nb", col=3), dict(kind="icode-span", text="c\nd", startTicks="`", leadWs="\n", trailWs="\n\n", col=3),
    dict(kind="block-quote", col=1, leading="> "),
    dict(kind="end-ulist", startIdx="auto"), dict(kind="end-olist", startIdx="auto"),
    dict(kind="end-ulist", startIdx=0), dict(kind="end-olist", startIdx=None),
    dict(kind="end-of-stream"),
]
_STARTS = {"ulist", "olist", "para", "block-quote"}      # `EndMarkdownToken` asserts that its start token requires an end token
_LISTY = {"ulist", "olist", "li", "end-ulist", "end-olist"}


def _filter(l):
    """Streams without any list token say nothing about the rule (the shared pools have plenty)."""
    return not l or any(d["kind"] in _LISTY for d in l)


def _fixup(l):
    """Distinct line numbers (`__paragraph_count_map` is keyed by `str(token)`); `startIdx="auto"`: a list end names the start token of
    the innermost open list (`None` when no list is open), a paragraph end the nearest earlier paragraph."""
    out, stack = [], []
    for k, d in enumerate(l):
        d = dict(d)
        if d["kind"] != "end-of-stream" and not d["kind"].startswith("end-"):
            d["line"] = k + 1
        elif d["kind"] == "end-of-stream":
            d["line"] = k + 1
        if d["kind"] in ("ulist", "olist"):
            stack.append(k)
        elif d["kind"] in ("end-ulist", "end-olist"):
            top = stack.pop() if stack else None
            if d.get("startIdx") == "auto":
                d["startIdx"] = top
            elif d.get("startIdx") is not None and (d["startIdx"] >= k or out[d["startIdx"]]["kind"] not in _STARTS):
                d["startIdx"] = None
        elif d["kind"] == "end-para" and d.get("startIdx") == "auto":
            d["startIdx"] = next((j for j in range(k - 1, -1, -1) if out[j]["kind"] == "para"), None)
        out.append(d)
    return out


def _extra():
    """Longer synthetic streams: one or two (nested) lists with items, paragraphs, blank lines and multi-line inlines, every list start
    variant, closed by the right / a wrong end token."""
    P, T, E, B = ALPHABET[7], ALPHABET[10], ALPHABET[8], ALPHABET[9]
    CS = ALPHABET[11]
    starts = ALPHABET[:5]
    items = ALPHABET[5:7]
    eu, eo, wrong = ALPHABET[13], ALPHABET[14], ALPHABET[15]
    out = []
    for s in starts:
        end = eu if s["kind"] == "ulist" else eo
        for it in items:
            for mid in ([P, T, E], [P, T, E, B, P, T, E], [P, CS, E, B, B, P, T, E], [B], []):
                out.append([s] + mid + [it] + mid + [end])
                out.append([s] + mid + [it, P, T, E, it] + mid + [end, ALPHABET[17]])
                out.append([s] + mid + [wrong])
        for s2 in starts:
            end2 = eu if s2["kind"] == "ulist" else eo
            for mid in ([P, T, E], [P, T, E, B, P, T, E]):
                out.append([s] + mid + [s2] + mid + [items[0]] + mid + [end2] + mid + [items[1], P, T, E, end])
                out.append([s] + mid + [s2] + mid + [end2, B, P, T, E, end])
                out.append([s, s2] + mid + [dict(end2, startIdx=0), end])
    return [_fixup(l) for l in out]


SPEC = dict(
    cfgs=CFGS,
    alphabet=ALPHABET,
    maxlen=4,
    synth_filter=_filter,
    synth_fixup=_fixup,
    synth_extra=_extra(),
    docs=_docs,
    quick_docs=260,
    quick_synth=1200,
    cover=("plugins/utils/list_tracker.py",),
)


# ------------------------------------------------------------------ document-level transfer of the token-level fix (report only)
def _html(toks):
    from pymarkdown.transform_gfm.transform_to_gfm import TransformToGfm
    return TransformToGfm().transform(toks)


def _transfer_chunk(args):
    """Per (document, configuration) whose token-level fix SUCCEEDED and changed something: regenerate Markdown from the fixed REAL
    tokens with the real `TransformToMarkdown`, parse again, scan again with the real MD030; repeat the fix up to 4 passes."""
    import tokenrules2lib as L
    from pymarkdown.transform_markdown.transform_to_markdown import TransformToMarkdown
    out = []
    for src, cfg in args:
        try:
            toks = L.parse(src)
            ans, fixed = L.real_answer2("md030", cfg, toks, want_fixed=True)
        except Exception as e:          # noqa: BLE001
            out.append((src, cfg, "skip " + type(e).__name__, None))
            continue
        parts = ans.split("|")
        if parts[1].startswith("err"):
            out.append((src, cfg, "fix-raises " + parts[1][4:], None))
            continue
        if fixed is None:
            out.append((src, cfg, "nothing-to-fix", None))
            continue
        rec = dict(passes=1, text=[])
        try:
            html0 = _html(toks)
            cur_src, cur_fixed, verdict = src, fixed, None
            for n in range(1, 5):
                text = TransformToMarkdown().transform(cur_fixed)
                rec["text"].append(text)
                toks3 = L.parse(text)
                if n == 1:
                    rec["html_changed"] = _html(toks3) != html0
                ans3, fixed3 = L.real_answer2("md030", cfg, toks3, want_fixed=True)
                p3 = ans3.split("|")
                if p3[0] == "ok ":
                    verdict = "converged-%d" % n
                    break
                if p3[1].startswith("err"):
                    verdict = "pass-%d-raises %s" % (n + 1, p3[1][4:])
                    break
                if fixed3 is None or text == cur_src:
                    verdict = "stuck-%d" % n
                    break
                cur_src, cur_fixed = text, fixed3
            rec["verdict"] = verdict or "not-converged-4"
        except Exception as e:          # noqa: BLE001
            rec["verdict"] = "regen/parse " + type(e).__name__
        out.append((src, cfg, rec["verdict"], rec))
    return out


def transfer_report(quick=True, rng=None):
    """Counts over the document family × configurations; `failing_inputs` = the smallest documents per verdict other than
    `converged-1` with unchanged HTML."""
    import multiprocessing as mp, random, collections
    rng = rng or random.Random(1)
    docs = _docs()
    if quick:
        docs = rng.sample(docs, 300)
    work = [(d, c) for d in docs for c in CFGS]
    chunks = [work[i::32] for i in range(32)]
    with mp.Pool(8) as pool:
        parts = pool.map(_transfer_chunk, chunks)
    res = [x for p in parts for x in p]
    verdicts = collections.Counter(v.split(" ")[0] if v.startswith("skip") else v for _, _, v, _ in res)
    html = collections.Counter()
    bad = {}
    for src, cfg, v, rec in res:
        if rec is None:
            continue
        key = v
        if rec.get("html_changed"):
            html[v] += 1
            key = v + " +html-changed"
        if key != "converged-1":
            bad.setdefault(key, []).append((src, cfg, rec["text"][0] if rec["text"] else None))
    failing = []
    for key, lst in sorted(bad.items()):
        lst.sort(key=lambda x: (len(x[0]), x[0]))
        seen = set()
        for src, cfg, text in lst:
            if src in seen:
                continue
            seen.add(src)
            failing.append(dict(verdict=key, document=src, cfg=cfg, after_first_fix=text))
            if len(seen) >= 4:
                break
    return dict(documents=len(docs), pairs=len(work), verdicts=dict(verdicts), html_changed=dict(html),
                distinct_bad_documents={k: len({s for s, _, _ in v}) for k, v in bad.items()}, failing_inputs=failing)


def dup_str_report():
    """Two distinct list tokens of one parsed stream that print alike (`__paragraph_count_map` is keyed by `str(token)`)?"""
    import tokenrules2lib as L, docs as D
    n = dup = 0
    for src in _docs() + D.families() + D.repo_sources():
        try:
            toks = L.parse(src)
        except Exception:               # noqa: BLE001
            continue
        names = [str(t) for t in toks if t.is_list_start or t.is_new_list_item]
        n += 1
        if len(names) != len(set(names)):
            dup += 1
    return dict(streams=n, streams_with_two_list_tokens_printing_alike=dup)


if __name__ == "__main__":
    import json
    sys.path.insert(0, os.path.dirname(os.path.dirname(os.path.abspath(__file__))))
    import vlib  # noqa: F401 — puts the repository on sys.path
    rep = transfer_report(quick="--thorough" not in sys.argv)
    fail = rep.pop("failing_inputs")
    print(json.dumps(rep))
    for f in fail:
        print("FAILING", json.dumps(f)[:700])
    if "--dups" in sys.argv:
        print(json.dumps(dup_str_report()))
