"""Print the abstraction (`Tok2`) of a document's real token stream as a Lean list literal (only the non-default fields).
Usage: /venv/bin/python tools/tr2/leanlit.py 'doc text with \\n escapes' [name]"""
import os, sys
sys.path.insert(0, os.path.join(os.path.dirname(os.path.abspath(__file__)), ".."))
import tokenrules2lib as L

KIND = {"atx": "atx", "end-atx": "atxEnd", "setext": "setext", "end-setext": "setextEnd", "front-matter": "frontMatter", "para": "para",
        "end-para": "paraEnd", "text": "text", "BLANK": "blank", "tbreak": "tbreak", "fcode-block": "fence", "end-fcode-block": "fenceEnd",
        "icode-block": "icode", "end-icode-block": "icodeEnd", "html-block": "html", "end-html-block": "htmlEnd", "link-ref-def": "lrd",
        "ulist": "ulist", "end-ulist": "ulistEnd", "olist": "olist", "end-olist": "olistEnd", "li": "li", "block-quote": "bquote",
        "end-block-quote": "bquoteEnd", "icode-span": "codeSpan", "raw-html": "rawHtml", "link": "link", "end-link": "linkEnd",
        "image": "image", "emphasis": "emphasis", "end-emphasis": "emphasisEnd", "hard-break": "hardBreak", "autolink": "autolink",
        "end-of-stream": "eos", "pragma": "pragma"}
STR = {"seq", "content", "ws", "startChar", "rest", "fenceChar", "text", "labelType", "activeUri", "startTicks", "leadWs", "trailWs",
       "linkName", "destWs", "dest", "titleWs", "titleRaw"}
OPT = {"leading", "endData", "endWs", "linkTitle", "preLinkTitle", "beforeLinkWs", "beforeTitleWs", "boundChar"}
INT = {"line", "col", "hashCount", "trailing", "indent"}


def ch(c):
    if c == "'":
        return "'\\''"
    if c == "\\":
        return "'\\\\'"
    if c == "\n":
        return "'\\n'"
    if c == "\t":
        return "'\\t'"
    if 32 <= ord(c) < 127:
        return "'%s'" % c
    return "'\\x%02x'" % ord(c) if ord(c) < 256 else "'\\u{%x}'" % ord(c)


def s(x):
    return "[" + ", ".join(ch(c) for c in x) + "]"


def tok(d):
    parts = ["kind := ." + KIND[d["kind"]]]
    for k, v in d.items():
        if k == "kind" or v == L.DEFAULT2[k]:
            continue
        if k in STR:
            parts.append("%s := %s" % (k, s(v)))
        elif k in OPT:
            parts.append("%s := some %s" % (k, s(v)))
        elif k in INT:
            parts.append("%s := %d" % (k, v))
        elif k == "startIdx":
            parts.append("startIdx := some %d" % v)
        elif k == "keys":
            parts.append("keys := [" + ", ".join(s(x) for x in v) + "]")
        elif k == "pragmaLines":
            parts.append("pragmaLines := [" + ", ".join(str(x) for x in v) + "]")
    return "{ " + ", ".join(parts) + " }"


def lit(src, name="d"):
    toks = L.parse(src)
    ab = L.abstract_all(toks)
    return "def %s : List Tok2 := [\n  %s]" % (name, ",\n  ".join(tok(d) for d in ab))


if __name__ == "__main__":
    src = sys.argv[1].encode().decode("unicode_escape")
    print(lit(src, sys.argv[2] if len(sys.argv) > 2 else "d"))
