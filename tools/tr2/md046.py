"""MD046 code-block-style: configurations, synthetic alphabet, rule-targeted document family (see tools/tokenrules2lib.py)."""
import itertools


def _docs():
    """Mixed fenced / indented code blocks: every sequence of ≤ 3 blocks over {fenced 0/1/3 lines (backtick, tilde), indented 1/2 lines},
    with and without a paragraph directly in front of a fenced block, inside a block quote / a list item, and a pragma line behind / in front / on both sides."""
    blocks = ["```\n```\n", "```\na\n```\n", "~~~\na\nb\n\nc\n~~~\n", "    x\n", "    x\n    y\n", "```text\na\n```\n"]
    out = []
    for n in (1, 2, 3):
        for seq in itertools.product(range(len(blocks)), repeat=n):
            parts = [blocks[i] for i in seq]
            out.append("\n".join(parts))
            out.append("para\n" + "\npara\n".join(parts))
    for a, b in itertools.product(range(len(blocks)), repeat=2):
        A, B = blocks[a], blocks[b]
        out.append("> " + A.replace("\n", "\n> ")[:-2] + "\n" + B)
        out.append("- item\n\n  " + A.replace("\n", "\n  ")[:-2] + "\n" + B)
        out.append(A + "\n" + B + "\n<!-- pyml disable-next-line no-trailing-spaces-->\ntext  \n")
        out.append(A + "\n" + B + "\ntail *emph*\n\n# head\n")
        # a pragma line IN FRONT of the blocks (its key is below every block's start line: `__apply_replacement_fix` moves it all the same),
        # and pragmas on both sides
        out.append("<!-- pyml disable-next-line md013-->\nline\n\n" + A + "\n" + B)
        out.append("<!-- pyml disable-next-line md013-->\nline\n\n" + A + "\n" + B + "\n<!-- pyml disable-next-line md009-->\ntext  \n")
    out += ["```\na\n", "    x\n\n```\nopen\n", "```\na\n```\n\n    x\n\n```\nb\n```\n\n    y\n"]
    return out


_F = dict(kind="fcode-block", fenceChar="`", line=1, col=1)
_I = dict(kind="icode-block", ws="    ", leading="", line=1, col=5)
_T = dict(kind="text", text="a\nb", line=2, col=1)


_STARTS = ("fcode-block", "icode-block", "para")


def _fixup(l):
    """End tokens name the nearest earlier code block start of their kind (`auto`) or the token at a literal index when that is an
    earlier start token; `startIdx` None otherwise."""
    out = []
    for k, d in enumerate(l):
        d = dict(d)
        if d["kind"] in ("end-fcode-block", "end-icode-block", "end-para") and d.get("startIdx") == "auto":
            want = d["kind"][4:]
            d["startIdx"] = next((j for j in range(k - 1, -1, -1) if out[j]["kind"] == want), None)
        elif d["kind"].startswith("end-") and isinstance(d.get("startIdx"), int):
            # a literal index must name an EARLIER token that takes an end token (Python: a reference to a token object of the
            # stream); anything else is not a stream a real `EndMarkdownToken` can express -> the reference points outside (None)
            j = d["startIdx"]
            if not (j < k and out[j]["kind"] in _STARTS):
                d["startIdx"] = None
        out.append(d)
    return out


SPEC = dict(
    cfgs=[{}, {"style": "fenced"}, {"style": "indented"}],
    alphabet=[_F, _I, _T, dict(kind="text", text="x", line=2, col=1),
              dict(kind="end-fcode-block", endData=":3", startIdx="auto"), dict(kind="end-icode-block", startIdx="auto"),
              dict(kind="end-icode-block", startIdx=0), dict(kind="para", line=1, col=1), dict(kind="end-para", startIdx="auto"),
              dict(kind="BLANK", line=3, col=1), dict(kind="end-of-stream", line=9)],
    maxlen=4,
    synth_fixup=_fixup,
    docs=_docs,
    quick_docs=200,
    quick_synth=900,
)
