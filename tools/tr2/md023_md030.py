"""MD023 + MD030 in ONE pass (both fix level 1, both enabled by default): both may request `leading_spaces` of the same list start
token (MD023: a TAB-indented heading inside the list; MD030: wrong marker spacing) → `BadPluginFixError`."""
import itertools


def _docs():
    out = []
    for m, sp, ind, h in itertools.product(["-", "*", "1.", "10."], [" ", "  ", "   "], ["", " ", "\t", " \t", "  "],
                                           ["# b", "b\n{P}{I}===", "# b #"]):
        pad = " " * (len(m) + len(sp))
        body = h.replace("{P}", pad).replace("{I}", ind)
        out.append("%s%sa\n\n%s%s%s\n" % (m, sp, pad, ind, body))
        out.append("%s%sa\n%s%s%s\n%s%sc\n" % (m, sp, pad, ind, body, m, sp))
        out.append("> %s%sa\n>\n> %s%s%s\n" % (m, sp, pad, ind, body.replace("\n", "\n> ")))
    return out


SPEC = dict(
    cfgs=[{}, {"md030": {"ul_single": 2, "ol_single": 2}}, {"md030": {"ul_multi": 3}}],
    docs=_docs,
    quick_docs=150,
    wf_may_fail=True,
)
