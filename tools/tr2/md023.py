"""MD023 heading-start-left: configurations, synthetic alphabet, rule-targeted document family (see tools/tokenrules2lib.py).

Document family: indented headings (0-3 spaces, TAB, space+TAB) x ATX / closed ATX / SetExt with 1-3 text lines (each with its own
indentation) and an indented underline x containers (none, block quote, bullet / ordered list, list in quote, quote in list, nested list,
second item, after a paragraph / link reference definition / fenced block / HTML block / indented code block inside the container, two
headings in one list).  In list contexts a line that starts with a TAB is also produced WITHOUT the container's continuation prefix
(the TAB supplies the indentation: this is the shape whose fix rewrites a line of the list's `leading_spaces`).
"""
import itertools

IND = ["", " ", "  ", "   ", "\t", " \t"]
LATER = ["", " ", "   ", "\t"]
UNDER = ["", " ", "\t", "   "]


def headings(full=True):
    """Lists of lines."""
    out = []
    for i in IND:
        out.append([i + "# x"])
        out.append([i + "# x #"])
    for i in IND:
        for u in UNDER:
            out.append([i + "t1", u + "==="])
    later2 = LATER if full else ["", " ", "\t"]
    for i in (IND if full else ["", " ", "\t"]):
        for l2 in later2:
            for u in (UNDER if full else ["", "\t"]):
                out.append([i + "t1", l2 + "t2", u + "---"])
    for i in ["", " ", "\t"]:
        for l2 in (LATER if full else ["", "\t"]):
            for l3 in (LATER if full else ["", " ", "\t"]):
                for u in (["", " ", "\t"] if full else ["", "\t"]):
                    out.append([i + "t1", l2 + "t2", l3 + "t3", u + "==="])
    # inline structure inside the heading text: emphasis, hard breaks, a replaced TAB in the text
    out += [["a *b*", " c", " d *e*", " f", "==="], ["a  ", " b", "==="], ["a\\", " b", "---"], ["*a*  ", "  b", "==="],
            ["a", "b ", "c", "==="], ["a", "\tb\tc", "==="], ["a", " \tb", " ==="], ["a &amp; b", " c", "---"]]
    return out


def _pref(first, rest, lines, raw_tab=False):
    out = []
    for k, l in enumerate(lines):
        p = first if k == 0 else rest
        if raw_tab and l.startswith("\t") and k > 0:
            p = p.rstrip(" ") if p.strip() else ""
        out.append(p + l)
    return out


def contexts(h, small=False):
    """The documents that put heading `h` (a list of lines) into each container context."""
    J = "\n".join
    out = []
    out.append(J(h) + "\n")
    out.append("p\n\n" + J(h) + "\n")
    out.append(J(_pref("> ", "> ", h)) + "\n")
    out.append("> p\n>\n" + J(_pref("> ", "> ", h)) + "\n")
    out.append(J(_pref(">", ">", h)) + "\n")
    for raw in (False, True):
        if raw and not any(l.startswith("\t") for l in h):
            continue
        R = dict(raw_tab=raw)
        out.append(J(_pref("- ", "  ", h, **R)) + "\n")
        out.append("- a\n\n" + J(_pref("  ", "  ", ["\x00"] + h, **R)[1:]) + "\n")
        out.append("1. " + J(_pref("", "   ", h, **R)) + "\n")
        out.append("1. a\n\n" + J(_pref("   ", "   ", ["\x00"] + h, **R)[1:]) + "\n")
        out.append("- a\n- " + J(_pref("", "  ", h, **R)) + "\n")
        out.append("- a\n- b\n\n" + J(_pref("  ", "  ", ["\x00"] + h, **R)[1:]) + "\n- c\n")
        out.append("> - a\n>\n" + J(_pref(">   ", ">   ", ["\x00"] + h, **R)[1:]) + "\n")
        out.append("- > " + J(_pref("", "  > ", h, **R)) + "\n")
        out.append("- a\n  - b\n\n" + J(_pref("    ", "    ", ["\x00"] + h, **R)[1:]) + "\n")
        if small:
            continue
        body = J(_pref("  ", "  ", ["\x00"] + h, **R)[1:]) + "\n"
        out.append("- [a]: /u\n\n" + body)
        out.append("- [a]:\n  /u\n  'ti\n  tle'\n\n" + body)
        out.append("- ```\n  c\n  d\n  ```\n\n" + body)
        out.append("- <div>\n  x\n  </div>\n\n" + body)
        out.append("- a\n\n      code\n      more\n\n" + body)
        out.append("- a\n  b\n  c\n\n" + body)
        out.append("- a\n\n" + body + "\n\t# z\n\n  tail\n")
        out.append("- a\n\n" + body + "- n\n\n" + body)
    if not small:
        bq = J(_pref("> ", "> ", h)) + "\n"
        out.append("> [a]: /u\n>\n" + bq)
        out.append("> ```\n> c\n> ```\n>\n" + bq)
        out.append("> <div>\n> x\n> </div>\n>\n" + bq)
        out.append("> a\n>\n>     code\n>\n" + bq)
    return out


def _docs():
    out, seen = [], set()
    hs = headings(True)
    for h in hs:
        small = len(h) >= 4
        for d in contexts(h, small=small):
            if d not in seen:
                seen.add(d)
                out.append(d)
    out += ["-\t# x\n", "- \t# x\n", "-\t\t# x\n", "1.\t# x\n", "- a\n-\t# x\n", ">\t# x\n", "> \t# x\n", "- a\n\n\t# b\n\n\t# c\n",
            "- a\n\n\tb\n\t===\n", "- a\n\n  b\n\tc\n  ===\n", "- a\n\n  b\n\tc\n\t===\n", "1. a\n\n\tb\n\tc\n\t---\n",
            # a character reference at the start of a heading line (the fix takes its replacement marker for a replaced TAB)
            "a\n &copy; b\n===\n", "&amp; b\n===\n", " &amp; b\n===\n", "a\n&copy; b\n===\n", " # x\n\na\n&copy; b\n===\n", "> a\n>  &lt;b\n> ---\n",
            "- a\n\n  t\n   &amp; u\n  ===\n", "-  a\n\n   \t# b\n", "-  a\n\n\t# b\n"]
    return [d for d in out]


# ------------------------------------------------------------------ synthetic alphabet
def _t(text, endws):
    return dict(kind="text", text=text, endWs=endws, line=2, col=1)


_ATX = [dict(kind="atx", hashCount=1, ws=w, line=3, col=1 + len(w)) for w in ("", " ", "\t")]
_SET = [dict(kind="setext", hashCount=1, ws=w, line=5, col=1) for w in ("", "\t")]
_END = [dict(kind="end-setext", ws=w, startIdx="auto") for w in ("", " ", "\t")]
_TXT = [_t("a", None), _t("a", ""), _t("a\nb", "\n"), _t("a\nb", " \x02\n\x02"), _t("a\nb", " \n \x02"),
        _t("\a\t\a    \ab\n\a\t\a  \ac", "\n\t\x02x"), _t("a", "\n"), _t("\ab\nc", "\x02\n\x02 ")]
_BQ = dict(kind="block-quote", leading="> ", line=1, col=1)
_UL0 = dict(kind="ulist", seq="-", indent=2, leading=None, line=1, col=1)
_UL1 = dict(kind="ulist", seq="-", indent=2, leading="\n  \n", line=1, col=1)
_OL = dict(kind="olist", seq=".", content="1", indent=3, leading="", line=1, col=1)
_EBQ = dict(kind="end-block-quote", startIdx="auto")
_EUL = dict(kind="end-ulist", startIdx="auto")
_EUL0 = dict(kind="end-ulist", startIdx=0)
_EOL = dict(kind="end-olist", startIdx="auto")
_LI = dict(kind="li", indent=2, line=2, col=1)
_PARA = dict(kind="para", ws="\n", line=1, col=1)
_EPARA = dict(kind="end-para", startIdx="auto")
_BLANK = dict(kind="BLANK", line=2, col=1)
_LRD = dict(kind="link-ref-def", text="a\nb", linkName="a b", destWs="\n", dest="/u", titleWs="", titleRaw="t\nu", linkTitle="t\nu", line=1, col=1)
_FEN = dict(kind="fcode-block", fenceChar="`", line=1, col=1)
_EFEN = dict(kind="end-fcode-block", startIdx="auto")
_IC = dict(kind="icode-block", ws="    ", leading="", line=1, col=5)
_EIC = dict(kind="end-icode-block", startIdx="auto")
_HT = dict(kind="html-block", line=1, col=1)
_EHT = dict(kind="end-html-block", startIdx="auto")
_HB = dict(kind="hard-break", line=1, col=2)
_TB = dict(kind="tbreak", startChar="-", rest="--", line=1, col=1)

ALPHABET = [_ATX[0], _ATX[2], _SET[0], _SET[1], _END[0], _END[2], _TXT[3], _TXT[5], _BQ, _UL1, _EBQ, _EUL, _LI, _BLANK]

_STARTS = {"end-setext": "setext", "end-block-quote": "block-quote", "end-ulist": "ulist", "end-olist": "olist", "end-para": "para",
           "end-fcode-block": "fcode-block", "end-icode-block": "icode-block", "end-html-block": "html-block"}


def _fixup(l):
    """`startIdx == "auto"`: an end token names the nearest earlier start token of its kind that no earlier end token named."""
    out, used = [], set()
    for k, d in enumerate(l):
        d = dict(d)
        if d.get("startIdx") == "auto":
            want = _STARTS[d["kind"]]
            j = next((j for j in range(k - 1, -1, -1) if out[j]["kind"] == want and j not in used), None)
            if j is None:
                j = next((j for j in range(k - 1, -1, -1) if out[j]["kind"] == want), None)
            else:
                used.add(j)
            d["startIdx"] = j
        out.append(d)
    return out


def _extra():
    """Structured longer streams: containers, a leaf prelude that moves `bq_line_index`, a heading, closes in right / wrong order."""
    conts = [[], [_BQ], [_UL0], [_UL1], [_OL], [_BQ, _UL1], [_UL1, _BQ], [_UL1, _UL1], [_UL1, _LI], [_BQ, _EBQ, _UL1],
             [_UL1, _EBQ, _BQ], [_UL0, _EBQ, _BQ, _LI]]
    closes = {0: [[]], 1: None}
    preludes = [[], [_PARA, _TXT[0], _EPARA], [_BLANK], [_LRD], [_FEN, _TXT[2], _EFEN], [_HT, _TXT[2], _EHT], [_IC, _TXT[2], _EIC],
                [_TB, _HB], [_LI, _BLANK], [_BLANK, _BLANK, _BLANK], [_FEN, _TXT[0]], [_TXT[2]]]
    heads = [[a] for a in _ATX]
    for s in _SET:
        for e in _END:
            for body in ([], [_TXT[0]], [_TXT[1]], [_TXT[2]], [_TXT[3]], [_TXT[4]], [_TXT[5]], [_TXT[6]], [_TXT[7]],
                         [_TXT[0], _TXT[3]], [_TXT[3], _TXT[0]], [_TXT[4], _TXT[3]], [_TXT[0], _HB, _TXT[3]], [_TXT[5], _TXT[0]]):
                heads.append([s] + body + [e])
    heads += [[_END[1]], [_SET[1], _SET[0], _TXT[3], _END[0], _END[0]], [_TXT[3], _END[2]]]
    out = []
    for c in conts:
        ends_right = []
        for d in reversed(c):
            if d["kind"] == "block-quote":
                ends_right.append(_EBQ)
            elif d["kind"] == "ulist":
                ends_right.append(_EUL)
            elif d["kind"] == "olist":
                ends_right.append(_EOL)
        tails = [ends_right]
        if len(ends_right) >= 1:
            tails.append(list(reversed(ends_right)) + [_EUL0])
            tails.append(ends_right + ends_right[:1])
        for p in preludes:
            for h in heads:
                for tl in tails:
                    out.append(c + p + h + tl)
    # two headings in one list, two lists, an end token that names another list
    out += [[_UL1, _BLANK, _ATX[2], _BLANK, _ATX[2], _EUL], [_UL1, _ATX[2], _EUL, _UL1, _BLANK, _ATX[2], _EUL],
            [_UL1, _UL1, _BLANK, _ATX[2], _EUL0, _EUL0], [_UL1, _BLANK, _ATX[2], _EUL, _EUL0]]
    return [_fixup(l) for l in out]


SPEC = dict(
    cfgs=[{}],
    alphabet=ALPHABET,
    maxlen=4,
    synth_fixup=_fixup,
    synth_extra=_extra(),
    docs=_docs,
    quick_docs=400,
    quick_synth=1500,
    cover=["plugins/utils/container_token_manager.py"],
)


# ------------------------------------------------------------------ document-level transfer (report only)
def transfer_report(documents=None, workers=8):
    """After the REAL fix of the token stream: regenerate Markdown with `TransformToMarkdown`, re-parse, re-scan MD023, and compare the
    rendered HTML before / after.  Returns counts and the smallest documents that (a) still report, (b) render differently,
    (c) fail to regenerate / re-parse.  Stand-alone: `python tools/tr2/md023.py`."""
    import multiprocessing as mp
    ds = list(documents if documents is not None else _docs())
    k = max(1, (len(ds) + workers * 4 - 1) // (workers * 4))
    chunks = [ds[i:i + k] for i in range(0, len(ds), k)]
    with mp.Pool(workers) as pool:
        parts = pool.map(_transfer_chunk, chunks, chunksize=1)
    res = [r for p in parts for r in p]
    out = dict(documents=len(ds), parse_failures=0, no_fix=0, fixed=0, regen_errors=[], still_reports=[], html_changed=[], second_fix_changes=[])
    for src, kind, info in res:
        if kind == "parse":
            out["parse_failures"] += 1
        elif kind == "nofix":
            out["no_fix"] += 1
        else:
            out["fixed"] += 1
            if kind != "ok":
                out[kind].append((src, info))
    for key in ("regen_errors", "still_reports", "html_changed", "second_fix_changes"):
        out[key].sort(key=lambda p: (len(p[0]), p[0]))
        out[key + "_count"] = len(out[key])
        if key != "second_fix_changes":
            out[key + "_with_tab"] = sum(1 for p in out[key] if "\t" in p[0])
            out[key + "_unfixed_roundtrip_ok"] = sum(1 for p in out[key] if p[1].get("unfixed_roundtrip"))
        if key == "still_reports":
            out["still_reports_html_changed_too"] = sum(1 for p in out[key] if not p[1]["html_same"])
        out[key] = out[key][:8]
    return out


def _transfer_chunk(chunk):
    import sys, os
    sys.path.insert(0, os.path.join(os.path.dirname(os.path.abspath(__file__)), ".."))
    import tokenrules2lib as L
    from pymarkdown.transform_markdown.transform_to_markdown import TransformToMarkdown
    from pymarkdown.transform_gfm.transform_to_gfm import TransformToGfm
    out = []
    for src in chunk:
        try:
            toks = L.parse(src)
            html0 = TransformToGfm().transform(toks)
        except Exception as e:      # noqa: BLE001
            out.append((src, "parse", type(e).__name__))
            continue
        try:
            rt0 = TransformToMarkdown().transform(toks) == src      # does the UNFIXED stream regenerate its document?
        except Exception:           # noqa: BLE001
            rt0 = False
        try:
            ans, fixed = L.real_answer2("md023", {}, toks, want_fixed=True)
        except L.Unabstractable:
            out.append((src, "parse", "unabstractable"))
            continue
        if fixed is None or ans.split("|")[1] == "ok ":
            out.append((src, "nofix", ans.split("|")[2][:40]))
            continue
        try:
            text = TransformToMarkdown().transform(fixed)
            toks3 = L.parse(text)
            html3 = TransformToGfm().transform(toks3)
        except Exception as e:      # noqa: BLE001
            out.append((src, "regen_errors", dict(error=type(e).__name__ + ": " + str(e)[:80], unfixed_roundtrip=rt0)))
            continue
        ans3 = L.real_answer2("md023", {}, toks3)
        scan3, reqs3 = ans3.split("|")[0], ans3.split("|")[1]
        if scan3 != "ok ":
            out.append((src, "still_reports", dict(after=text, rescan=scan3, html_same=(html3 == html0), unfixed_roundtrip=rt0)))
        elif html3 != html0:
            out.append((src, "html_changed", dict(after=text, html_before=html0, html_after=html3, unfixed_roundtrip=rt0)))
        elif reqs3 != "ok ":
            out.append((src, "second_fix_changes", dict(after=text, reqs=reqs3[:120])))
        else:
            out.append((src, "ok", None))
    return out


if __name__ == "__main__":
    import json, sys, os
    sys.path.insert(0, os.path.join(os.path.dirname(os.path.abspath(__file__)), ".."))
    r = transfer_report()
    print(json.dumps({k: v for k, v in r.items() if not isinstance(v, list)}))
    for key in ("regen_errors", "still_reports", "html_changed", "second_fix_changes"):
        for src, info in r[key][:int(os.environ.get("TR2_SHOW", "5"))]:
            print(key, repr(src), json.dumps(info)[:400])
