"""MD044 proper-names: configurations, synthetic alphabet, rule-targeted document family, CPython table check
(see tools/tokenrules2lib.py).  `names` goes hex-encoded to the driver (`hexkeys`)."""
import itertools

I_DOT = "İ"          # İ: its .lower() has TWO characters

CFGS = [
    {"names": "ParaGraph"},
    {"names": "ParaGraph, b C ,.Net", "code_blocks": False},
    {"names": "GitHub,github.com,Amp,a-A", "code_spans": False},
    {"names": "Été,i,Lt,X41", "code_blocks": False, "code_spans": False},
    {"names": "a B,b c"},
    {},
]

# ------------------------------------------------------------------ documents
ATOMS = ["paragraph", "ParaGraph", "PARAGRAPH", "xparagraph", "paragraphs", "(paragraph)", "paragraph.", "B C", "a b c", ".NET", "a.net",
         "github.com", "GitHub.com", "GITHUB", "&amp;", "&AMP; amp", "\\b c", "\\\\B C", "&lt;lt", "&#x41;", "éTÉ", "étés",
         "ßparagraph", I_DOT, I_DOT + " .NET  x", I_DOT + I_DOT + " I", "A-A-A", "a_paragraph_", "1paragraph", "<b>paragraph</b>", "*lt*", "I"]
SMALL = ["paragraph", "B C", ".NET", "github.com", "&amp;", I_DOT, "a-a-a", "étÉ", "x"]


def _texts():
    out = list(ATOMS)
    for a, b in itertools.product(ATOMS, repeat=2):
        out.append(a + " " + b)
        out.append(a + "\n" + b)
    for a, b, c in itertools.product(SMALL, repeat=3):
        out.append(a + " " + b + "\n" + c)
        out.append(a + "\n" + b + "\n" + c)
        out.append(a + "\n" + b + " " + c)
    return out


def _wrap(t):
    """One text in every inline / block position the rule distinguishes."""
    one = t.replace("\n", " ")
    ind = t.replace("\n", "\n  ")
    return [
        t + "\n",
        "# " + one + "\n",
        one + "\n===\n",
        "- " + ind + "\n",
        "> " + t.replace("\n", "\n> ") + "\n",
        "1. x\n   - " + t.replace("\n", "\n     ") + "\n",
        "`" + t + "`\n",
        "x `` " + t + " `` y " + one + "\n",
        "```\n" + t + "\n```\n" + one + "\n",
        "    " + t.replace("\n", "\n    ") + "\n\n" + one + "\n",
        "~~~" + one + "\n" + t + "\n",
        "a *" + t + "* **" + one + "**\n",
        "[" + t + "](/" + one.replace(" ", "") + " \"" + t + "\") z " + one + "\n",
        "x [" + one + "](\n/u\n '" + t + "') " + one + "\n",
        "![" + t + "](/u \"" + t + "\") z\n",
        "y ![" + one + "](\n</u " + one + ">\n  (" + t + ")) " + one + "\n",
        "[" + t + "]\n\n[" + t + "]: /u \"" + t + "\"\n",
        "![" + t + "][]\nlink\n\n[" + t + "]:\n /" + one.replace(" ", "") + "\n  '" + t + "'\n",
        "[x][" + one + "] ![" + t + "][" + one + "]\n\n[" + one.upper() + "]: <" + one + "> (" + one + ")\n",
        "<" + one.replace(" ", "") + "> <http://" + one.replace(" ", "") + ">\n",
        "<!-- " + t + " -->\n\n<div>" + t + "</div>\n",
        "| " + one + " |\n| --- |\n| " + one + " |\n",
    ]


def _docs():
    bad = cpython_check()
    if bad:
        raise AssertionError("md044: CPython table check failed: %r" % (bad[:3],))
    texts = _texts()
    out = []
    for k, t in enumerate(texts):
        ws = _wrap(t)
        if k < len(ATOMS) + 2 * len(ATOMS) ** 2:
            # singles and pairs: every context for singles, a rotating third of the contexts for pairs
            out += ws if k < len(ATOMS) else [w for j, w in enumerate(ws) if (j + k) % 3 == 0]
        else:
            out += [ws[0], ws[(k % (len(ws) - 1)) + 1]]
    out += ["[ParaGraph]: /url\n", "[paragraph]: /url\n", "[a\\&b *c paragraph*](</u v> 't\\\" paragraph')\n",
            "![a](/u \"\\\" paragraph\")\n", "a\nparagraph\nparagraph\n", "a\nparagraph paragraph\n", "A-A-A\n", "github.com\n",
            "a &amp; b\n", I_DOT + " .NET  x\n", I_DOT + I_DOT + " i\n", "A B C\n", "`` paragraph\nparagraph ``\n"]
    return out


# ------------------------------------------------------------------ synthetic token lists
def _T(text, **kw):
    return dict(kind="text", text=text, line=2, col=3, **kw)


_LINK = dict(kind="link", line=1, col=2, text="Paragraph", labelType="inline", linkTitle="a paragraph\nb", preLinkTitle="",
             activeUri="/paragraph", beforeLinkWs="", beforeTitleWs=" ", boundChar='"')
_LRD = dict(kind="link-ref-def", line=4, col=1, text="", linkName="paragraph", destWs=" ", dest="/u", titleWs=" ", titleRaw="'Paragraph'",
            linkTitle="Paragraph")

ALPHABET = [
    _T("paragraph"), _T("a\nB Paragraph\nparagraph b PARAGRAPH"), _T("\a&amp;\a&\a b c"), _T(I_DOT + " .NET  x"), _T(I_DOT + I_DOT + " i"),
    _T("\a&"), _T("a\x08paragraph"),
    dict(kind="icode-span", line=1, col=5, text="Paragraph", startTicks="``", leadWs=" ", trailWs=" "),
    dict(kind="icode-span", line=1, col=5, text="x\a\n\a \aparagraph", startTicks="`", leadWs="", trailWs=""),
    _LINK, dict(_LINK, labelType="shortcut", linkTitle="", beforeTitleWs="", boundChar=""),
    # (a reference token with a `None` field cannot be built: `ReferenceMarkdownToken.__init__` asserts every field is defined)
    dict(_LINK, beforeLinkWs="\n", preLinkTitle="\\\" Paragraph", text="a\nparagraph"), dict(_LINK, text="\a&"),
    dict(_LINK, linkTitle="Paragraph " + I_DOT + " paragraph", text=I_DOT + I_DOT + " paragraph"),
    dict(_LINK, kind="image"), dict(_LINK, kind="image", labelType="full", text="B\nC paragraph"),
    dict(_LINK, kind="image", beforeLinkWs="\n \n", preLinkTitle="paragraph"), dict(_LINK, kind="image", text="a\\\x08&b Paragraph", linkTitle="\a&amp;\a&\a Paragraph"),
    _LRD, dict(_LRD, text="Para\ngraph PARAGRAPH", linkName="para graph paragraph", destWs="\n", titleRaw="\"x\nParagraph\""),
    dict(_LRD, linkTitle="", titleRaw=""), dict(_LRD, titleRaw="\a&"),
    dict(kind="end-link", startIdx="prev"), dict(kind="end-link", startIdx=None), dict(kind="end-link", startIdx=0),
    dict(kind="fcode-block", fenceChar="`", line=1, col=1), dict(kind="end-fcode-block", endData=":3", startIdx=None),
    dict(kind="icode-block", ws="    ", leading="", line=1, col=5), dict(kind="end-icode-block", startIdx=None),
    dict(kind="para", line=1, col=1), dict(kind="end-of-stream", line=9),
]


def _fixup(l):
    out = []
    for k, d in enumerate(l):
        d = dict(d)
        if d.get("startIdx") == "prev":
            d["startIdx"] = next((j for j in range(k - 1, -1, -1) if out[j]["kind"] in ("link", "image")), None)
        elif d.get("startIdx") == 0 and k == 0:
            d["startIdx"] = None
        out.append(d)
    return out


# ------------------------------------------------------------------ CPython: str.lower, str.isalnum, str.find, the names parser
def _alphabet():
    return [chr(i) for i in range(256)] + [I_DOT, "ı", "̇", "ẞ"]


def cpython_check():
    """The model's tables of `str.lower()` / `str.isalnum()` on its stated alphabet, `str.find`, context freeness of `.lower()` on the
    alphabet, and the `names` part of `initialize_from_config` — each against CPython / the real rule.  Returns the mismatches."""
    import vlib
    import tokenrules2lib as L
    H = vlib.hexs
    bad = []
    drv = vlib.Driver("tokenrules2")

    def tok(**kw):
        return L.enc_tok2(dict(L.DEFAULT2, **kw))
    # 1. the tables, character by character
    alpha = _alphabet()
    ans = drv.run(["md044~mode=table|" + tok(kind="text", text="".join(alpha))])[0].split(",")
    if len(ans) != len(alpha):
        bad.append(("table size", len(ans), len(alpha)))
    for c, a in zip(alpha, ans):
        want = "%d:%s:%d" % (ord(c), H(c.lower()), 1 if c.isalnum() else 0)
        if a != want:
            bad.append(("table", want, a))
    # 2. `.lower()` is context free on the alphabet (all strings ≤ 3 over the non-ASCII part and some ASCII), and `lowerS` agrees
    sub = [c for c in alpha if ord(c) > 127 and c.lower() != c or c in (I_DOT, "̇", "ß", "ı")] + list("aZ. \n")
    strs = ["".join(p) for n in (1, 2, 3) for p in itertools.product(sub, repeat=n)]
    for s in strs:
        if s.lower() != "".join(c.lower() for c in s):
            bad.append(("lower context", s))
    sample = strs[::37] + ["".join(alpha)]
    for s, a in zip(sample, drv.run(["md044~mode=lower|" + tok(kind="text", text=s) for s in sample])):
        if a != H(s.lower()):
            bad.append(("lowerS", s, a))
    # 3. `str.find(pat, start)`
    small = ["".join(p) for n in range(4) for p in itertools.product("ab", repeat=n)]
    big = ["".join(p) for n in range(6) for p in itertools.product("ab", repeat=n)]
    cases = [(p, s, st) for p in small for s in big for st in range(len(s) + 2)]
    got = drv.run(["md044~mode=find|" + tok(kind="text", text=s, ws=p, line=st) for p, s, st in cases])
    for (p, s, st), a in zip(cases, got):
        if a != str(s.find(p, st)):
            bad.append(("find", p, s, st, a))
    # 4. the names parser of `initialize_from_config`
    raws = ["", " ", ",", "a", " a ", "a,b", " a , b ", "a,,b", "a, ,b", "a,", ",a", "a,A", "a, a", "A b, a  b", "a b,a b", "  x y ,z",
            I_DOT + ",i̇", "É,é", "ẞ,ß", "ss,ß", "a\tb, a", "a,b,c,B"]
    got = drv.run(["md044~mode=names;names=%s|" % H(r) for r in raws])
    for r, a in zip(raws, got):
        if a != _real_names(r):
            bad.append(("names", r, _real_names(r), a))
    return bad


def _real_names(raw):
    import vlib
    import tokenruleslib as T1
    try:
        pm = T1.manager("md044", {"names": raw} if raw != "" else {})
    except Exception as e:          # noqa: BLE001
        return "err " + T1._root(e)
    inst = pm.enabled_plugins[0].plugin_instance
    return "ok " + "/".join(vlib.hexs(n) for n in inst._RuleMd044__proper_name_list)


SPEC = dict(
    cfgs=CFGS,
    hexkeys=("names",),
    alphabet=ALPHABET,
    maxlen=3,
    synth_fixup=_fixup,
    docs=_docs,
    quick_docs=400,
    quick_synth=1500,
    cpython_check=cpython_check,
)
