"""MD037 no-space-in-emphasis: synthetic alphabet and rule-targeted document family (see tools/tokenrules2lib.py).

Family (closed, finite):
  A  every string of 1…5 symbols over {* _ ** space a TAB \\* &amp; NEWLINE} as a paragraph (the string starts the paragraph, so the
     "no character before" branches are reached) ;
  B  every string of 1…5 symbols over {" * ", " _ ", " ** ", "a", "*", " "} behind "x" — many badly spaced pairs per text token, nested
     and crossing pairs, blanks shared by two markers ;
  C  the strings of B with ≤ 4 symbols, split at every position by a code span / an inline link / a hard break (several text tokens
     per paragraph: pairs whose markers lie in different text tokens) ;
  E  every string of 1…7 characters over {* _ space a} between "x" and "y" — the two marker characters directly next to each other
     (`*_`, `_*`, `a*_ `): the loop restarts at `next_index + 1 + found_length`, i.e. it never looks at the character directly behind a
     run, and only such texts show it (mutation "drop the + 1" is invisible on A–D) ;
  D  the strings of B with ≤ 3 symbols in ATX headings (open and closed), SetExt headings, block quotes, lists (first line and
     continuation line), two-line paragraphs, code blocks (not checked by the rule), with wider blanks, with raw marker characters
     of the in-band codec (U+0007 U+0008 U+0005) and with character references next to the markers.
"""
import itertools

_A = ["*", "_", "**", " ", "a", "\t", "\\*", "&amp;", "\n"]
_B = [" * ", " _ ", " ** ", "a", "*", " "]
_SEPS = ["`x`", "[l](/u)", "\\\n"]


def _strings(alpha, n):
    for k in range(1, n + 1):
        for p in itertools.product(alpha, repeat=k):
            yield p


def _docs():
    out = []
    for p in _strings(_A, 5):
        out.append("".join(p) + "\n")
    for p in _strings(_B, 5):
        out.append("x" + "".join(p) + "y\n")
    for p in _strings(_B, 4):
        for cut in range(0, len(p) + 1):
            for sep in _SEPS:
                out.append("x" + "".join(p[:cut]) + sep + "".join(p[cut:]) + "y\n")
    for p in _strings(["*", "_", " ", "a"], 7):
        out.append("x" + "".join(p) + "y\n")
    for p in _strings(_B, 3):
        s = "x" + "".join(p) + "y"
        out += ["# " + s + "\n", "## " + s + " ##\n", "#  " + s + "\n", s + "\n===\n", s + "\n" + s + "\n---\n", "> " + s + "\n> " + s + "\n",
                "- " + s + "\n", "1. " + s + "\n   " + s + "\n", "> - " + s + "\n", "- a\n\n  " + s + "\n", s + "\n  " + s + "\n",
                "    " + s + "\n", "```\n" + s + "\n```\n", s.replace(" ", "  ") + "\n", s.replace(" ", " \t") + "\n",
                s.replace("a", "\x07").replace("y", "\x08") + "\n", s.replace("a", "\x05") + "\n", s.replace("a", "&ast;") + "\n",
                s.replace("a", "&#95;").replace(" ", "&#32;", 1) + "\n", s.replace("a", "\\_") + "\n",
                "*" + s + "*\n", "[" + s + "](/u)\n", "<b>" + s + "</b>\n"]
    out += ["a * b _  c _ d * e\n", "a * b _  c  _ d * e\n", "a * b _   c   _ d * e\n", "a * b _ c `x` d _ e * f\n", "a * * b\n",
            "this is ** not some ** bold text\n", "this is ** not some** bold text\n", "this is **not some ** bold text\n",
            "this is **some** bold text\n"]
    return out


def _tx(text, line=1, col=1):
    return dict(kind="text", text=text, line=line, col=col)


_TEXTS = [" * ", " _ ", "a * b", " *  b", "b \t* ", "\x08* ", "\x07*\x07 ", "x\n * ", "\x07&\x07&amp;\x07 * ", " ** ", "\x07 * ",
          " * _  c _ d", " * * ", "*", "a", "a*_ ", " *_ b _ "]

_ALPHA = ([_tx(t) for t in _TEXTS[:11]] +
          [dict(kind="para", line=1, col=1), dict(kind="end-para", startIdx="auto"),
           dict(kind="atx", hashCount=1, line=1, col=1), dict(kind="end-atx", startIdx="auto"),
           dict(kind="setext", hashCount=1, line=1, col=1), dict(kind="end-setext", startIdx="auto"),
           dict(kind="icode-span", text="x", startTicks="`", line=1, col=3)])


def _fixup(l):
    """End tokens name the nearest earlier start token of their kind (`startIdx` None when there is none)."""
    out = []
    for k, d in enumerate(l):
        d = dict(d)
        if d.get("startIdx") == "auto":
            want = d["kind"][4:]
            d["startIdx"] = next((j for j in range(k - 1, -1, -1) if out[j]["kind"] == want), None)
        out.append(d)
    return out


def _extra():
    """Longer synthetic streams: one paragraph with 1…3 text tokens from the full text list, a code span between them."""
    P, E, C = dict(kind="para", line=1, col=1), dict(kind="end-para", startIdx=0), dict(kind="icode-span", text="x", startTicks="`", line=1, col=3)
    out = []
    for a in _TEXTS:
        out.append([P, _tx(a), E])
        for b in _TEXTS:
            out.append([P, _tx(a), C, _tx(b, 2, 5), E])
            out.append([P, _tx(a, 3, -2), _tx(b, 2, 5), E, dict(kind="atx", hashCount=1, line=1, col=1), _tx(a), dict(kind="end-atx", startIdx=4)])
    for a, b, c in itertools.product(_TEXTS[:6] + _TEXTS[11:13] + _TEXTS[15:16], repeat=3):
        out.append([P, _tx(a), C, _tx(b, 2, 5), C, _tx(c, 3, 7), E])
    return out


SPEC = dict(
    cfgs=[{}],
    alphabet=_ALPHA,
    maxlen=4,
    synth_fixup=_fixup,
    synth_extra=_extra(),
    docs=_docs,
    quick_docs=1500,
    quick_synth=2500,
    wf_may_fail=True,
)


def wf_census(sample=None):
    """For every parsed stream of the family: the model's `wf037` flag against what the REAL fix did.  `md037_fix_ok` says wf037 → no
    exception; the census also shows the converse on the family (every stream with wf037 = 0 ends in BadPluginFixError)."""
    import random
    import vlib
    import tokenrules2lib as L
    import tokenruleslib as T1
    ds = _docs()
    if sample:
        ds = random.Random(1).sample(ds, sample)
    reqs, reals = [], []
    for src in ds:
        try:
            toks = L.parse(src)
            abst = L.abstract_all(toks)
        except Exception:      # noqa: BLE001 — parser failures are not this census's business
            continue
        reqs.append("md037~|" + L.enc_toks2(abst))
        reals.append((src, L.real_answer2("md037", {}, toks, abst)))
    out = {}
    bad = []
    for (src, real), ans in zip(reals, vlib.Driver("tokenrules2").run(reqs)):
        body, wf = T1.strip_wf(ans)
        raised = real.split("|")[2].startswith("err")
        out[(wf, raised)] = out.get((wf, raised), 0) + 1
        if (wf == "1") == raised:
            bad.append(src)
    return out, bad


if __name__ == "__main__":
    import os, sys
    sys.path.insert(0, os.path.dirname(os.path.dirname(os.path.abspath(__file__))))
    census, bad = wf_census(int(sys.argv[1]) if len(sys.argv) > 1 else None)
    print("(wf037, real fix raised) -> streams:", census)
    print("streams where wf037 and the real outcome disagree:", len(bad), bad[:3])
