"""lake build of the whole library + driver under the framework's build lock (safe while checks are running)."""
import sys, os
sys.path.insert(0, os.path.dirname(os.path.abspath(__file__)))
import vlib
with vlib.build_lock():
    ok, log = vlib.lake_build(["Verif", "verifdrv"])
print("\n".join(log.splitlines()[-6:]))
sys.exit(0 if ok else 1)
