"""C19 — file discovery selects exactly the documented set, once each, in sorted order.

proof:  Verif.Props.C19 over Verif.Model.FileScan (faithful model of application_file_scanner.py
        and of the library calls it makes: os.path.*, os.walk, glob.glob, fnmatch).
tie:    (1) library models: `globMatch` against fnmatch.translate on an exhaustive pattern x name
            space, `glob` against glob.glob on every tree of the space x a pattern pool;
        (2) every parent-closed tree with <= 5 entries from a name pool x argument lists of <= 3
            spellings x recurse x extensions x list mode: the REAL determine_files_to_scan on the
            materialised tree (cwd = tree root)  ==  model `discover` (files, flags, error messages);
        (3) a subset end-to-end: `scan`, `fix`, `scan -l`, PyMarkdownApi.list_path agree with discovery.
oracle: on the implementation's own output, without the model: sorted; no real file twice
        (os.path.realpath); every result exists, is a file and has an eligible suffix; exactly the
        files the documented rules designate (brute force over the tree description); error flag and
        files independent of argument order; error => nothing scanned; nothing selected => no-files.
"""
import glob as pyglob, itertools, json, multiprocessing, os, re, shutil, sys, tempfile, time, warnings
import vlib, implib

# ------------------------------------------------------------------ the space
# tree entries: (relative path, kind)
POOL = [("a.md", "F"), ("B.MD", "F"), ("c.txt", "F"), ("d", "D"), ("d/e.md", "F"), ("d/f", "D"), ("d/f/g.md", "F"),
        (".h.md", "F"), ("x[1].md", "F"), ("x1.md", "F"), ("y.md", "D")]
MAX_ENTRIES = 5
# argument spellings
SPELL = ["a.md", "./a.md", ".", "d", "d/", "*.md", "d/*.md", "?.md", "nope.md", "c.txt", "*.zzz", "[ab].md", "x[1].md",
         "**/*.md", "*", "d/f", "d/e.md", "./d", "d/../a.md", "x[1]*", ".*", "y.md", "*/", "d//e.md", "d/.", "B.MD",
         ".h.md", "a.md/", "*.txt", "d/*", "./*.md", "?[1].md"]
SPELL3 = ["a.md", "./a.md", ".", "d", "*.md", "nope.md", "c.txt", "d/*.md", "*.zzz"]   # pool for lists of three
EXTS = [".md", ".txt,.md", ".MD", ".md,.MD"]
# patterns for the glob.glob validation (has_magic also reacts to `[`)
GLOBPOOL = sorted(set([s for s in SPELL if any(c in s for c in "*?[")] + [
    "*/*", "*/*/*", "*/*/*.md", "**", "**/", "d/**", "*/e.md", "*/f/*.md", "[d]/*", "[d]/e.md", "d/[e].md", "*//e.md",
    "d//*.md", "./*", ".//*", "*/.", "*/..", "d/./*.md", "d/../*.md", ".?.md", ".*/*", "*.md/", "*.md/*", "y.md/*", "?", "??",
    "x[[]1].md", "x[!a]*", "x[]1].md", "[", "[*", "*[", "a.md/*", "nope/*", "*/nope", "[.]h.md", "[!.]*", "?.MD", "*.M?", "d/?.md",
    "d/f/?.md", "*/f", "*/f/", "*/*/"]))
FN_PAT, FN_NAME, FN_MAXNAME = "ab.*?[]!-", "ab.[]!-", 3

TRIGGER = "# T\n\nText. \n\n\nMore\n"   # triggers MD009/MD012 (scan names the file; fix fixes it)

F_DUP, F_LIST, F_NOFILES = "distinct-spellings-of-one-file", "list-mode-error-then-files-listed", "no-error-no-files-exit-0"


def closed(entries):
    names = {e[0] for e in entries}
    return all(os.path.dirname(n) in names or "/" not in n for n, _ in entries)


def all_trees():
    out = []
    for k in range(MAX_ENTRIES + 1):
        for c in itertools.combinations(POOL, k):
            if closed(c):
                out.append(tuple(c))
    return out


def arg_multisets():
    ms = [()]
    ms += [(a,) for a in SPELL]
    ms += list(itertools.combinations_with_replacement(SPELL, 2))
    ms += list(itertools.combinations_with_replacement(SPELL3, 3))
    return ms


def perms(ms):
    return sorted(set(itertools.permutations(ms)))


def normalised(arg):
    """No empty, `.` or `..` component (so no `./`, `//`, trailing `/`, `/.`)."""
    return all(c not in ("", ".", "..") for c in arg.split("/"))


# ------------------------------------------------------------------ implementation side
MSG_RX = [("G", re.compile(r"^Provided glob path '(.*)' did not match any files\.$", re.S)),
          ("E", re.compile(r"^Provided path '(.*)' does not exist\.$", re.S)),
          ("V", re.compile(r"^Provided file path '(.*)' is not a valid file\. Skipping\.$", re.S))]


def classify(msg):
    if msg == "No matching files found.":
        return ("N", "")
    for k, rx in MSG_RX:
        m = rx.match(msg)
        if m:
            return (k, m.group(1))
    return ("?", msg)


def canon_msgs(msgs):
    """Sort every maximal run of 'not a valid file' messages (their order is os.scandir's)."""
    out, run = [], []
    for m in msgs:
        if m[0] == "V":
            run.append(m)
        else:
            out += sorted(run); run = []
            out.append(m)
    return out + sorted(run)


def materialise(root, tree):
    shutil.rmtree(root, ignore_errors=True)
    os.makedirs(root)
    for n, k in tree:
        p = os.path.join(root, n)
        if k == "D":
            os.makedirs(p, exist_ok=True)
        else:
            os.makedirs(os.path.dirname(p), exist_ok=True)
            with open(p, "w", newline="") as fh:
                fh.write(TRIGGER)


def real_discover(args, recurse, exts, lst):
    from pymarkdown.application_file_scanner import ApplicationFileScanner as AFS
    outs, errs = [], []
    files, err, did = AFS.determine_files_to_scan(list(args), recurse, exts, lst, outs.append, errs.append)
    return {"files": list(files), "err": bool(err), "list": bool(did), "msgs": canon_msgs([classify(m) for m in errs]),
            "out": outs}


# ------------------------------------------------------------------ model side
def enc_tree(tree):
    return ";".join(k + vlib.hexs(n) for n, k in tree)


def enc_query(args, recurse, lst):
    return f"{int(recurse)}{int(lst)}:" + ",".join(vlib.hexs(a) for a in args)


def dec_answer(a):
    parts = a.split("!")
    if len(parts) != 8:
        return {"bad": a}
    files = [vlib.unhex(x) for x in parts[0].split(",")] if parts[0].strip() else []
    msgs = []
    for m in parts[3].split(","):
        if m:
            msgs.append((m[0], vlib.unhex(m[1:])))
    return {"files": files, "err": parts[1] == "1", "list": parts[2] == "1", "msgs": canon_msgs(msgs),
            "out": parts[4] == "+", "outcome": parts[5],
            "spec": None if parts[6] == "X" else ([vlib.unhex(x) for x in parts[6][1:].split(",")] if parts[6][1:].strip() else []),
            "spec_outcome": parts[7]}


# ------------------------------------------------------------------ direct oracle (no model)
def spec_expected(tree, args, recurse, exts):
    """The documented rules, evaluated by brute force over the tree description (cwd = materialised tree).
    Returns (error, set of canonical relative paths).  Literal paths and glob expansion use the OS / the glob
    library (the guide says so); which files a path designates is computed from the description."""
    extl = exts.split(",")
    files_desc = [n for n, k in tree if k == "F"]
    dirs_desc = {n for n, k in tree if k == "D"} | {"."}

    def elig(name):
        return any(os.path.basename(name).endswith(e) for e in extl)

    def canon(p):
        return os.path.relpath(os.path.realpath(p), os.path.realpath("."))

    def of_dir(d):
        res = set()
        for f in files_desc:
            parent = os.path.dirname(f) or "."
            if parent == d or (recurse and (d == "." or parent.startswith(d + "/"))):
                if elig(f):
                    res.add(f)
        return res

    error, sel = False, set()
    for a in args:
        if "*" in a or "?" in a:
            ms = pyglob.glob(a)
            if not ms:
                error = True
            for m in ms:
                c = canon(m)
                if c in dirs_desc:
                    sel |= of_dir(c)
                elif c in files_desc and elig(c):
                    sel.add(c)
        elif not os.path.exists(a):
            error = True
        else:
            c = canon(a)
            if c in dirs_desc:
                sel |= of_dir(c)
            elif c in files_desc and elig(c):
                sel.add(c)
            else:
                error = True
    return error, sel


def oracle(tree, args, recurse, exts, lst, r):
    """Property statement on the implementation's discovery result r.  Yields (symptom, footprint, detail)."""
    files = r["files"]
    if files != sorted(files):
        yield ("not-sorted", "not-sorted", {"files": files})
    reals = {}
    for f in files:
        reals.setdefault(os.path.realpath(f), []).append(f)
    extl = exts.split(",")
    for f in files:
        if not os.path.isfile(f) or not any(f.endswith(e) for e in extl):
            yield ("ineligible-result", "ineligible-result", {"file": f})
    dups = {k: v for k, v in reals.items() if len(v) > 1}
    if dups:
        distinct = all(len(set(v)) == len(v) for v in dups.values())
        norm = all(normalised(a) for a in args)
        fp = F_DUP if (distinct and not norm) else ("same-string-twice" if not distinct else "duplicate-under-normalised-arguments")
        yield ("same-file-twice", fp, {"duplicates": sorted(dups.values())})
    exp_err, exp = spec_expected(tree, args, recurse, exts)
    if r["err"] != exp_err:
        yield ("wrong-error-flag", "wrong-error-flag", {"expected_error": exp_err, "actual_error": r["err"]})
    got = {os.path.relpath(k, os.path.realpath(".")) for k in reals}
    if not r["err"] and not exp_err and got != exp:
        yield ("wrong-file-set", "missing" if exp - got else "extra", {"expected": sorted(exp), "actual": sorted(got)})
    if r["err"] and lst and files:
        # an error was reported, yet files are listed (and the exit code will be 0)
        yield ("error-ignored-in-list-mode", F_LIST if r["out"] == ["\n".join(files)] else "list-output-differs", {"listed": files})
    if lst != r["list"]:
        yield ("wrong-list-flag", "wrong-list-flag", {})
    if lst and not files and ("N", "") not in r["msgs"]:
        yield ("list-empty-not-reported", "list-empty-not-reported", {})
    if lst and files and r["out"] != ["\n".join(files)]:
        yield ("list-output-differs", "list-output-differs", {"out": r["out"]})
    if not lst and r["out"]:
        yield ("output-without-list-mode", "output-without-list-mode", {"out": r["out"]})


# ------------------------------------------------------------------ end-to-end
SCAN_RX = re.compile(r"^(.*?):\d+:\d+: MD\d+", re.M)
FIX_RX = re.compile(r"^Fixed: (.*)$", re.M)


def e2e_case(tree, root, args, recurse, exts_cli, mode):
    """Run one entry point on the materialised tree.  Expected behaviour is derived from the documented rules
    (spec_expected) and from the in-process discovery (entry points agree).  Yields (symptom, footprint, detail)."""
    exts_eff = exts_cli.lower()        # argparse lower-cases the list
    opts = (["-r"] if recurse else []) + (["-ae", exts_cli] if exts_cli != ".md" else [])
    if mode in ("scan", "fix"):
        disc = real_discover(args, recurse, exts_eff, False)
        code, out, err = vlib.run_main([mode] + opts + list(args), cwd=root)
        seq = (SCAN_RX if mode == "scan" else FIX_RX).findall(out)
        order = [x for i, x in enumerate(seq) if x not in seq[:i]]      # files in the order they were processed
        named = sorted(set(seq))
        if mode == "fix":
            for n, k in tree:                       # restore what fix rewrote
                if k == "F":
                    with open(os.path.join(root, n), "w", newline="") as fh:
                        fh.write(TRIGGER)
        exp_err, exp = spec_expected(tree, args, recurse, exts_eff)
        d = {"exit": code, "stdout_tail": out[-300:], "stderr_tail": err[-300:], "processed": named}
        if disc["err"]:
            if named:
                yield ("scanned-despite-error", "scanned-despite-error", d)
            if code != 1 or "No matching files found." not in err:
                yield ("wrong-exit-code", "error-not-no-files", d)
        else:
            realdup = len({os.path.realpath(os.path.join(root, x)) for x in disc["files"]}) != len(disc["files"])
            if mode == "fix" and realdup:
                pass        # F-DUP (reported by the discovery oracle): the second spelling of a file finds it already fixed
            elif named != sorted(set(disc["files"])):
                yield ("entry-points-disagree", mode + "-processed-differs-from-discovery", dict(d, discovered=disc["files"]))
            elif order != disc["files"]:
                yield ("wrong-processing-order", mode + "-order", dict(d, discovered=disc["files"]))
            got = {os.path.relpath(os.path.realpath(os.path.join(root, x)), os.path.realpath(root)) for x in named}
            if not exp_err and got != exp:
                yield ("wrong-file-set", mode + "-processed-set", dict(d, expected=sorted(exp)))
            want = (1 if mode == "scan" else 3) if disc["files"] else 1
            if not disc["files"]:
                # nothing selected: the documented result is NO_FILES_TO_SCAN (exit 1)
                if code == 0 and not exp_err:
                    yield ("no-files-selected-but-success", F_NOFILES, d)
                elif code != 1:
                    yield ("wrong-exit-code", "no-files-exit", d)
            elif code != want:
                yield ("wrong-exit-code", mode + "-exit", d)
    elif mode == "list":
        disc = real_discover(args, recurse, exts_eff, True)
        code, out, err = vlib.run_main(["scan", "-l"] + opts + list(args), cwd=root)
        listed = out.split("\n")[:-1] if out else []
        d = {"exit": code, "stdout_tail": out[-300:], "stderr_tail": err[-300:], "listed": listed}
        if listed != disc["files"]:
            yield ("entry-points-disagree", "list-differs-from-discovery", dict(d, discovered=disc["files"]))
        exp_err, exp = spec_expected(tree, args, recurse, exts_eff)
        if exp_err:
            # documented: an error, nothing selected -> NO_FILES_TO_SCAN (exit 1)
            if code == 0 and listed:
                yield ("error-ignored-in-list-mode", F_LIST, d)
            elif code != 1:
                yield ("wrong-exit-code", "list-exit-on-error", d)
        else:
            got = {os.path.relpath(os.path.realpath(os.path.join(root, x)), os.path.realpath(root)) for x in listed}
            if got != exp:
                yield ("wrong-file-set", "list-set", dict(d, expected=sorted(exp)))
            if code != (0 if exp else 1):
                yield ("wrong-exit-code", "list-exit", d)
    elif mode == "api":
        from pymarkdown.api import PyMarkdownApi, PyMarkdownApiNoFilesFoundException, PyMarkdownApiException
        disc = real_discover(args[:1], recurse, exts_eff, True)
        old = os.getcwd()
        os.chdir(root)
        import contextlib, io
        try:
            try:
                with contextlib.redirect_stdout(io.StringIO()), contextlib.redirect_stderr(io.StringIO()):
                    res = ("ok", list(PyMarkdownApi().list_path(args[0], recurse, exts_cli if exts_cli != ".md" else "").matching_files))
            except PyMarkdownApiNoFilesFoundException as e:
                res = ("nofiles", str(e.reason))
            except PyMarkdownApiException as e:
                res = ("error", str(e.reason))
            except Exception as e:        # anything else is not part of the API contract
                res = ("raised", type(e).__name__ + ": " + str(e))
        finally:
            os.chdir(old)
        want = ("ok", disc["files"]) if disc["files"] else ("nofiles",)
        if res[0] != want[0] or (res[0] == "ok" and res[1] != want[1]):
            yield ("entry-points-disagree", "api-list-differs-from-discovery", {"api": res, "discovered": disc["files"]})


# ------------------------------------------------------------------ worker
def _bucket(b, symptom, fp, case, detail):
    k = (symptom, fp)
    e = b.setdefault(k, {"count": 0, "examples": []})
    e["count"] += 1
    if len(e["examples"]) < 3:
        e["examples"].append((case, detail))


def work(job):
    """job = dict(trees=[...], multisets=[...], exts=[...], e2e=[(tree, args, recurse, exts, mode)...], model_ok)"""
    sys.path.insert(0, vlib.REPO)
    warnings.simplefilter("ignore")
    import logging
    logging.lastResort = None          # pymarkdown.main logs every handled error; keep the check's stderr clean
    res = {"evals": 0, "nontrivial": 0, "dist": {}, "fails": {}, "mismatch": [], "n_mismatch": 0, "spec_mismatch": [], "n_spec_mismatch": 0, "samples": [],
           "glob_evals": 0, "glob_mismatch": [], "e2e": 0, "e2e_dist": {}, "driver_error": None}
    dist = res["dist"]
    base = tempfile.mkdtemp(prefix="verif-c19-")
    root = os.path.join(base, "t")
    oldcwd = os.getcwd()
    drv = vlib.Driver("filescan")
    try:
        for tree in job["trees"]:
            materialise(root, tree)
            os.chdir(root)
            # ---- glob.glob vs model glob
            if job["model_ok"]:
                try:
                    ans = drv.run(["G|" + enc_tree(tree) + "|" + ",".join(vlib.hexs(p) for p in GLOBPOOL)])[0].split("|")
                    for p, a in zip(GLOBPOOL, ans):
                        want = sorted(pyglob.glob(p))
                        got = sorted(vlib.unhex(x) for x in a.split(",")) if a.strip() else []
                        res["glob_evals"] += 1
                        if want != got and len(res["glob_mismatch"]) < 5:
                            res["glob_mismatch"].append({"tree": tree, "pattern": p, "glob.glob": want, "model": got})
                except vlib.MachineryError as e:
                    res["driver_error"] = str(e)
            # ---- discovery
            for exts in job["exts"]:
                cases = []
                for ms in job["multisets"]:
                    for args in perms(ms):
                        for rec in (False, True):
                            for lst in (False, True):
                                cases.append((ms, args, rec, lst))
                model = None
                if job["model_ok"] and not res["driver_error"]:
                    try:
                        line = "D|" + enc_tree(tree) + "|" + vlib.hexs(exts) + "|" + "|".join(enc_query(a, r, l) for (_, a, r, l) in cases)
                        model = drv.run([line])[0].split("|")
                        if len(model) != len(cases):
                            res["driver_error"] = f"{len(cases)} queries, {len(model)} answers"
                            model = None
                    except vlib.MachineryError as e:
                        res["driver_error"] = str(e)
                groups = {}
                for i, (ms, args, rec, lst) in enumerate(cases):
                    case = {"tree": list(tree), "args": list(args), "recurse": rec, "exts": exts, "list": lst, "entry": "discover"}
                    res["evals"] += 1
                    try:
                        r = real_discover(args, rec, exts, lst)
                    except Exception as e:
                        _bucket(res["fails"], "discovery-raised", type(e).__name__, dict(case, footprint=type(e).__name__), {"exception": str(e)})
                        continue
                    nontriv = bool(tree) and bool(args) and (bool(r["files"]) or r["err"])
                    res["nontrivial"] += nontriv
                    key = ("err" if r["err"] else ("files" if r["files"] else "empty")) + ("/list" if lst else "")
                    dist[key] = dist.get(key, 0) + 1
                    for m in r["msgs"]:
                        dist["msg:" + m[0]] = dist.get("msg:" + m[0], 0) + 1
                    dist["nargs:%d" % len(args)] = dist.get("nargs:%d" % len(args), 0) + 1
                    for (sym, fp, detail) in oracle(tree, args, rec, exts, lst, r):
                        _bucket(res["fails"], sym, fp, dict(case, footprint=fp), dict(detail, actual=r))
                    groups.setdefault((ms, rec, lst), []).append((args, r))
                    if model is not None:
                        m = dec_answer(model[i])
                        same = ("bad" not in m and m["files"] == r["files"] and m["err"] == r["err"] and m["list"] == r["list"]
                                and m["msgs"] == r["msgs"] and m["out"] == bool(r["out"]))
                        # the Lean `spec` (written from the guide) against the Python reading of the guide
                        if "bad" not in m:
                            exp_err, exp = spec_expected(tree, args, rec, exts)
                            if (m["spec"] is None) != exp_err or (m["spec"] is not None and m["spec"] != sorted(exp)):
                                res["n_spec_mismatch"] += 1
                                if len(res["spec_mismatch"]) < 5:
                                    res["spec_mismatch"].append({"case": case, "lean_spec": m["spec"], "python_spec": [exp_err, sorted(exp)]})
                        if not same:
                            res["n_mismatch"] += 1
                            if len(res["mismatch"]) < 5:
                                res["mismatch"].append({"case": case, "implementation": r, "model": m})
                    if len(res["samples"]) < 2 and nontriv and len(args) >= 2 and r["files"] and res["evals"] % 97 == 0:
                        res["samples"].append({"tree": [n for n, _ in tree], "args": list(args), "recurse": rec, "exts": exts, "list": lst,
                                               "files": r["files"], "error": r["err"]})
                # ---- independence of argument order (within each multiset of arguments)
                for (ms, rec, lst), rs in groups.items():
                    if len(rs) < 2:
                        continue
                    case = {"tree": list(tree), "args": list(ms), "recurse": rec, "exts": exts, "list": lst, "entry": "discover-permutations"}
                    if len({r["err"] for _, r in rs}) > 1:
                        _bucket(res["fails"], "error-flag-depends-on-order", "error-flag-depends-on-order", dict(case, footprint="error-flag-depends-on-order"),
                                {"by_order": [(a, r["err"]) for a, r in rs]})
                    elif not rs[0][1]["err"] and len({tuple(r["files"]) for _, r in rs}) > 1:
                        _bucket(res["fails"], "files-depend-on-order", "files-depend-on-order", dict(case, footprint="files-depend-on-order"),
                                {"by_order": [(a, r["files"]) for a, r in rs]})
                    elif rs[0][1]["err"] and lst and len({tuple(r["files"]) for _, r in rs}) > 1:
                        # with an error, what is listed depends on where the failing argument stands: part of F-LIST
                        _bucket(res["fails"], "error-ignored-in-list-mode", F_LIST, dict(case, footprint=F_LIST),
                                {"by_order": [(a, r["files"]) for a, r in rs]})
            os.chdir(oldcwd)
        # ---- end to end
        for (tree, args, rec, exts, mode) in job["e2e"]:
            materialise(root, tree)
            os.chdir(root)
            case = {"tree": list(tree), "args": list(args), "recurse": rec, "exts": exts, "entry": mode}
            try:
                for (sym, fp, detail) in e2e_case(tree, root, args, rec, exts, mode):
                    _bucket(res["fails"], sym, fp, dict(case, footprint=fp), detail)
            except Exception as e:
                _bucket(res["fails"], "entry-point-raised", type(e).__name__, dict(case, footprint=type(e).__name__), {"exception": str(e)})
            finally:
                os.chdir(oldcwd)
            res["e2e"] += 1
            res["e2e_dist"][mode] = res["e2e_dist"].get(mode, 0) + 1
    finally:
        os.chdir(oldcwd)
        shutil.rmtree(base, ignore_errors=True)
    res["fails"] = [(k[0], k[1], v["count"], v["examples"]) for k, v in res["fails"].items()]
    return res


# ------------------------------------------------------------------ fnmatch validation
def fnmatch_job(job):
    import fnmatch
    alpha, maxlen, pats = job
    warnings.simplefilter("ignore")
    names = ["".join(t) for n in range(maxlen + 1) for t in itertools.product(alpha, repeat=n)]
    try:
        out = vlib.Driver("filescan").run([f"M|{vlib.hexs(alpha)}|{maxlen}|{vlib.hexs(p)}" for p in pats])
    except vlib.MachineryError as e:
        return {"n": 0, "bad": [], "driver_error": str(e)}
    bad = []
    for p, o in zip(pats, out):
        rx = re.compile(fnmatch.translate(p))
        want = "".join("1" if rx.match(n) else "0" for n in names)
        if want != o and len(bad) < 5:
            bad.append({"pattern": p, "names": [n for n, a, b in zip(names, want, o) if a != b][:5]})
    return {"n": len(pats) * len(names), "bad": bad, "driver_error": None}


FN_EXTRA_NAMES = "a^\\&~|]-x1"     # names for the fixed patterns (characters `re` treats specially inside a set)
FN_EXTRA = ["[^a]", "[a^]", "[\\]", "[a\\]b]", "[&&]", "[a&&b]", "[~~]", "[||]", "[a-b-]", "[--a]", "[!--a]", "[]-a]", "[!]-a]", "[[]", "[[a]",
            "[b-a!x]", "[b-a!-x]", "[b-ab-a!]", "[!b-a]", "[a-bb-a]", "[b-a]", "***", "*?*", "a**b", "[*]", "[?]", "[!*]", "x[1].md", "x[[]1].md",
            "[a-a]", "[!a-a]", "[^]", "[!^]", "[\\a]", "[a\\]", "[&]", "[a&]", "[~a]", "[|a]", "[a|]", "[&&a]", "[a~~]", "[a||x]", "[^^]", "[x-a^]", "[1-x]", "[!1-x]", "[.]", "[!.]", ".[ab]", "[ab][ab]", "[ab]*[ab]", "*[!a]", "[!]", "[!", "[]", "[]]", "[!]]", "[]!]", "a[", "a]", "]", "!", "-"]


# ------------------------------------------------------------------ run
FIXED_E2E = [
    # (tree, args, recurse, exts, mode): one of each finding / rule, always run
    ((("a.md", "F"),), ("a.md", "./a.md"), False, ".md", "list"),
    ((("a.md", "F"),), ("a.md", "./a.md"), False, ".md", "scan"),
    ((("a.md", "F"),), ("a.md", "nope.md"), False, ".md", "list"),
    ((("a.md", "F"),), ("nope.md", "a.md"), False, ".md", "list"),
    ((("a.md", "F"),), ("a.md", "nope.md"), False, ".md", "scan"),
    ((("a.md", "F"),), ("a.md", "nope.md"), False, ".md", "fix"),
    ((("c.txt", "F"),), (".",), False, ".md", "scan"),
    ((("c.txt", "F"),), (".",), False, ".md", "fix"),
    ((("c.txt", "F"),), (".",), False, ".md", "list"),
    ((("c.txt", "F"),), ("*.txt",), False, ".md", "scan"),
    ((("c.txt", "F"),), ("c.txt",), False, ".md", "scan"),
    ((("c.txt", "F"),), ("c.txt",), False, ".TXT", "scan"),
    ((("y.md", "D"),), ("y.md",), False, ".md", "scan"),
    ((("a.md", "F"), ("d", "D"), ("d/e.md", "F"), ("d/f", "D"), ("d/f/g.md", "F")), (".",), True, ".md", "scan"),
    ((("a.md", "F"), ("d", "D"), ("d/e.md", "F"), ("d/f", "D"), ("d/f/g.md", "F")), ("d", "a.md"), True, ".md", "fix"),
    ((("a.md", "F"), ("d", "D"), ("d/e.md", "F"), ("d/f", "D"), ("d/f/g.md", "F")), ("d",), True, ".md", "api"),
    ((("a.md", "F"), ("B.MD", "F"), ("c.txt", "F")), (".",), False, ".MD", "api"),
    ((("c.txt", "F"),), (".",), False, ".md", "api"),
    ((("a.md", "F"), ("x[1].md", "F"), ("x1.md", "F")), ("x[1]*", "x[1].md"), False, ".md", "scan"),
    (tuple(POOL), (".", "*", "d/*.md"), True, ".txt,.md", "scan"),
    (tuple(POOL), ("*",), False, ".md", "list"),
]


def run(ctx):
    ctx.level = "proof"
    ctx.lean_stage([], ["Verif.Props.C19"])
    model_ok = ctx.lean.get("build_ok", False) and os.path.exists(vlib.DRV)
    quick = ctx.quick()
    trees = all_trees()
    multisets = arg_multisets()
    n_space = len(trees) * len(EXTS) * sum(len(perms(m)) for m in multisets) * 4
    big = tuple(POOL)
    if quick:
        tsel = [big, ()] + ctx.rng.sample(trees, 118)
        pinned = [(), ("a.md", "./a.md"), ("a.md", "nope.md"), ("nope.md", "a.md"), (".",), (".", "a.md"), ("*", "d"), ("*.md", "*.zzz", "a.md")]
        pinned = [tuple(sorted(m)) for m in pinned]
        msel = sorted(set(pinned + ctx.rng.sample(multisets, 300)))
    else:
        tsel, msel = [big] + trees, multisets
    # e2e subset: the fixed corpus plus a seeded sample of the space
    n_e2e = 480 if quick else 3200
    e2e = list(FIXED_E2E)
    small = [m for m in multisets if m]
    for _ in range(n_e2e):
        t = ctx.rng.choice(trees)
        a = ctx.rng.choice(perms(ctx.rng.choice(small)))
        e2e.append((t, a, ctx.rng.random() < 0.5, ctx.rng.choice(EXTS), ctx.rng.choice(["scan", "fix", "list", "api"])))
    nproc = min(16, os.cpu_count() or 4)
    jobs = []
    chunk = max(1, (len(tsel) + nproc * 4 - 1) // (nproc * 4))
    for i in range(0, len(tsel), chunk):
        jobs.append({"trees": tsel[i:i + chunk], "multisets": msel, "exts": EXTS, "e2e": [], "model_ok": model_ok})
    echunk = max(1, (len(e2e) + nproc - 1) // nproc)
    for i in range(0, len(e2e), echunk):
        jobs.append({"trees": [], "multisets": [], "exts": [], "e2e": e2e[i:i + echunk], "model_ok": model_ok})
    # fnmatch validation space
    fnmax = 4 if quick else 6
    pats = ["".join(t) for n in range(fnmax + 1) for t in itertools.product(FN_PAT, repeat=n)] + FN_EXTRA
    if quick:
        pats += ["".join(ctx.rng.choice(FN_PAT) for _ in range(ctx.rng.randint(5, 6))) for _ in range(4000)]
    fchunk = max(1, (len(pats) + nproc * 2 - 1) // (nproc * 2))
    fjobs = [(FN_NAME, FN_MAXNAME, pats[i:i + fchunk]) for i in range(0, len(pats), fchunk)] + [(FN_EXTRA_NAMES, 2, FN_EXTRA)]

    with multiprocessing.get_context("fork").Pool(nproc) as pool:
        fres_async = pool.map_async(fnmatch_job, fjobs) if model_ok else None
        results = pool.map(work, jobs, chunksize=1)
        fres = fres_async.get() if fres_async else []

    evals = sum(r["evals"] for r in results)
    nontriv = sum(r["nontrivial"] for r in results)
    dist = {}
    for r in results:
        for k, v in r["dist"].items():
            dist[k] = dist.get(k, 0) + v
    e2e_n = sum(r["e2e"] for r in results)
    e2e_dist = {}
    for r in results:
        for k, v in r["e2e_dist"].items():
            e2e_dist[k] = e2e_dist.get(k, 0) + v
    glob_evals = sum(r["glob_evals"] for r in results)
    fn_evals = sum(f["n"] for f in fres)
    # ---- correspondence verdicts
    derr = [r["driver_error"] for r in results if r["driver_error"]] + [f["driver_error"] for f in fres if f["driver_error"]]
    if derr:
        ctx.broken.append("driver filescan: " + derr[0])
    mism = [m for r in results for m in r["mismatch"]]
    n_mism = sum(r["n_mismatch"] for r in results)
    if n_mism:
        ctx.broken.append({"correspondence discover": f"{n_mism} of {evals} evaluations differ from the model", "examples": mism[:3]})
    n_spec = sum(r["n_spec_mismatch"] for r in results)
    if n_spec:
        ctx.broken.append({"correspondence spec (Lean) vs documented rules (Python)": f"{n_spec} differ",
                           "examples": [m for r in results for m in r["spec_mismatch"]][:3]})
    gm = [m for r in results for m in r["glob_mismatch"]]
    if gm:
        ctx.broken.append({"correspondence glob.glob": gm[:3]})
    fb = [b for f in fres for b in f["bad"]]
    if fb:
        ctx.broken.append({"correspondence fnmatch": fb[:3]})
    # ---- failing inputs
    total_fail = 0
    for r in results:
        for (sym, fp, count, examples) in r["fails"]:
            total_fail += count
            for (case, detail) in examples:
                f = ctx.match_finding(case, sym)
                ctx.report(case, sym, {"oracle": sym + " / " + fp, "detail": detail})
            f = ctx.match_finding(examples[0][0], sym)
            if f:   # count every absorbed instance, not only the examples
                ctx.known[f["id"]] = ctx.known.get(f["id"], 0) + count - len(examples)
    if ctx.broken and not ctx.violations:
        ctx.violation({"oracle": "the model / theorems of Verif.Props.C19 or the correspondence no longer check, and the direct oracle "
                                 "(sorted, once each, eligible, exactly the documented set, order independence, error => nothing scanned) "
                                 f"found no unlisted failing input in {evals} discoveries + {e2e_n} end-to-end runs"}, no_input=True)
    ctx.assumptions += [
        "Normalised args (no empty, `.` or `..` path component) for each_file_once_partial / discover_eq_spec; excluded spellings shown by spelling_dup_witness",
        "WF tree: entry names non-empty, without `/`, not `.`/`..`; no duplicate paths; parents are directories (true of any materialised tree)",
        "extensions contain no `/` (argparse admits only `.` + alphanumerics)",
        "model world: POSIX separators, no symbolic links, relative paths that stay below the working directory",
        "glob.glob / fnmatch / os.path / os.walk are modelled and validated on every run, not verified"]
    samples = [s for r in results for s in r["samples"]][:8]
    ctx.write_evidence({
        "correspondence": {
            "evaluations": evals + glob_evals + fn_evals + e2e_n, "distinct_nontrivial": nontriv,
            "rule": "distinct (tree, extensions, argument list, recurse, list) tuples run through the real determine_files_to_scan and the model; "
                    "non-trivial = non-empty tree and argument list and (at least one file selected or an error raised)",
            "discover_evaluations": evals, "glob_evaluations": glob_evals, "fnmatch_evaluations": fn_evals, "end_to_end_runs": e2e_n,
            "end_to_end_distribution": e2e_dist, "distribution": dist, "exhaustive": not quick,
            "space": {"trees": len(trees), "argument_multisets": len(multisets), "size": n_space, "trees_run": len(tsel), "multisets_run": len(msel),
                      "tree_pool": [n + ("/" if k == "D" else "") for n, k in POOL], "spellings": SPELL, "spellings_for_triples": SPELL3,
                      "extensions": EXTS, "glob_patterns": len(GLOBPOOL),
                      "fnmatch": f"all patterns of length <= {fnmax} over {FN_PAT!r} x all names of length <= {FN_MAXNAME} over {FN_NAME!r} + {len(FN_EXTRA)} fixed patterns (incl. `^ \\ & ~ |` inside brackets) x names of length <= 2 over {FN_EXTRA_NAMES!r}"},
            "model_mismatches": n_mism, "spec_mismatches": n_spec, "oracle_failures": total_fail},
        "samples": samples})


def replay(ctx, path):
    rp = json.load(open(path))
    if rp.get("kind") == "no-failing-input-found":
        print("replay names broken obligations only:", rp.get("broken"))
        return 1
    case = rp["input"]
    tree = tuple((n, k) for n, k in case["tree"])
    sym = rp.get("symptom")
    base = tempfile.mkdtemp(prefix="verif-c19-")
    root = os.path.join(base, "t")
    old = os.getcwd()
    found = []
    try:
        materialise(root, tree)
        os.chdir(root)
        if sym in ("discovery-raised", "entry-point-raised"):
            try:
                if case["entry"] == "discover":
                    real_discover(case["args"], case["recurse"], case["exts"], case["list"])
                else:
                    list(e2e_case(tree, root, tuple(case["args"]), case["recurse"], case["exts"], case["entry"]))
            except Exception as e:
                found = [(sym, type(e).__name__, {"exception": str(e)})]
        elif case["entry"] == "discover":
            r = real_discover(case["args"], case["recurse"], case["exts"], case["list"])
            found = list(oracle(tree, tuple(case["args"]), case["recurse"], case["exts"], case["list"], r))
            print("discovery:", r)
        elif case["entry"] == "discover-permutations":
            rs = [(a, real_discover(a, case["recurse"], case["exts"], case["list"])) for a in perms(tuple(case["args"]))]
            for a, r in rs:
                print(a, "->", r["files"], "error" if r["err"] else "")
            if len({r["err"] for _, r in rs}) > 1:
                found.append(("error-flag-depends-on-order", "error-flag-depends-on-order", {}))
            elif not rs[0][1]["err"] and len({tuple(r["files"]) for _, r in rs}) > 1:
                found.append(("files-depend-on-order", "files-depend-on-order", {}))
            elif rs[0][1]["err"] and case["list"] and len({tuple(r["files"]) for _, r in rs}) > 1:
                found.append(("error-ignored-in-list-mode", F_LIST, {}))
        else:
            found = list(e2e_case(tree, root, tuple(case["args"]), case["recurse"], case["exts"], case["entry"]))
    finally:
        os.chdir(old)
        shutil.rmtree(base, ignore_errors=True)
    hit = [f for f in found if f[0] == sym and f[1] == case.get("footprint")]
    for f in found:
        print("oracle:", f[0], f[1], json.dumps(f[2], default=str)[:400])
    if hit:
        if ctx.match_finding(case, sym):
            print(f"KNOWN-FINDING: property=C19 {ctx.match_finding(case, sym)['id']}")
            return 0
        print(f"VIOLATION property=C19 replay={path}")
        return 1
    print("not reproduced")
    return 0
