"""C05 — token positions are true: line / column point at the element in the source.

proof:  Verif.Props.C05 over the reference model LeanMark, for all documents and readings: L_pos_range, L_lines_mono,
        L_col_bound (1 <= col <= length of the tab-expanded line), L_opener (the character at the reported position is the
        element's opening character, all block kinds).
tie:    (a) positions of pymarkdown's tokens == positions of LeanMark's events through the refinement map `abs`
        (tools/refinelib.py), on every document whose STRUCTURE agrees with a reading of the reference (C03's comparison),
        so that a difference is a position defect, not a parse defect; documents with pragma lines are compared with the
        reference run on the document without them, line numbers shifted.
oracle: (b) the statement evaluated directly on the implementation's tokens, independent of LeanMark:
        posOK(src, token) = the line exists, the column lies in the tab-expanded line (+1), the opener of the token's kind
        is the character there (DESIGN §6 C05 table; html-block: `<` after <= 3 columns of indentation; setext: the token
        position is the underline, original_line/column the first text character; indented code: the column after its
        4 columns of indentation), block tokens in non-decreasing line order.  The same table is also applied to the
        reference's own events on every explored document (a test of the reference; any failure is reported as broken).
spaces: C03's pools (corpus, d1, d2core, d2big, d3big, inline) + D_wrap (every corpus document wrapped once in `> `,
        `- ` + 2, `1. ` + 3) + D_multi (multi-line inline elements — code span, link, image, raw HTML, hard break,
        emphasis containing a line ending — alone / followed by another inline, in plain, `> `, `- `, `1. `, `> - `
        contexts) + D_pragma (corpus documents with a pragma line inserted before the first line, after every blank
        line, at the end, and — sub-pool `inside` — between two lines of a paragraph).
Documents that fail to tokenize or exceed the CPU limit are C01's subject (skipped, counted).
Known families are identified by footprint predicates where one pins the defect exactly (F-LISTCOL, F-BQNESTCOL);
everything else by exact input + signature in findings/C05.inputs.json.
"""
import collections, json, os, re
import vlib, docs, refinelib as R
import c03

PRAGMA_LINE = "<!-- pyml disable-next-line md013-->"
PROCS = 16


# ------------------------------------------------------------------ extra spaces
def wrap(doc, first, cont):
    """the document one container deeper: `first` before the first line, `cont` before the others; a blank line stays
    empty inside a list item and becomes a bare `>` inside a block quote."""
    ls = doc.split("\n")
    tail = ls and ls[-1] == ""
    if tail:
        ls = ls[:-1]
    out = []
    for i, l in enumerate(ls):
        p = first if i == 0 else cont
        if l.strip(" \t") or i == 0:
            out.append(p + l)
        else:
            out.append(">" if p.startswith(">") else "")
    return "\n".join(out) + ("\n" if tail else "")


def d_wrap(corpus):
    for d in corpus:
        if not d.strip():
            continue
        yield wrap(d, "> ", "> ")
        yield wrap(d, "- ", "  ")
        yield wrap(d, "1. ", "   ")


MULTI = ["`a\nb`", "``a\n b``", "[a\nb](/u)", "[a](/u\n\"t\")", "[a](\n/u)", "<b\nc>", "<b c=\"d\ne\">", "![a\nb](/u)", "![a](/u\n\"t\")", "[a\nb][r]",
         "[a\nb]", "[a][r\ns]", "![a][r\ns]", "x\\\ny", "x  \ny", "*a\nb*", "**a\nb**", "<!-- a\nb -->", "<http://a.b>\nq"]
FOLLOW = ["", " *e*", " `c`", " [l](/u)", " <i>", " ![i](/u)", " <http://a.b>", "\\\nz *e*"]
LEAD = ["", "x ", "*s* "]


def contexts(body, defs):
    """the inline text `body` (may contain line endings) as a paragraph in five container contexts."""
    ls = body.split("\n")
    tail = ("\n\n" + defs) if defs else ""
    yield "\n".join(ls) + tail
    yield "\n".join("> " + l for l in ls) + tail
    yield "\n".join(("- " if i == 0 else "  ") + l for i, l in enumerate(ls)) + tail
    yield "\n".join(("1. " if i == 0 else "   ") + l for i, l in enumerate(ls)) + tail
    yield "\n".join(("> - " if i == 0 else ">   ") + l for i, l in enumerate(ls)) + tail
    yield "\n".join(ls) + "\n===" + tail


def d_multi():
    seen = set()
    for m in MULTI:
        defs = "[a b]: /r\n[r]: /r\n[r s]: /r" if "[r" in m or m == "[a\nb]" else ""
        for le in LEAD:
            for fo in FOLLOW:
                for d in contexts(le + m + fo, defs):
                    if d not in seen:
                        seen.add(d)
                        yield d
    for m1 in MULTI[:10]:
        for m2 in MULTI[:10]:
            for d in contexts(m1 + " " + m2, "[r]: /r" if "[r]" in m1 + m2 else ""):
                if d not in seen:
                    seen.add(d)
                    yield d


def d_multi_pairs():
    """Two multi-line inline elements in one paragraph followed by short inline elements, with the continuation lines
    indented differently (0 / 1 / 3 spaces) — per-line leading-whitespace bookkeeping across several elements."""
    seen = set()
    inds = ["", " ", "   "]
    for m1 in MULTI:
        for m2 in MULTI:
            body = "a " + m1 + " c " + m2 + " *e* `f`"
            ls = body.split("\n")
            defs = "[a b]: /r\n[r]: /r\n[r s]: /r" if "[r" in body or "[a\nb]" in body else ""
            for i1 in inds:
                for i2 in inds:
                    out = [ls[0]] + [(i1 if k % 2 == 1 else i2) + l for k, l in enumerate(ls[1:], 1)]
                    d = "\n".join(out) + ("\n\n" + defs if defs else "\n")
                    if d not in seen:
                        seen.add(d)
                        yield d
                    q = "\n".join("> " + l for l in out) + ("\n\n" + defs if defs else "\n")
                    if i1 == i2 and q not in seen:
                        seen.add(q)
                        yield q


def d_pragma(corpus):
    """(pool, document with one pragma line inserted, index of the inserted line)"""
    for d in corpus:
        if R.PRAGMA.search(d) or not d.strip():
            continue
        ls = d.split("\n")
        tail = ls[-1] == ""
        body = ls[:-1] if tail else ls
        if len(body) > 12:
            continue
        for k in range(len(body) + 1):
            clean = k == 0 or k == len(body) or not body[k - 1].strip(" \t")
            inside = 0 < k < len(body) and body[k - 1].strip(" \t") and body[k].strip(" \t")
            if clean or inside:
                new = body[:k] + [PRAGMA_LINE] + body[k:]
                yield ("pragma-clean" if clean else "pragma-inside", "\n".join(new) + ("\n" if tail else ""), k)


def pools(ctx):
    q = ctx.quick()
    pick = (lambda seq, k: docs.sample(ctx.rng, seq, k)) if q else (lambda seq, k: list(seq))
    base = c03.pools(ctx)
    corpus = base[0][1]
    prag = list(d_pragma(corpus))
    out = [(n, t, None) for n, t in base]
    out.append(("wrap", pick(list(dict.fromkeys(d_wrap(corpus))), 3000), None))
    out.append(("multi", pick(list(d_multi()), 1500), None))
    out.append(("multi-pairs", pick(list(d_multi_pairs()), 1500), None))
    out.append(("container-pairs", pick(docs.container_pairs(), 800), None))
    out.append(("marker-variants", pick(docs.corpus_marker_variants(), 1200), None))
    for name in ("pragma-clean", "pragma-inside"):
        sel = pick([(d, k) for (p, d, k) in prag if p == name], 2000)
        out.append((name, [d for d, _ in sel], [k for _, k in sel]))
    return out


# ------------------------------------------------------------------ footprints
def _prefix_run(l):
    """number of leading columns of the tab-expanded line made of spaces and `>` only (container prefix + indentation)."""
    k = 0
    while k < len(l) and l[k] in " >":
        k += 1
    return k


def fp_listcol(src_lines, rec, true_col=None):
    """F-LISTCOL: inline token on a line after the first line of its leaf block whose innermost open container is a list
    item: the column is reported relative to the text left after the container prefix / item indentation was removed,
    i.e. reported column = true column − min(columns of leading `>`/space prefix on that line, content indent of the item)."""
    (i, n, line, col, extra, tctx) = rec
    if tctx is None or tctx[1] != "l" or not (line > tctx[0] > 0) or tctx[2] <= 0 or not (1 <= line <= len(src_lines)):
        return False
    l = src_lines[line - 1]
    delta = min(_prefix_run(l), tctx[2])
    if delta <= 0:
        return False
    if true_col is not None:
        return true_col - col == delta
    c = col - 1 + delta
    ch = l[c] if 0 <= c < len(l) else ""
    return ch != "" and ch in R.OPENER.get(n, "")


def fp_tabpos(raw_lines, rec, true_col=None):
    """F-TABPOS: inline token on a continuation line of its leaf block that has a tab in front of the element: the
    reported column counts that tab as ONE column — it is the element's 1-based index in the raw line, not in the
    tab-expanded line."""
    (i, n, line, col, extra, tctx) = rec
    if tctx is None or not (line > tctx[0] > 0) or not (1 <= line <= len(raw_lines)):
        return False
    raw = raw_lines[line - 1]
    j = col - 1
    if not (0 <= j < len(raw)) or "\t" not in raw[:j]:
        return False
    if raw[j] not in R.OPENER.get(n, ""):
        return False
    return true_col is None or len(R.detab(raw[:j])) + 1 == true_col


def fp_bqnestcol(src_lines, kind, line, col, true_col):
    """F-BQNESTCOL: a block quote opened on a line that first continues enclosing quotes is reported at the column of an
    enclosing quote's `>` (left of its own marker): both columns carry `>` and only `>` and spaces precede the true one."""
    if kind != "quote" or not (1 <= line <= len(src_lines)) or not (1 <= col < true_col):
        return False
    l = src_lines[line - 1]
    return len(l) >= true_col and l[true_col - 1] == ">" and l[col - 1] == ">" and set(l[:true_col]) <= set("> ")


# ------------------------------------------------------------------ sweep
class Acc:
    def __init__(self):
        self.docs = collections.Counter()
        self.tokens_checked = 0
        self.pos_compared = 0
        self.docs_compared = collections.Counter()
        self.struct_skipped = collections.Counter()
        self.skipped = collections.Counter()
        self.oos = 0
        self.fam = collections.Counter()
        self.listed = collections.Counter()
        self.nontrivial = set()
        self.ref_self = 0
        self.samples = []


def strip_pragma(doc):
    """(document without the inserted pragma lines, map new line number -> original line number)"""
    ls = doc.split("\n")
    keep, mp = [], {}
    for i, l in enumerate(ls):
        if l == PRAGMA_LINE:
            continue
        keep.append(l)
        mp[len(keep)] = i + 1
    return "\n".join(keep), mp


def map_lines(evs, mp):
    out = []
    for e in evs:
        if e[0] == "O":
            out.append((e[0], e[1], mp.get(e[2], e[2]), e[3], e[4]))
        elif e[0] == "L":
            out.append((e[0], e[1], mp.get(e[2], e[2]), e[3], e[4], [(x[0], x[1], mp.get(x[2], x[2]), x[3]) if x[0] == "I" else x for x in e[5]]))
        else:
            out.append(e)
    return out


def check_pool(ctx, name, texts, acc, base, pragma):
    CH = 40000
    for off in range(0, len(texts), CH):
        part = texts[off:off + CH]
        if pragma:
            stripped = [strip_pragma(d) for d in part]
            refs = R.reference([s for s, _ in stripped])
        else:
            refs = R.reference(part)
        imp = R.run_impl(part, procs=PROCS)
        for k, (d, rf, im) in enumerate(zip(part, refs, imp)):
            if "err" in im:
                acc.skipped[im["err"]] += 1
                continue
            acc.docs[name] += 1
            rl = R.src_lines(d)
            sl = [R.detab(l) for l in rl]
            recs = {r[0]: r for r in im["recs"]}
            unexplained = []
            # ---- (b) direct oracle on the implementation's tokens
            acc.tokens_checked += len(im["recs"])
            if len(im["recs"]) >= 4:
                acc.nontrivial.add(R.doc_hash(d))
            for (i, n, line, col, why) in R.pos_ok(d, im["recs"]):
                if why == "opener" and fp_listcol(sl, recs[i]):
                    acc.fam["F-LISTCOL"] += 1
                    continue
                if why == "opener" and fp_tabpos(rl, recs[i]):
                    acc.fam["F-TABPOS"] += 1
                    continue
                unexplained.append(f"oracle:{n}:{why}@{line}:{col}")
            # ---- (a) positions against the reference, where the structure agrees
            in_scope = rf["scope"]
            if in_scope:
                rr = rf
                if pragma:
                    mp = stripped[k][1]
                    rr = {"scope": True, "amb": rf["amb"], "readings": {r: (h, map_lines(a, mp)) for r, (h, a) in rf["readings"].items()}}
                    # HTML is C03's subject; for pragma documents only the structure has to agree
                    r = next((q for q in sorted(rr["readings"]) if R.strip_pos(im["abs"]) == R.strip_pos(rr["readings"][q][1])), None)
                else:
                    r, _ = R.judge(rf, im)
                # the reference's own events against the same table (a test of the reference)
                for b in R.pos_ok_abs(d if not pragma else stripped[k][0], rf["readings"][0][1]):
                    acc.ref_self += 1
                    ctx.broken.append(f"reference position fails the opener table: {b} in {d!r}"[:300])
                if r is None:
                    acc.struct_skipped[name] += 1
                else:
                    acc.docs_compared[name] += 1
                    pa, pb = R.positions(im["abs"]), R.positions(rr["readings"][r][1])
                    acc.pos_compared += len(pa)
                    for x, y in zip(pa, pb):
                        if (x[2], x[3]) == (y[2], y[3]):
                            continue
                        if x[2] == y[2] and x[4] is not None and x[4] in recs and fp_listcol(sl, recs[x[4]], true_col=y[3]):
                            acc.fam["F-LISTCOL"] += 1
                            continue
                        if x[2] == y[2] and x[4] is not None and x[4] in recs and fp_tabpos(rl, recs[x[4]], true_col=y[3]):
                            acc.fam["F-TABPOS"] += 1
                            continue
                        if x[2] == y[2] and fp_bqnestcol(sl, x[1], x[2], x[3], y[3]):
                            acc.fam["F-BQNESTCOL"] += 1
                            continue
                        unexplained.append(f"pos:{x[1]}:{x[2]}:{x[3]}!={y[2]}:{y[3]}")
                    if len(acc.samples) < 4 and len(pa) >= 5 and len(d) < 70 and name in ("multi", "wrap", "d3big"):
                        acc.samples.append({"pool": name, "doc": d, "positions": [list(p[:4]) for p in pa]})
            else:
                acc.oos += 1
            if unexplained:
                sig = ";".join(sorted(set(unexplained)))
                vlib.collect_failure("C05", name.split("-")[0] if name.startswith("pragma") else "doc", d, sig)
                if base.absorbs(name.split("-")[0] if name.startswith("pragma") else "doc", d, sig):
                    acc.listed[family_of(name, unexplained)] += 1
                    continue
                ctx.report({"doc": d, "signature": sig}, "position-wrong",
                           {"pool": name, "tokens": [list(r[:4]) for r in im["recs"]][:60],
                            "reference_events": rf["readings"][0][1] if in_scope else None,
                            "oracle": "posOK(src, token) on pymarkdown's tokens; positions == LeanMark's through abs where the structure agrees"})


def family_of(pool, unexplained):
    u = unexplained[0]
    if pool == "pragma-inside":
        return "F-C05-PRAGMA-INSIDE"
    if pool == "pragma-clean":
        return "F-C05-PRAGMA"
    if u.startswith("oracle:html-block"):
        return "F-C05-HTMLCOL"
    if u.startswith("oracle:li:") or u.startswith("pos:li") or u.startswith("pos:ul") or u.startswith("pos:ol"):
        return "F-C05-LISTPOS"
    if u.startswith("oracle:") and u.split(":")[1] in R.INLINE_NAMES or u.startswith("pos:") and u.split(":")[1] in ("emph", "strong", "link", "image", "code", "rawhtml", "autolink", "hard"):
        return "F-C05-INLINECOL"
    return "F-C05-BLOCKPOS"


def run(ctx):
    ok = ctx.lean_stage(["entities"], ["Verif.Props.C05", "Verif.Props.LeafPos", "Verif.Props.Coalesce", "Verif.Props.InlineLoop", "Verif.Props.InlineLoop2"])
    _, leaf_fail = ctx.block("leafposlib", "leafpos", __import__("blocks").SRC["leafpos"])      # faithful leaf positions (Verif.Props.LeafPos) vs the real tokens
    for f in leaf_fail:
        d = f["doc"] if isinstance(f, dict) else str(f)
        fam = next((x for x in ctx.findings if x["id"] == "F-ICODE-BLANK-IN-LIST"), None)
        if fam and re.fullmatch(r" {0,3}(?:[-*+]|\d{1,9}[.)]) {5,}\n?", d):
            ctx.known_finding(fam)
        else:
            ctx.report({"doc": d}, "leaf-column", {"detail": f, "oracle": "character at the token's column of the tab-expanded physical line is the leaf's opener (tools/leafposlib.py)"})
    __import__("blocks").inlineloop(ctx)     # inline_loop_positions_partial / loop_tokens_positions: line/column handed to every inline handler = true position (2 excluded families proved)
    ctx.block("coalescelib", "coalesce", __import__("blocks").SRC["coalesce"])        # merged text token keeps the first token's position (merged_position_first)
    if not ok:
        ctx.broken.append("lake build failed: the reference model cannot be run")
    acc, base = Acc(), vlib.InputBaseline("C05")
    ps = pools(ctx)
    if ok:
        for name, texts, ks in ps:
            check_pool(ctx, name, texts, acc, base, pragma=name.startswith("pragma"))
    fams = {f["id"]: f for f in ctx.findings}
    for fid, n in sorted((acc.fam + acc.listed).items(), key=lambda kv: -kv[1]):
        f = fams.get(fid)
        if f is None:
            ctx.broken.append(f"family {fid} has no entry in known_findings.json")
            continue
        ctx.known[fid] = n
        how = "footprint" if fid in acc.fam else "listed inputs (findings/C05.inputs.json)"
        print(f"KNOWN-FINDING: property=C05 {fid}: {n} {how} — {f.get('what', '')[:170]}")
    if ctx.broken and not ctx.violations:
        ctx.violation({"oracle": "Verif.Props.C05 / reference positions broken; the sweep found no unlisted failing document"}, no_input=True)
    ctx.assumptions += [
        "columns are 1-based in the tab-expanded line (tab stops every 4 columns), as pymarkdown reports them",
        "html-block: the token's column is where the block's <= 3 columns of indentation start (pymarkdown's convention, also LeanMark's); indented code: the column after its 4 columns of indentation",
        "text tokens and soft breaks carry positions too but have no opener character; they are not checked",
        "the comparison with the reference is made only where the structure agrees (C03 decides the rest); the direct oracle runs on every document that tokenizes",
        "no theorem about pymarkdown's position arithmetic; inline openers of the reference are checked dynamically, not proved"]
    tot = sum(len(t) for _, t, _ in ps)
    ctx.write_evidence({
        "correspondence": {
            "evaluations": sum(acc.docs.values()), "distinct_nontrivial": len(acc.nontrivial),
            "rule": "one evaluation = one document tokenized by pymarkdown, every positioned token checked by the direct oracle, and — where the "
                    "structure agrees with the reference — every abstract event's (line, column) compared with LeanMark's; " + c03.SPACE_RULE +
                    "; wrap / multi / pragma pools as described in tools/props/c05.py; non-trivial = at least 4 positioned tokens",
            "distribution": dict(acc.docs), "exhaustive": not ctx.quick(), "documents_generated": tot,
            "tokens_checked_by_direct_oracle": acc.tokens_checked, "positions_compared_with_reference": acc.pos_compared,
            "documents_compared_with_reference": dict(acc.docs_compared), "structure_disagrees_skipped": dict(acc.struct_skipped),
            "out_of_reference_scope": acc.oos, "skipped_c01": dict(acc.skipped),
            "reference_self_check_failures": acc.ref_self,
            "footprint_findings": dict(acc.fam), "listed_inputs_absorbed_by_family": dict(acc.listed)},
        "samples": acc.samples[:4]})
    ctx.coverage["wall"] = ""


def replay(ctx, path):
    rp = json.load(open(path))
    if rp.get("kind") == "no-failing-input-found":
        print("replay names broken obligations only:", rp.get("broken"))
        return 1
    d = rp["input"]["doc"]
    pragma = PRAGMA_LINE in d.split("\n")
    acc, base = Acc(), vlib.InputBaseline("C05")
    before = len(ctx.violations)
    check_pool(ctx, rp.get("pool", "pragma-clean" if pragma else "replay"), [d], acc, base, pragma=pragma)
    im = R.impl_one(d)
    print("document:", repr(d))
    if "err" in im:
        print("implementation no longer tokenizes the document:", im["err"])
        return 0
    for r in im["recs"]:
        print("  token", r)
    print("direct oracle:", R.pos_ok(d, im["recs"]))
    print("footprint findings:", dict(acc.fam), "listed:", dict(acc.listed))
    return 1 if len(ctx.violations) > before else 0
