"""C16 — all entry points agree: file scan, stdin scan and the Python API.

proof:  Verif.Props.C16 over Verif.Model.Lines (splitNL/joinNL/univNL, faithful models of
        FileSourceProvider / InMemorySourceProvider, the stdin/API spool, API argument assembly).
tie:    (a) real FileSourceProvider (bytes written to a temp file) and InMemorySourceProvider vs the
            model on ALL strings over {a, space, \\n, \\r, \\t, é} of length <= 6 (thorough) / seeded sample (quick);
        (a') the temp file really written by __scan_from_stdin (stdin and API string) vs spoolStdin/spoolString;
        (a'') PyMarkdownApi.__build_common_arguments vs apiArgs, the real argparse parser vs parseArgs,
            the real rule enable/disable outcome (plug-in manager) vs cmdLineState on API- and CLI-style argv.
oracle: (b) four-way differential per (document, rule selection): `scan <file>`, `scan-stdin`
            (in-process text-mode stdin + real subprocesses), scan_string, scan_path; `fix` in place vs
            fix_string vs fix_path;  documents equal up to universal-newline translation scan equal;
        (c) every log level x --stack-trace x log file: failures, exit code and files identical.
Whitespace-only and empty strings are rejected by the API by documentation (`str.strip()` empty ->
PyMarkdownApiArgumentException); exactly those are excluded from the two string entry points
(scan_string / fix_string) and nothing else.
"""
import contextlib, io, itertools, json, logging, multiprocessing, os, re, subprocess, sys, time
import vlib, implib

ALPHA = ["a", " ", "\n", "\r", "\t", "é"]
MAXLEN = 6
PY = "/venv/bin/python"


def univ(s):
    """Python universal newlines."""
    return s.replace("\r\n", "\n").replace("\r", "\n")


def api_rejects(s):
    """The documented exclusion: empty / whitespace-only strings."""
    return s.strip() == ""


PENDING = []


def pend(ctx, case, symptom, payload):
    """Failures are collected and reported at the end: violations of the property's statement first
    (smallest input first), model mismatches only as `broken` correspondences."""
    PENDING.append((case, symptom, payload))


def _size(case):
    return len(case.get("document", case.get("text", ""))) if isinstance(case, dict) else 0


def shrink_doc(doc, sel_name, symptom, budget=150):
    """Greedy line-wise then character-wise reduction keeping the same symptom of the four-way oracle."""
    sel = next(s for s in SELECTIONS if s["name"] == sel_name)

    def fails(d):
        with implib.workspace() as ws:
            try:
                _, P = four_way(d, sel, ws)
            except Exception:
                return False
        return any(sy == symptom for sy, _ in P)
    used = 0
    for unit in ("line", "char"):
        changed = True
        while changed and used < budget:
            changed = False
            parts = doc.splitlines(keepends=True) if unit == "line" else list(doc)
            for i in range(len(parts)):
                cand = "".join(parts[:i] + parts[i + 1:])
                used += 1
                if cand != doc and fails(cand):
                    doc, changed = cand, True
                    break
                if used >= budget:
                    break
    return doc


def flush(ctx):
    direct = [x for x in PENDING if not x[1].endswith("model-mismatch")]
    model = [x for x in PENDING if x[1].endswith("model-mismatch")]
    direct.sort(key=lambda x: _size(x[0]))
    shrunk = 0
    for case, sym, payload in direct:
        if sym in ("scan-differs", "fix-differs") and "document" in case and "selection" in case and shrunk < 2 and not ctx.match_finding(case, sym):
            small = shrink_doc(case["document"], case["selection"], sym)
            shrunk += 1
            if small != case["document"]:
                payload = dict(payload, shrunk_from=case["document"])
                case = dict(case, document=small)
        ctx.report(case, sym, payload)
    if model and not ctx.violations:
        ctx.violation({"oracle": "the Lean model and the implementation differ on the inputs below, but no entry point disagreed with another "
                                 "(provider sweep, spool check, four-way differential, diagnostics sweep)",
                       "model_mismatches": [{"input": c, "symptom": sy, "detail": p} for c, sy, p in model[:10]]}, no_input=True)
    PENDING.clear()


def fresh_logging():
    """Put the logging module back into the state of a fresh process (the application installs root
    handlers bound to the current sys.stdout and never removes them)."""
    root = logging.getLogger()
    for h in list(root.handlers):
        root.removeHandler(h)
        with contextlib.suppress(Exception):
            h.close()
    root.setLevel(logging.WARNING)


# ====================================================================== (a) providers vs model
def all_strings(maxlen=MAXLEN):
    for n in range(maxlen + 1):
        for t in itertools.product(ALPHA, repeat=n):
            yield "".join(t)


def drain(provider):
    lines, flags = [], []
    while True:
        l = provider.get_next_line()
        if l is None:
            break
        lines.append(l)
        flags.append(bool(provider.is_at_end_of_file))
    return lines, flags


def real_providers(path, text):
    from pymarkdown.general.source_providers import FileSourceProvider, InMemorySourceProvider
    with open(path, "wb") as fh:
        fh.write(text.encode("utf-8"))
    f = FileSourceProvider(path)
    fl, ff = drain(f)
    # reset_to_start must replay the same stream (the scan reads the provider twice)
    f.reset_to_start()
    fl2, _ = drain(f)
    m = InMemorySourceProvider(text)
    ml, mf = drain(m)
    return {"F": (bool(f.did_final_line_end_with_newline), fl, ff), "F2": fl2, "M": (ml, mf)}


def dec_list(s):
    return [] if s.strip() == "-" else [vlib.unhex(x) for x in s.split(";")]


def dec_stream(s):
    out = []
    for x in s.split(","):
        if x:
            out.append((int(x[:-1]), x[-1] == "E"))
    return out


def parse_lines_answer(ans):
    p = ans.split("|")
    if len(p) != 7 or p[0] != "F" or p[4] != "M":
        raise vlib.MachineryError("bad lines answer: " + ans[:80])
    return {"F": (p[1] == "1", dec_list(p[2]), dec_stream(p[3])), "M": (dec_list(p[5]), dec_stream(p[6]))}


def providers_stage(ctx, ws, drv, model_ok):
    if ctx.quick():
        texts = [s for s in all_strings(4)]
        pool5 = ["".join(ctx.rng.choice(ALPHA) for _ in range(ctx.rng.choice([5, 6]))) for _ in range(4000)]
        texts += sorted(set(pool5))
    else:
        texts = list(all_strings(MAXLEN))
    # fixed corpus: line separators `str.splitlines` honours but `readlines` does not, BOM, final-CR cases
    corpus = ["a\x0cb\n", "a\x0bb", "a\x1cb\x1db\x1eb", "a\x85b\n", "a\u2028b\u2029c\n", "\ufeffa\n", "a\r", "a\r\r\n", "\r\n\r",
              "a\n\rb", "é\r\né", "x" * 300 + "\n" + "y" * 300, "\n" * 40, "\r" * 7, "a\r\n" * 9]
    seen = set()
    texts = [t for t in texts + corpus if not (t in seen or seen.add(t))]
    answers = [None] * len(texts)
    if model_ok:
        try:
            answers = [parse_lines_answer(a) for a in drv.run(["lines|" + vlib.hexs(t) for t in texts])]
        except vlib.MachineryError as e:
            ctx.broken.append(f"driver lines: {e}")
    path = os.path.join(ws, "prov.md")
    dist = {"len": {}, "has_cr": 0, "has_crlf": 0, "ends_nl": 0, "empty": 0, "multi_line": 0}
    nontrivial, fails = 0, []
    for t, ans in zip(texts, answers):
        real = real_providers(path, t)
        u = univ(t)
        dist["len"][min(len(t), 7)] = dist["len"].get(min(len(t), 7), 0) + 1
        dist["has_cr"] += "\r" in t
        dist["has_crlf"] += "\r\n" in t
        dist["ends_nl"] += u.endswith("\n")
        dist["empty"] += t == ""
        multi = "\n" in u
        dist["multi_line"] += multi
        nontrivial += multi
        n = len(real["F"][1])
        problems = []
        # direct oracle: the statement itself, independent of the model
        if real["F"][1] != u.split("\n"):
            problems.append("file provider lines != universal-newline text split at \\n")
        if real["M"][0] != t.split("\n"):
            problems.append("in-memory provider lines != text split at \\n")
        if real["F"][0] != (u == "" or u.endswith("\n")):
            problems.append("did_final_line_end_with_newline wrong")
        if real["F"][2] != [i + 1 == n for i in range(n)] or real["M"][1] != [i + 1 == len(real["M"][0]) for i in range(len(real["M"][0]))]:
            problems.append("is_at_end_of_file not (only) true after the last line")
        if real["F2"] != real["F"][1]:
            problems.append("reset_to_start replays a different stream")
        if "\r" not in t and real["F"][1] != real["M"][0]:
            problems.append("providers disagree on CR-free text")
        sym = "provider-oracle" if problems else None
        if ans is not None:
            mf, mm = ans["F"], ans["M"]
            if (mf[0], mf[1], [e for _, e in mf[2]], [k for k, _ in mf[2]]) != (real["F"][0], real["F"][1], real["F"][2], list(range(1, n + 1))):
                problems.append(f"model fspRead differs: model {mf} real {real['F']}")
                ctx.broken.append("correspondence fspRead")
            if (mm[0], [e for _, e in mm[1]]) != (real["M"][0], real["M"][1]):
                problems.append(f"model memLines differs: model {mm} real {real['M']}")
                ctx.broken.append("correspondence memLines")
            sym = sym or ("provider-model-mismatch" if problems else None)
        if problems:
            fails.append((t, sym, problems, real))
    for (t, sym, problems, real) in fails[:50]:
        pend(ctx, {"text": t}, sym, {"text_hex": vlib.hexs(t), "oracle": problems, "actual": repr(real)})
    for t in ("a\r\n b\r", "\n\ta", "é\r\r\n"):
        r = real_providers(path, t)
        ctx.samples.append({"provider_text": t, "file_provider": {"lines": r["F"][1], "final_newline": r["F"][0], "at_end_flags": r["F"][2]},
                            "in_memory_provider": {"lines": r["M"][0], "at_end_flags": r["M"][1]}})
    return {"evaluations": len(texts), "distinct_nontrivial": nontrivial, "distribution": dist,
            "exhaustive": not ctx.quick(), "rule": "all strings over {a,space,LF,CR,TAB,e-acute} len<=6 (quick: all len<=4 + seeded sample of len 5-6) + fixed corpus; "
                                               "non-trivial = more than one line after translation"}


# ====================================================================== (a') spool vs model
class _Recorder:
    """Replaces file_scan_helper.FileSourceProvider to record the raw content of whatever file the scan reads."""
    seen = []


def install_recorder():
    import pymarkdown.file_scan_helper as fsh
    orig = fsh.FileSourceProvider

    class Rec(orig):
        def __init__(self, file_to_open):
            with open(file_to_open, "rb") as fh:
                raw = fh.read()
            super().__init__(file_to_open)
            _Recorder.seen.append((file_to_open, raw, list(getattr(self, "_FileSourceProvider__read_lines"))))
    fsh.FileSourceProvider = Rec
    return lambda: setattr(fsh, "FileSourceProvider", orig)


def run_cli(argv, stdin_bytes=None, cwd=None):
    """run_main with a real text-mode stdin (TextIOWrapper, universal newlines, utf-8), as in a process."""
    fresh_logging()
    old = sys.stdin
    try:
        if stdin_bytes is not None:
            sys.stdin = io.TextIOWrapper(io.BytesIO(stdin_bytes), encoding="utf-8")
        return vlib.run_main(argv, cwd=cwd)
    finally:
        sys.stdin = old
        fresh_logging()


def quiet_api(fn):
    """Call an API function with stdout/stderr captured; returns (result | None, exception | None, out, err)."""
    from pymarkdown.api import PyMarkdownApiException
    fresh_logging()
    out, err = io.StringIO(), io.StringIO()
    try:
        with contextlib.redirect_stdout(out), contextlib.redirect_stderr(err):
            return fn(), None, out.getvalue(), err.getvalue()
    except PyMarkdownApiException as e:
        return None, e, out.getvalue(), err.getvalue()
    finally:
        fresh_logging()


def spool_stage(ctx, ws, drv, model_ok):
    from pymarkdown.api import PyMarkdownApi
    n = 400 if ctx.quick() else 1500
    texts = ["", "a", "a\n", "a\r\nb\r\n", "a\rb", "a\r", "é \r\n\tb", "\n\r\n\r"]
    texts += ["".join(ctx.rng.choice(ALPHA) for _ in range(ctx.rng.randint(1, MAXLEN))) for _ in range(n)]
    texts = sorted(set(texts))
    undo = install_recorder()
    fails, evals, nontriv = [], 0, 0
    try:
        ans = [None] * len(texts)
        if model_ok:
            try:
                a1 = drv.run(["spool|lf|" + vlib.hexs(t) for t in texts])
                a2 = drv.run(["lines|" + vlib.hexs(t) for t in texts])
                ans = [(tuple(vlib.unhex(x) for x in s.split("|")), parse_lines_answer(l)["F"][1]) for s, l in zip(a1, a2)]
            except vlib.MachineryError as e:
                ctx.broken.append(f"driver spool: {e}")
        direct = os.path.join(ws, "direct.md")
        for t, a in zip(texts, ans):
            with open(direct, "wb") as fh:
                fh.write(t.encode("utf-8"))
            _Recorder.seen.clear()
            run_cli(["scan", direct])
            file_seen = list(_Recorder.seen)
            _Recorder.seen.clear()
            run_cli(["scan-stdin"], stdin_bytes=t.encode("utf-8"))
            stdin_seen = list(_Recorder.seen)
            str_seen = None
            if not api_rejects(t):
                _Recorder.seen.clear()
                quiet_api(lambda: PyMarkdownApi().scan_string(t))
                str_seen = list(_Recorder.seen)
            evals += 1
            nontriv += ("\n" in t or "\r" in t)
            problems = []
            if len(file_seen) != 1 or len(stdin_seen) != 1 or (str_seen is not None and len(str_seen) != 1):
                problems.append("a scan did not construct exactly one FileSourceProvider")
            else:
                want = file_seen[0][2]
                if stdin_seen[0][2] != want:
                    problems.append(f"stdin spool: reader sees {stdin_seen[0][2]!r}, direct file read sees {want!r}")
                if str_seen is not None and str_seen[0][2] != want:
                    problems.append(f"API string spool: reader sees {str_seen[0][2]!r}, direct file read sees {want!r}")
                sym = "spool-differs" if problems else None
                if a is not None:
                    (m_stdin, m_string), m_lines = a
                    if stdin_seen[0][1].decode("utf-8") != m_stdin:
                        problems.append(f"model spoolStdin {m_stdin!r} != temp file {stdin_seen[0][1]!r}")
                        ctx.broken.append("correspondence spoolStdin")
                    if str_seen is not None and str_seen[0][1].decode("utf-8") != m_string:
                        problems.append(f"model spoolString {m_string!r} != temp file {str_seen[0][1]!r}")
                        ctx.broken.append("correspondence spoolString")
                    if want != m_lines:
                        problems.append("model fspLines differs on the scanned file")
            if problems:
                fails.append((t, problems))
    finally:
        undo()
    for t, problems in fails[:20]:
        sym = "spool-differs" if any("spool:" in p for p in problems) else "spool-model-mismatch"
        pend(ctx, {"text": t}, sym, {"text_hex": vlib.hexs(t), "oracle": problems})
    return {"evaluations": evals, "distinct_nontrivial": nontriv}


# ====================================================================== (a'') API arguments vs model
def enc_list(xs):
    return "-" if not xs else ";".join(vlib.hexs(x) for x in xs)


def enc_opt(x):
    return "-" if x is None else vlib.hexs(x)


LEVELS = ["CRITICAL", "ERROR", "WARNING", "INFO", "DEBUG"]
ID_LISTS = [[], ["md002"], ["md002", "MD043"], ["line-length", " md047 "], ["a,b"], ["*"], ["Md009", "md010", "md012"]]
SET_LISTS = [[], ["plugins.md013.line_length=$#20"], ["plugins.md013.line_length=$#20", "plugins.md009.strict=$!True"]]


def cfg_space():
    for inh in (False, True):
        for lvl in ([None] + LEVELS if not inh else [None]):
            for lf in ((None, "l.log") if not inh else (None,)):
                for st in (False, True):
                    for strict in (False, True):
                        for plug in ([], ["p1.py"], ["p1.py", "dir/p2.py"]):
                            for cfg in (None, "c.json"):
                                for en in ID_LISTS:
                                    for dis in ID_LISTS:
                                        for sets in SET_LISTS:
                                            yield dict(inh=inh, lvl=lvl, lf=lf, st=st, strict=strict, plug=plug, cfg=cfg, en=en, dis=dis, sets=sets)


def build_api(c):
    from pymarkdown.api import PyMarkdownApi
    a = PyMarkdownApi(inherit_logging=c["inh"])
    if c["lvl"]:
        a.log(c["lvl"])
    if c["lf"]:
        a.log_to_file(c["lf"])
    if c["st"]:
        a.enable_stack_trace()
    if c["strict"]:
        a.enable_strict_configuration()
    for p in c["plug"]:
        a.add_plugin_path(p)
    if c["cfg"]:
        a.configuration_file_path(c["cfg"])
    for i in c["en"]:
        a.enable_rule_by_identifier(i)
    for i in c["dis"]:
        a.disable_rule_by_identifier(i)
    for s in c["sets"]:
        a.set_property(*s.split("=", 1))
    return a


def cfg_request(c, action):
    return "|".join(["args", "1" if c["inh"] else "0", vlib.hexs(c["lvl"] or "WARNING"), enc_opt(c["lf"]), "1" if c["st"] else "0",
                     "1" if c["strict"] else "0", enc_list(c["plug"]), enc_opt(c["cfg"]), enc_list(c["en"]), enc_list(c["dis"]),
                     enc_list(c["sets"]), vlib.hexs(action)])


def real_parse(argv):
    """The real argparse parser of main.py on argv -> canonical string in the driver's format."""
    from pymarkdown.main import PyMarkdownLint
    out, err = io.StringIO(), io.StringIO()
    try:
        with contextlib.redirect_stdout(out), contextlib.redirect_stderr(err):
            ns = PyMarkdownLint()._PyMarkdownLint__parse_arguments(direct_args=list(argv))
    except SystemExit:
        return "err"
    opt = lambda v: "-" if v is None else "=" + vlib.hexs(v)
    rest = []
    return "|".join(["ok", vlib.hexs(ns.enable_rules), vlib.hexs(ns.disable_rules), enc_list(ns.add_plugin or []), opt(ns.configuration_file),
                     enc_list(ns.set_configuration or []), "1" if ns.strict_configuration else "0", "1" if ns.show_stack_trace else "0",
                     "1" if ns.continue_on_error else "0", opt(ns.log_level), opt(ns.log_file), vlib.hexs(ns.primary_subparser)])


def _parse_worker(argvs):
    return [real_parse(a) for a in argvs]


def plugin_states(argv_prefix):
    """Run `<prefix> plugins list` through the real application; returns {plugin_id: (identifiers, default, enabled)}."""
    from pymarkdown.main import PyMarkdownLint
    fresh_logging()
    lint = PyMarkdownLint()
    out, err = io.StringIO(), io.StringIO()
    code = 0
    try:
        with contextlib.redirect_stdout(out), contextlib.redirect_stderr(err):
            lint.main(list(argv_prefix) + ["plugins", "list"])
    except SystemExit as e:
        code = e.code
    fresh_logging()
    pm = lint._PyMarkdownLint__plugins
    reg = getattr(pm, "_PluginManager__registered_plugins", [])
    enabled = {p.plugin_id for p in pm.enabled_plugins}
    return code, {p.plugin_id: (list(p.plugin_identifiers), bool(p.plugin_enabled_by_default), p.plugin_id in enabled) for p in reg}


def args_stage(ctx, drv, model_ok):
    space = list(cfg_space())
    total = len(space)
    if ctx.quick():
        space = ctx.rng.sample(space, 4000)
    fails, evals, dist = [], 0, {"inherit": 0, "with_enable": 0, "with_disable": 0, "with_config": 0, "with_sets": 0, "with_log_file": 0}
    reqs = [cfg_request(c, "scan") for c in space]
    ans = [None] * len(space)
    if model_ok:
        try:
            ans = [tuple(dec_list(x) for x in a.split("|")) for a in drv.run(reqs)]
        except vlib.MachineryError as e:
            ctx.broken.append(f"driver args: {e}")
    real_api_argvs, cli_argvs = [], []
    for c, a in zip(space, ans):
        api = build_api(c)
        real = api._PyMarkdownApi__build_common_arguments("scan")
        real_api_argvs.append(real)
        evals += 1
        for k, f in (("inherit", c["inh"]), ("with_enable", c["en"]), ("with_disable", c["dis"]), ("with_config", c["cfg"]), ("with_sets", c["sets"]), ("with_log_file", c["lf"])):
            dist[k] += bool(f)
        if a is not None:
            cli_argvs.append(a[1])
            if a[0] != real:
                fails.append((c, "api-args-model-mismatch", f"model apiArgs {a[0]} real {real}"))
                ctx.broken.append("correspondence apiArgs")
        else:
            cli_argvs.append(None)
    # real argparse vs parseArgs on both argv styles (distinct argvs only)
    argvs = sorted({tuple(a) + ("x.md",) for a in real_api_argvs} | {tuple(a) + ("x.md",) for a in cli_argvs if a is not None})
    # some argvs the model rejects, to tie the error side: missing value, option-like value, unknown option, bad level, no sub-command
    argvs += [("-e",), ("-e", "-d", "x", "scan"), ("--bogus", "scan"), ("--log-level", "LOUD", "scan"), ("-e", "md001"), (),
              ("--continue-on-error", "--config", "c", "fix", "-r", "x.md"), ("-s", "a.b=1", "-s", "a.c=2", "scan", "a", "b"),
              ("--stack-trace", "scan-stdin"), ("-d", "x", "-d", "y", "-e", "z", "scan-stdin")]
    if ctx.quick():
        keep = argvs[-10:]
        argvs = ctx.rng.sample(argvs[:-10], min(1500, len(argvs) - 10)) + keep
    chunks = [argvs[i::16] for i in range(16)]
    with multiprocessing.Pool(16) as pool:
        real_parsed = pool.map(_parse_worker, chunks)
    real_by = {a: r for ch, rs in zip(chunks, real_parsed) for a, r in zip(ch, rs)}
    parse_evals = 0
    if model_ok:
        try:
            model_parsed = drv.run(["parse|" + enc_list(list(a)) for a in argvs])
            for a, m in zip(argvs, model_parsed):
                parse_evals += 1
                r = real_by[a]
                m_cmp = "err" if m.startswith("err") else "|".join(m.split("|")[:-1])   # `rest` belongs to the sub-parser
                if m_cmp != r:
                    fails.append(({"argv": list(a)}, "parse-model-mismatch", f"model {m} real {r}"))
                    ctx.broken.append("correspondence parseArgs")
        except vlib.MachineryError as e:
            ctx.broken.append(f"driver parse: {e}")
    # rule enablement: real plug-in manager under API-style and CLI-style argv vs cmdLineState
    state_evals = 0
    code0, base = plugin_states([])
    pairs = [(e, d) for e in ID_LISTS for d in ID_LISTS]
    if ctx.quick():
        pairs = ctx.rng.sample(pairs, 20)
    for en, dis in pairs:
        api_v = (["--enable-rules", "".join("," + i for i in en)] if en else []) + (["--disable-rules", "".join("," + i for i in dis)] if dis else [])
        cli_v = (["-d", ",".join(dis)] if dis else []) + (["-e", ",".join(en)] if en else [])
        ca, sa = plugin_states(api_v)
        cc, sc = plugin_states(cli_v)
        state_evals += 1
        if (ca, sa) != (cc, sc):
            diff = {k: (sa.get(k), sc.get(k)) for k in set(sa) | set(sc) if sa.get(k) != sc.get(k)}
            fails.append(({"enable": en, "disable": dis}, "api-cli-selection-differs", f"API argv {api_v} vs CLI argv {cli_v}: {diff}"))
        if model_ok:
            for style, vals, states in (("api", api_v, sa), ("cli", cli_v, sc)):
                d = dict(zip(vals[0::2], vals[1::2]))
                ev = d.get("--enable-rules", d.get("-e", ""))
                dv = d.get("--disable-rules", d.get("-d", ""))
                ids = sorted(states)
                try:
                    res = drv.run([f"state|{enc_list(states[i][0])}|{vlib.hexs(ev)}|{vlib.hexs(dv)}" for i in ids])
                except vlib.MachineryError as e:
                    ctx.broken.append(f"driver state: {e}")
                    break
                for i, r in zip(ids, res):
                    want = {"none": base[i][2], "true": True, "false": False}[r]
                    if states[i][2] != want:
                        fails.append(({"enable": en, "disable": dis, "plugin": i, "style": style}, "selection-model-mismatch",
                                      f"model {r} (-> {want}) real {states[i][2]}"))
                        ctx.broken.append("correspondence cmdLineState")
    for case, sym, what in fails[:20]:
        pend(ctx, case if isinstance(case, dict) else dict(case), sym, {"oracle": what})
    return {"evaluations": evals, "space": total, "parse_evaluations": parse_evals, "selection_evaluations": state_evals, "distribution": dist}


# ====================================================================== (b) documents and selections
BASE_DOCS = [
    ("clean", "# Title\n\nText.\n"),
    ("no-md041", "Text\n"),
    ("md009", "# T\n\nline with trailing space \nmore   \n"),
    ("md009-br", "# T\n\nhard break  \nnext\n"),
    ("md010", "# T\n\ntext\twith\ttabs\n\n\tindented by tab\n"),
    ("md012", "# T\n\n\n\nText\n\n\n"),
    ("md013", "# T\n\n" + "word " * 30 + "end\n"),
    ("md001", "# T\n\n### Skip\n"),
    ("md003", "# T\n\nSetext\n------\n\n## Closed ##\n"),
    ("md004", "# T\n\n* a\n+ b\n- c\n"),
    ("md005-007", "# T\n\n- a\n   - b\n  - c\n"),
    ("md018-021", "#T\n\n#  U\n\n#V#\n\n##  W  ##\n"),
    ("md022-023", "text\n# T\n  ## Indented\nmore\n"),
    ("md024-026", "# A.\n\n## x\n\n## x\n\n# B\n"),
    ("md027-028", "# T\n\n>  a\n\n> b\n"),
    ("md029-030", "# T\n\n1. a\n1. b\n3. c\n\n-  wide\n"),
    ("md031-040", "# T\ntext\n```\ncode\n```\ntext\n"),
    ("md032", "# T\n\ntext\n- a\n- b\ntext\n"),
    ("md033-034", "# T\n\n<b>x</b> and http://example.com here\n"),
    ("md035", "# T\n\n---\n\n***\n"),
    ("md036", "**Heading**\n\ntext\n"),
    ("md037-039", "# T\n\n** bold ** and ` code ` and [ link ](http://x)\n"),
    ("md042-045", "# T\n\n[empty]() and ![](img.png)\n"),
    ("md046-048", "# T\n\n    indented\n\n```text\nfenced\n```\n\n~~~text\ntilde\n~~~\n"),
    ("md044", "# T\n\nsome text\n"),
    ("md043", "# T\n\n## Other\n"),
    ("nonascii", "# Ünïcödé\n\nзаголовок 日本語 \U0001f389 \n\té\n"),
    ("nonascii-cols", "# T\n\n日本語 <b>é</b> http://é.example \n"),
    ("pragma-ok", "<!-- pyml disable-next-line md041-->\ntext \n"),
    ("pragma-bad", "# T\n\n<!-- pyml bogus-command md041-->\ntext\n"),
    ("pragma-block", "# T\n\n<!-- pyml disable md009-->\ntext \n<!-- pyml enable md009-->\ntext \n"),
    ("nested", "# T\n\n> - a\n>   b \n>\n> 1. c\n\n- > q\n"),
    ("table-ish", "# T\n\n| a | b |\n|---|---|\n| 1 | 2 |\n"),
    ("html-block", "# T\n\n<div>\n\ttab inside \n</div>\n"),
    ("link-ref", "# T\n\n[a][b] text\n\n[b]: http://x \"t\"\n"),
    ("multi", "Intro \n\n\n#T\n\ttab\n* a\n+ b\n<b>x</b>\n" + "w" * 90),
    ("ff", "# a\x0c\nb\x0bc\n"),
    ("c1-seps", "# T\n\na\x85b \n\nc\u2028d\u2029e\x1cf\x1dg\x1eh\n"),
    ("bom", "\ufeff# T\n\ntext\n"),
    ("nbsp-line", "# T\n\n\u00a0\n\ntext\n"),
    ("zwsp-only", "\u200b"),
    ("one-char", "a"),
    ("dot", "."),
    ("hash-in-blank", "\n#\n"),
    ("blank-then-dash", " \n-\n"),
    ("only-heading", "# T"),
    ("emphasis-mix", "# T\n\n*a* **b** _c_ __d__ `e` \\* <http://x.y>\n"),
    ("tabs-in-list", "# T\n\n-\ta\n-\tb\n\n1.\tc\n"),
    ("tab-after-wide", "# T\n\n日本\t語 \n"),
    ("fence-with-tabs", "# T\n\n```text\n\tcode \n```\n"),
    ("indented-code-trailing", "# T\n\n    code   \n\ntext\n"),
    ("long-heading", "# " + "H" * 90 + "\n"),
    ("many-blank-end", "# T\n\ntext\n\n\n\n"),
    ("setext-h1", "Title\n=====\n\ntext\n"),
    ("entity-nbsp", "# T\n\na&nbsp;b &amp; c\u00a0d \n"),
    ("front-matter-like", "---\ntitle: x\n---\n\n# T\n"),
    ("hr-then-text", "# T\n\n___\ntext\n"),
    ("quote-tab", "# T\n\n>\ta \n> b\n"),
    ("tab-only-then-x", "\t\nx"),
    # rejected by the API by documentation (compared on file / stdin / scan_path only)
    ("EMPTY", ""),
    ("WS-nl", "\n"),
    ("WS-space", " "),
    ("WS-mix", "\t\n \n"),
    ("WS-ff", "\x0c"),
    ("WS-ls", "\u2028\n"),
]

VARIANTS = ["lf", "crlf", "cr", "nofinal", "crlf-nofinal", "mixed", "final-cr"]


def variant(doc, v):
    if v == "lf":
        return doc
    if v == "crlf":
        return doc.replace("\n", "\r\n")
    if v == "cr":
        return doc.replace("\n", "\r")
    if v == "nofinal":
        return doc[:-1] if doc.endswith("\n") else doc
    if v == "crlf-nofinal":
        d = doc[:-1] if doc.endswith("\n") else doc
        return d.replace("\n", "\r\n")
    if v == "mixed":
        out, k = [], 0
        for ch in doc:
            if ch == "\n":
                out.append(["\r\n", "\n", "\r"][k % 3]); k += 1
            else:
                out.append(ch)
        return "".join(out)
    if v == "final-cr":
        return (doc[:-1] + "\r") if doc.endswith("\n") else doc + "\r"
    raise ValueError(v)


def doc_pool():
    """[(name, variant, text)] — distinct texts only."""
    seen, out = set(), []
    for name, d in BASE_DOCS:
        for v in VARIANTS:
            t = variant(d, v)
            if t not in seen:
                seen.add(t)
                out.append((name, v, t))
    return out


CFG_JSON = json.dumps({"plugins": {"md013": {"line_length": 20}, "md041": {"enabled": False}, "md009": {"strict": True},
                                   "md044": {"names": "Text"}}})
CFG_YAML = "plugins:\n  md013:\n    line_length: 25\n  md047:\n    enabled: false\n  md002:\n    enabled: true\n"

# rule selections expressible both ways: CLI prefix (user-guide form) / API calls
SELECTIONS = [
    dict(name="default", cli=[], api=[]),
    dict(name="disable-list", cli=["-d", "md041,md047"], api=[("disable", "md041"), ("disable", "md047")]),
    dict(name="enable-list", cli=["-e", "md002,pml101"], api=[("enable", "md002"), ("enable", "pml101")]),
    dict(name="names-case-space", cli=["-d", "Line-Length, MD009", "-e", "First-Heading-H1"],
         api=[("disable", "Line-Length"), ("disable", " MD009"), ("enable", "First-Heading-H1")]),
    dict(name="disable-all-but", cli=["--disable-rules", "*", "--enable-rules", "md009"], api=[("disable", "*"), ("enable", "md009")]),
    dict(name="config-json", cli=["--config", "{ws}/cfg.json"], api=[("config", "{ws}/cfg.json")], files={"cfg.json": CFG_JSON}),
    dict(name="config-yaml", cli=["-c", "{ws}/cfg.yaml"], api=[("config", "{ws}/cfg.yaml")], files={"cfg.yaml": CFG_YAML}),
    dict(name="set-typed", cli=["--set", "plugins.md013.line_length=$#20", "-s", "plugins.md009.strict=$!True", "--set", "plugins.md003.style=$$atx"],
         api=[("set_int", "plugins.md013.line_length", 20), ("set_bool", "plugins.md009.strict", True), ("set_str", "plugins.md003.style", "atx")]),
    dict(name="set-untyped", cli=["--set", "plugins.md013.line_length=20", "--set", "plugins.md041.enabled=false"],
         api=[("set", "plugins.md013.line_length", 20), ("set", "plugins.md041.enabled", "false")]),
    dict(name="strict-ok", cli=["--strict-config", "--set", "plugins.md013.line_length=$#30"], api=[("strict",), ("set_int", "plugins.md013.line_length", 30)]),
    dict(name="strict-bad", cli=["--strict-config", "--set", "plugins.md013.line_length=$$x"], api=[("strict",), ("set_str", "plugins.md013.line_length", "x")]),
    dict(name="config+disable+set", cli=["-c", "{ws}/cfg.json", "-d", "md012", "-s", "plugins.md010.code_blocks=$!False"],
         api=[("config", "{ws}/cfg.json"), ("disable", "md012"), ("set_bool", "plugins.md010.code_blocks", False)], files={"cfg.json": CFG_JSON}),
]


def make_api(sel, ws, extra=()):
    from pymarkdown.api import PyMarkdownApi
    a = PyMarkdownApi()
    for step in list(sel["api"]) + list(extra):
        k = step[0]
        if k == "disable": a.disable_rule_by_identifier(step[1])
        elif k == "enable": a.enable_rule_by_identifier(step[1])
        elif k == "config": a.configuration_file_path(step[1].replace("{ws}", ws))
        elif k == "set_int": a.set_integer_property(step[1], step[2])
        elif k == "set_bool": a.set_boolean_property(step[1], step[2])
        elif k == "set_str": a.set_string_property(step[1], step[2])
        elif k == "set": a.set_property(step[1], step[2])
        elif k == "strict": a.enable_strict_configuration()
        elif k == "log": a.log(step[1])
        elif k == "log_file": a.log_to_file(step[1])
        elif k == "stack": a.enable_stack_trace()
        else: raise ValueError(k)
    return a


def cli_prefix(sel, ws):
    return [x.replace("{ws}", ws) for x in sel["cli"]]


def fmt_failure(f):
    """The line MainPresentation prints for a failure, without the file name."""
    return f"{f.line_number}:{f.column_number}: {f.rule_id}: {f.rule_description}{f.extra_error_information or ''} ({f.rule_name})"


def split_cli(out, err, fname):
    """stdout/stderr of a CLI scan -> (failure lines without file name, pragma lines, other stdout, other stderr)."""
    pre = fname + ":"
    fails, other = [], []
    for l in out.split("\n"):
        if l.startswith(pre) and re.match(r"\d+:\d+: ", l[len(pre):]):
            fails.append(l[len(pre):])
        elif l:
            other.append(l)
    prag, oerr = [], []
    for l in err.split("\n"):
        if l.startswith(pre) and re.match(r"\d+:1: INLINE: ", l[len(pre):]):
            prag.append(l[len(pre):])
        elif l:
            oerr.append(l)
    return fails, prag, other, oerr


def api_scan_result(res, exc, fname):
    if exc is not None:
        return {"error": exc.reason.replace(fname, "<F>")}
    return {"failures": [fmt_failure(f) for f in res.scan_failures],
            "tuples": [(f.line_number, f.column_number, f.rule_id, f.rule_name, f.rule_description, f.extra_error_information) for f in res.scan_failures],
            "files": sorted({f.scan_file for f in res.scan_failures} | {p.file_path for p in res.pragma_errors}),
            "pragmas": [f"{p.line_number}:1: INLINE: {p.pragma_error}" for p in res.pragma_errors]}


def cli_scan_result(code, out, err, fname):
    fails, prag, other, oerr = split_cli(out, err, fname)
    if other or oerr:
        return {"error": "\n".join(oerr).replace(fname, "<F>"), "stdout_other": other, "code": code, "failures": fails, "pragmas": prag}
    return {"failures": fails, "pragmas": prag, "code": code}


DECOY = ("<!-- pyml disable-num-lines 60 md001,md003,md004,md005,md007,md009,md010,md012,md013,md018,md019,md022,md023,md025,md026,md027,"
         "md029,md030,md031,md032,md033,md034,md036,md037,md038,md039,md040,md041,md042,md045,md046,md047,md048-->\n# decoy\n\ntext\n"
         "<!-- pyml disable-next-line md009-->\nmore \n")


def four_way(doc, sel, ws):
    """All entry points on one (document, selection). Returns (results dict, list of problems)."""
    for n, c in (sel.get("files") or {}).items():
        implib.write(os.path.join(ws, n), c)
    pre = cli_prefix(sel, ws)
    raw = doc.encode("utf-8")
    p = os.path.join(ws, "doc.md")
    implib.write(p, raw)
    R = {}
    R["file"] = cli_scan_result(*run_cli(pre + ["scan", p]), p)
    R["stdin"] = cli_scan_result(*run_cli(pre + ["scan-stdin"], stdin_bytes=raw), "stdin")
    r, e, _, _ = quiet_api(lambda: make_api(sel, ws).scan_path(p))
    R["scan_path"] = api_scan_result(r, e, p)
    if implib.read_bytes(p) != raw:
        R["scan_modified_file"] = True
    # the same document reached through a DIRECTORY argument that also holds another file (processed first) whose pragmas name
    # the common rules for its first 60 lines: what the API reports for doc.md must be what it reports for doc.md alone
    dd = os.path.join(ws, "dir")
    os.makedirs(dd, exist_ok=True)
    implib.write(os.path.join(dd, "0decoy.md"), DECOY.encode("utf-8"))
    pd = implib.write(os.path.join(dd, "doc.md"), raw)
    r, e, _, _ = quiet_api(lambda: make_api(sel, ws).scan_path(dd))
    if e is None and r is not None:
        R["scan_dir"] = {"failures": [fmt_failure(f) for f in r.scan_failures if os.path.basename(f.scan_file) == "doc.md"],
                         "pragmas": [f"{x.line_number}:1: INLINE: {x.pragma_error}" for x in r.pragma_errors if os.path.basename(x.file_path) == "doc.md"]}
    if not api_rejects(doc):
        r, e, _, _ = quiet_api(lambda: make_api(sel, ws).scan_string(doc))
        R["scan_string"] = api_scan_result(r, e, "in-memory")
    else:
        r, e, _, _ = quiet_api(lambda: make_api(sel, ws).scan_string(doc))
        R["scan_string_rejected"] = type(e).__name__ if e is not None else "accepted"
    # ---- fix: in place (CLI), fix_path (API), fix_string (API)
    p1 = implib.write(os.path.join(ws, "fix1.md"), raw)
    code, out, err = run_cli(pre + ["fix", p1])
    R["fix_cli"] = {"code": code, "text": implib.read_bytes(p1).decode("utf-8"), "fixed": out.strip() == "Fixed: " + p1,
                    "error": err.strip().replace(p1, "<F>")}
    p2 = implib.write(os.path.join(ws, "fix2.md"), raw)
    r, e, _, _ = quiet_api(lambda: make_api(sel, ws).fix_path(p2))
    R["fix_path"] = {"text": implib.read_bytes(p2).decode("utf-8"), "fixed": bool(r.files_fixed) if r else None,
                     "error": e.reason.replace(p2, "<F>") if e else ""}
    if not api_rejects(doc):
        r, e, _, _ = quiet_api(lambda: make_api(sel, ws).fix_string(doc))
        R["fix_string"] = {"text": r.fixed_file if r else None, "fixed": r.was_fixed if r else None, "error": re.sub(r"/\S+\.md", "<F>", e.reason) if e else ""}
    return R, compare_four(doc, R)


def _norm_err(s):
    return re.sub(r"\s+", " ", s or "").strip()


def compare_four(doc, R):
    """The property's statement on the implementation's outputs. -> [(symptom, text)]"""
    P = []
    f = R["file"]
    for other in ("stdin", "scan_path", "scan_string"):
        o = R.get(other)
        if o is None:
            continue
        if ("error" in f) != ("error" in o):
            P.append(("scan-differs", f"file scan {'fails' if 'error' in f else 'succeeds'} but {other} {'fails' if 'error' in o else 'succeeds'}: {f.get('error')!r} / {o.get('error')!r}"))
            continue
        if "error" in f:
            # error text may legitimately name the file; compare the rest
            fa, oa = _norm_err(f["error"]).replace("<F>", ""), _norm_err(o["error"]).replace("<F>", "")
            if fa != oa:
                P.append(("scan-error-differs", f"file: {f['error']!r}  {other}: {o['error']!r}"))
            continue
        if f["failures"] != o["failures"]:
            P.append(("scan-differs", f"failures differ: file {f['failures']} vs {other} {o['failures']}"))
        if f["pragmas"] != o["pragmas"]:
            P.append(("scan-differs", f"pragma errors differ: file {f['pragmas']} vs {other} {o['pragmas']}"))
        if "code" in o and o["code"] != f["code"]:
            P.append(("scan-differs", f"exit code differs: file {f['code']} vs {other} {o['code']}"))
    sd, sp = R.get("scan_dir"), R.get("scan_path")
    if sd and sp and "error" not in sp and (sd["failures"], sd["pragmas"]) != (sp["failures"], sp["pragmas"]):
        P.append(("scan-differs", f"scan_path(file) {sp['failures']} {sp['pragmas']} vs scan_path(directory with another file) {sd['failures']} {sd['pragmas']}"))
    a, b = R.get("scan_path"), R.get("scan_string")
    if a and b and "tuples" in a and "tuples" in b and a["tuples"] != b["tuples"]:
        P.append(("scan-differs", f"scan_path tuples {a['tuples']} != scan_string tuples {b['tuples']}"))
    if b and "files" in b and b["files"] not in ([], ["in-memory"]):
        P.append(("scan-differs", f"scan_string reports file names {b['files']}"))
    if R.get("scan_modified_file"):
        P.append(("scan-modified-file", "a scan changed the scanned file"))
    if R.get("scan_string_rejected") == "accepted":
        P.append(("api-accepts-blank", "the API accepted a whitespace-only string (documented as rejected)"))
    # ---- fix
    c, fp, fs = R["fix_cli"], R["fix_path"], R.get("fix_string")
    if (c["text"], c["fixed"], bool(c["error"])) != (fp["text"], bool(fp["fixed"]), bool(fp["error"])):
        P.append(("fix-differs", f"fix in place {c} vs fix_path {fp}"))
    if fs is not None:
        if bool(c["error"]) != bool(fs["error"]):
            P.append(("fix-differs", f"fix in place error {c['error']!r} vs fix_string error {fs['error']!r}"))
        elif not c["error"]:
            if fs["fixed"] != c["fixed"]:
                P.append(("fix-differs", f"fix in place fixed={c['fixed']} vs fix_string was_fixed={fs['fixed']}"))
            if fs["text"] != c["text"]:
                if univ(c["text"]) == fs["text"] and "\r" in doc and not c["fixed"] and c["text"] == doc:
                    P.append(("fix-string-newlines", f"fix_string returns {fs['text']!r} (was_fixed=False) for the unchanged document {doc!r}; in place the file keeps its line ends"))
                else:
                    P.append(("fix-differs", f"fixed text: in place {c['text']!r} vs fix_string {fs['text']!r}"))
    return P


def _four_worker(task):
    idx, doc, sel_i = task
    fresh_logging()
    with implib.workspace() as ws:
        try:
            R, P = four_way(doc, SELECTIONS[sel_i], ws)
        except Exception as e:   # the harness must not die on one case
            import traceback
            return idx, None, [("harness-exception", traceback.format_exc()[-800:])]
    return idx, R, P


def real_stdin_subprocess(doc, prefix, ws, env_extra=None):
    env = dict(os.environ)
    env["PYTHONPATH"] = vlib.REPO + os.pathsep + env.get("PYTHONPATH", "")
    env.setdefault("PYTHONIOENCODING", "")
    env.pop("PYTHONIOENCODING")
    if env_extra:
        env.update(env_extra)
    p = subprocess.run([PY, "-m", "pymarkdown"] + prefix + ["scan-stdin"], input=doc.encode("utf-8"), capture_output=True, cwd=ws, env=env, timeout=120)
    return p.returncode, p.stdout.decode("utf-8", "replace"), p.stderr.decode("utf-8", "replace")


def _sub_worker(task):
    doc, sel_i = task
    sel = SELECTIONS[sel_i]
    with implib.workspace() as ws:
        for n, c in (sel.get("files") or {}).items():
            implib.write(os.path.join(ws, n), c)
        pre = cli_prefix(sel, ws)
        p = implib.write(os.path.join(ws, "doc.md"), doc.encode("utf-8"))
        f = cli_scan_result(*run_cli(pre + ["scan", p]), p)
        s = cli_scan_result(*real_stdin_subprocess(doc, pre, ws), "stdin")
    P = []
    if ("error" in f) != ("error" in s):
        P.append(("scan-differs", f"file scan vs real `python -m pymarkdown scan-stdin`: {f} / {s}"))
    elif "error" not in f and (f["failures"], f["pragmas"], f["code"]) != (s["failures"], s["pragmas"], s["code"]):
        P.append(("scan-differs", f"file scan {f} vs real `python -m pymarkdown scan-stdin` {s}"))
    return doc, sel_i, P


LOCALE_SCRIPT = r"""
import sys, os, tempfile
from pymarkdown.api import PyMarkdownApi, PyMarkdownApiException
doc = sys.argv[1].encode('ascii').decode('unicode_escape')
d = tempfile.mkdtemp()
p = os.path.join(d, 'doc.md')
open(p, 'wb').write(doc.encode('utf-8'))
def show(fn):
    try:
        r = fn()
        return ascii([(f.line_number, f.column_number, f.rule_id) for f in r.scan_failures])
    except PyMarkdownApiException as e:
        return 'EXC ' + ascii(e.reason.replace(p, '<F>'))[:160]
sys.stderr = open(os.devnull, 'w')
a = show(lambda: PyMarkdownApi().log_critical_and_above().scan_path(p))
b = show(lambda: PyMarkdownApi().log_critical_and_above().scan_string(doc))
sys.stdout.write(a + '\n' + b + '\n')
"""


def locale_stage(ctx, ws):
    """scan_string vs scan_path in a process whose locale encoding is not UTF-8."""
    docs = ["# T\n\ntext\n", "# T\n\né x \n"]
    env = dict(os.environ)
    env.update({"LC_ALL": "C", "LANG": "C", "PYTHONCOERCECLOCALE": "0", "PYTHONUTF8": "0", "PYTHONPATH": vlib.REPO})
    n = 0
    for d in docs:
        esc = d.encode("unicode_escape").decode("ascii")
        p = subprocess.run([PY, "-c", LOCALE_SCRIPT, esc], capture_output=True, env=env, cwd=ws, timeout=120)
        lines = p.stdout.decode("ascii", "replace").strip().split("\n")
        n += 1
        if p.returncode != 0 or len(lines) != 2:
            raise vlib.MachineryError("locale probe failed: " + p.stderr.decode("ascii", "replace")[-300:])
        if lines[0] != lines[1]:
            nonascii = any(ord(c) > 127 for c in d)
            pend(ctx, {"locale": "C (ascii)", "non_ascii": nonascii, "entry": "scan_string"},
                       "scan-string-locale", {"document": d, "scan_path": lines[0], "scan_string": lines[1],
                                              "oracle": "scan_string and scan_path of the same document differ in a process with LC_ALL=C, PYTHONUTF8=0, PYTHONCOERCECLOCALE=0"})
    return n


# ====================================================================== (c) diagnostics are inert
def log_combos():
    for lvl in [None] + LEVELS:
        for st in (False, True):
            for lf in (False, True):
                yield (lvl, st, lf)


LOG_SELS = ["default", "strict-bad", "config+disable+set"]     # diagnostics must be inert under every selection, incl. one strict mode rejects


# a document full of the characters the logging layers give a meaning to: ParserLogger's `$` place-holder, the standard library's
# %-style and {}-style formats (a log call that interpolates document text into its FORMAT string fails only at a verbose level)
FMT_DOC = "# Cost $1\n\nTotal: $5, 100% {sure} %s %d %(x)s {0} $ $$ today. \n\n* a $\n+ b %\n"


def _log_worker(task):
    doc, combo, mode, sel_name = task
    lvl, st, lf = combo
    sel = next(x for x in SELECTIONS if x["name"] == sel_name)
    fresh_logging()
    with implib.workspace() as ws:
        for fn, content in sel.get("files", {}).items():
            implib.write(os.path.join(ws, fn), content)
        logp = os.path.join(ws, "run.log")
        opts = (["--stack-trace"] if st else []) + (["--log-level", lvl] if lvl else []) + (["--log-file", logp] if lf else []) + cli_prefix(sel, ws)
        api_extra = ([("stack",)] if st else []) + ([("log", lvl)] if lvl else []) + ([("log_file", logp)] if lf else [])
        raw = doc.encode("utf-8")
        p = implib.write(os.path.join(ws, "doc.md"), raw)
        before = implib.tree_snapshot(ws)
        if mode == "scan":
            code, out, err = run_cli(opts + ["scan", p])
            fails, prag, other, oerr = split_cli(out, err, p)
            obs = {"code": code, "failures": fails, "pragmas": prag}
        elif mode == "stdin":
            code, out, err = run_cli(opts + ["scan-stdin"], stdin_bytes=raw)
            fails, prag, other, oerr = split_cli(out, err, "stdin")
            obs = {"code": code, "failures": fails, "pragmas": prag}
        elif mode == "fix":
            code, out, err = run_cli(opts + ["fix", p])
            obs = {"code": code, "fixed_msgs": [l.replace(p, "<F>") for l in out.split("\n") if l.startswith("Fixed: ")], "text": implib.read_bytes(p).decode("utf-8")}
        elif mode == "api_scan":
            r, e, _, _ = quiet_api(lambda: make_api(sel, ws, api_extra).scan_string(doc))
            obs = api_scan_result(r, e, "in-memory")
            if isinstance(obs.get("error"), str):      # the stack trace appended to the reason is the diagnostic itself
                obs["error"] = obs["error"].split("\nTraceback (most recent call last)")[0].strip()
        elif mode == "api_fix":
            r, e, _, _ = quiet_api(lambda: make_api(sel, ws, api_extra).fix_string(doc))
            obs = {"text": r.fixed_file if r else None, "fixed": r.was_fixed if r else None, "error": bool(e)}
        after = implib.tree_snapshot(ws)
        changed = sorted(k for k in set(before) | set(after) if before.get(k) != after.get(k))
        allowed = {"run.log"} | ({"doc.md"} if mode == "fix" else set())
        obs["other_files_changed"] = [k for k in changed if k not in allowed]
        log_written = os.path.exists(logp) and os.path.getsize(logp) > 0
    return doc, combo, mode, obs, log_written, sel_name


def log_stage(ctx):
    docs = ["# T\n\nText.\n", "Intro \n\n\n#T\n\ttab\n* a\n+ b\n", "# T\r\n\r\né text \r\n", "<!-- pyml bogus md041-->\ntext", "# T\n\n1. a\n1. b\n3. c\n", FMT_DOC]
    modes = ["scan", "stdin", "fix", "api_scan", "api_fix"]
    combos = list(log_combos())
    tasks = [(d, c, m, "default") for d in docs for m in modes for c in combos]
    tasks += [(d, c, m, sn) for d in docs[:2] for m in modes for c in combos for sn in LOG_SELS[1:]]
    total = len(tasks)
    if ctx.quick():
        base = [t for t in tasks if t[1] == (None, False, False)]
        rest = [t for t in tasks if t[1] != (None, False, False)]
        # every (mode, selection) with the stack trace alone is always included: the one diagnostic switch that is assembled
        # next to the non-diagnostic ones in the API
        fixed = [t for t in rest if t[1] == (None, True, False) and t[0] == docs[1]]
        fixed += [t for t in rest if t[0] == FMT_DOC and t[1][0] in ("DEBUG", "INFO") and not t[1][1] and not t[1][2] and t[3] == "default"]
        tasks = base + fixed + ctx.rng.sample([t for t in rest if t not in fixed], 250)
    with multiprocessing.Pool(16) as pool:
        res = pool.map(_log_worker, tasks, chunksize=4)
    baseline = {(d, m, sn): obs for d, c, m, obs, _, sn in res if c == (None, False, False)}
    fails, logs_written, dist = [], 0, {}
    for d, c, m, obs, lw, sn in res:
        logs_written += lw
        dist[m] = dist.get(m, 0) + 1
        dist["selection " + sn] = dist.get("selection " + sn, 0) + 1
        b = baseline[(d, m, sn)]
        if obs != b:
            fails.append(({"document": d, "mode": m, "log_level": c[0], "stack_trace": c[1], "log_file": c[2], "selection": sn}, f"with diagnostics: {obs}; without: {b}"))
        if c[2] and c[0] in ("DEBUG", "INFO") and not lw and sn != "strict-bad":
            fails.append(({"document": d, "mode": m, "log_level": c[0], "stack_trace": c[1], "log_file": c[2], "selection": sn}, "log file requested at a verbose level but nothing was written (option not effective: vacuous comparison)"))
    for case, what in fails[:10]:
        pend(ctx, case, "diagnostics-not-inert", {"oracle": what})
    # a few real processes: stdout must be exactly the failures when logging goes to a file
    sub = 0
    with implib.workspace() as ws:
        doc = docs[1]
        p = implib.write(os.path.join(ws, "doc.md"), doc.encode("utf-8"))
        env = dict(os.environ); env["PYTHONPATH"] = vlib.REPO
        outs = []
        combos_sub = [[], ["--log-level", "DEBUG", "--log-file", os.path.join(ws, "x.log")], ["--stack-trace", "--log-level", "INFO", "--log-file", os.path.join(ws, "y.log")],
                      ["--stack-trace"]]
        for o in combos_sub if not ctx.quick() else combos_sub[:3]:
            q = subprocess.run([PY, "-m", "pymarkdown"] + o + ["scan", "doc.md"], capture_output=True, cwd=ws, env=env, timeout=120)
            f, _, other, _ = split_cli(q.stdout.decode(), q.stderr.decode(), "doc.md")
            outs.append((o, q.returncode, f))
            sub += 1
        for o, code, f in outs[1:]:
            if (code, f) != (outs[0][1], outs[0][2]):
                pend(ctx, {"argv": [x.replace(ws, "<ws>") for x in o], "mode": "subprocess"}, "diagnostics-not-inert", {"oracle": f"{(code, f)} vs {outs[0][1:]}"})
    return {"evaluations": len(res), "space": total, "subprocess_runs": sub, "log_files_written": logs_written, "distribution": dist}


# ====================================================================== driver of the check
def diff_stage(ctx):
    pool_docs = doc_pool()
    full = [(d, si) for d in range(len(pool_docs)) for si in range(len(SELECTIONS))]
    if ctx.quick():
        chosen = [(d, 0) for d in range(len(pool_docs)) if pool_docs[d][1] == "lf"]
        rest = [x for x in full if x not in set(chosen)]
        chosen += ctx.rng.sample(rest, 900)
    else:
        chosen = full
    tasks = [(i, pool_docs[d][2], si) for i, (d, si) in enumerate(chosen)]
    with multiprocessing.Pool(16) as pool:
        res = pool.map(_four_worker, tasks, chunksize=4)
    byidx = {i: (R, P) for i, R, P in res}
    dist = {"variant": {}, "selection": {}, "with_failures": 0, "with_fix": 0, "api_excluded_blank": 0, "errors_both": 0, "non_ascii": 0, "rules_seen": {}}
    nontrivial = 0
    absorbed_docs = []
    for i, (d, si) in enumerate(chosen):
        name, v, text = pool_docs[d]
        R, P = byidx[i]
        dist["variant"][v] = dist["variant"].get(v, 0) + 1
        dist["selection"][SELECTIONS[si]["name"]] = dist["selection"].get(SELECTIONS[si]["name"], 0) + 1
        if R:
            fl = R["file"].get("failures", [])
            dist["with_failures"] += bool(fl)
            for l in fl:
                m = re.match(r"\d+:\d+: (\w+):", l)
                if m:
                    dist["rules_seen"][m.group(1)] = dist["rules_seen"].get(m.group(1), 0) + 1
            dist["with_fix"] += bool(R["fix_cli"]["fixed"])
            dist["api_excluded_blank"] += "scan_string_rejected" in R
            dist["errors_both"] += "error" in R["file"]
            dist["non_ascii"] += any(ord(c) > 127 for c in text)
            nontrivial += bool(fl) or bool(R["fix_cli"]["fixed"])
        for sym, what in P:
            case = {"document": text, "selection": SELECTIONS[si]["name"]}
            if sym == "fix-string-newlines":
                case = {"footprint": "fix_string-universal-newlines", "entry": "fix_string"}
                absorbed_docs.append(text)
            pend(ctx, case, sym, {"document": text, "document_hex": vlib.hexs(text), "selection": SELECTIONS[si]["name"], "doc_name": f"{name}/{v}", "oracle": what,
                                   "results": R})
    # metamorphic oracle (from fsp_eq_split): documents equal up to universal-newline translation scan equal
    groups = {}
    for i, (d, si) in enumerate(chosen):
        R = byidx[i][0]
        if R:
            groups.setdefault((univ(pool_docs[d][2]), si), []).append((pool_docs[d][2], R["file"]))
    meta = 0
    for (u, si), items in groups.items():
        for t, r in items[1:]:
            meta += 1
            if (r.get("failures"), r.get("pragmas"), r.get("code")) != (items[0][1].get("failures"), items[0][1].get("pragmas"), items[0][1].get("code")):
                pend(ctx, {"document": t, "other": items[0][0], "selection": SELECTIONS[si]["name"]}, "newline-style-changes-result",
                           {"oracle": f"{t!r} -> {r}; {items[0][0]!r} -> {items[0][1]}"})
    # real processes for the stdin path
    subs = [(pool_docs[d][2], si) for (d, si) in chosen if si in (0, 1, 5)]
    subs = ctx.rng.sample(subs, 16) if ctx.quick() else [x for x in subs if x[1] == 0] + ctx.rng.sample([x for x in subs if x[1] != 0], 40)
    with multiprocessing.Pool(16) as pool:
        sres = pool.map(_sub_worker, subs)
    for doc, si, P in sres:
        for sym, what in P:
            pend(ctx, {"document": doc, "selection": SELECTIONS[si]["name"], "entry": "subprocess-stdin"}, sym, {"oracle": what, "document_hex": vlib.hexs(doc)})
    shown = 0
    for i, (d, si) in enumerate(chosen):
        R = byidx[i][0]
        if R and R["file"].get("failures") and "\r" in pool_docs[d][2] and shown < 2:
            shown += 1
            ctx.samples.append({"document": pool_docs[d][2], "selection": SELECTIONS[si]["name"],
                                "scan": {k: R[k].get("failures", R[k].get("error")) for k in ("file", "stdin", "scan_path", "scan_string") if k in R},
                                "fix": {k: R[k].get("text") for k in ("fix_cli", "fix_path", "fix_string") if k in R}})
    return {"evaluations": len(chosen), "space": len(full), "documents": len(pool_docs), "base_documents": len(BASE_DOCS), "selections": len(SELECTIONS),
            "distinct_nontrivial": nontrivial, "metamorphic_pairs": meta, "subprocess_stdin_runs": len(subs),
            "fix_string_newline_finding_docs": len(absorbed_docs), "distribution": dist, "exhaustive": not ctx.quick()}


def run(ctx):
    ctx.level = "proof"
    ctx.lean_stage([], ["Verif.Props.C16"])
    model_ok = ctx.lean.get("build_ok", False) and os.path.exists(vlib.DRV)
    drv = vlib.Driver("lines")
    t0 = time.time()
    with implib.workspace() as ws:
        prov = providers_stage(ctx, ws, drv, model_ok)
        t1 = time.time()
        spool = spool_stage(ctx, ws, drv, model_ok)
        t2 = time.time()
        args = args_stage(ctx, drv, model_ok)
        t3 = time.time()
        diff = diff_stage(ctx)
        t4 = time.time()
        logs = log_stage(ctx)
        t5 = time.time()
        loc = locale_stage(ctx, ws)
    ctx.broken = [b for i, b in enumerate(ctx.broken) if b not in ctx.broken[:i]]
    flush(ctx)
    if ctx.broken and not ctx.violations:
        ctx.violation({"oracle": "theorems of Verif.Props.C16 or a model correspondence no longer check; the provider sweep, spool check, "
                                 "four-way differential and diagnostics sweep found no disagreement between entry points"}, no_input=True)
    ctx.assumptions += [
        "empty and whitespace-only strings (str.strip() == '') are rejected by scan_string/fix_string by documentation; exactly those are "
        "excluded from the two string entry points (they are still compared across file scan, stdin scan and scan_path)",
        "argparse is modelled for the option forms the API and the user guide use (separate value token, no abbreviations, no --opt=value); "
        "a value starting with '-' is a parse error in the model",
        "str.lower() is modelled on ASCII identifiers; str.strip() on Python's isspace set",
        "os.linesep = LF on this platform (spool_string_lf); the CR-LF platform case is proved only for CR-free text and has a model counterexample otherwise",
        "process locale encoding is UTF-8 for the in-process differential; the non-UTF-8 case is probed in a subprocess (finding F-SPOOL-LOCALE)"]
    ctx.coverage["wall"] = round(time.time() - ctx.t0, 1)
    ctx.write_evidence({
        "correspondence": {"evaluations": prov["evaluations"] + spool["evaluations"] + args["evaluations"] + args["parse_evaluations"] + args["selection_evaluations"],
                           "distinct_nontrivial": prov["distinct_nontrivial"],
                           "rule": prov["rule"] + " (counted over the provider sweep only, distinct by text; spool / argument / parser / selection "
                                                  "correspondences are counted separately below)", "distribution": prov["distribution"], "exhaustive": prov["exhaustive"],
                           "providers": {k: v for k, v in prov.items() if k not in ("distribution", "rule")},
                           "spool": spool, "api_arguments": args},
        "differential": diff, "diagnostics": logs, "locale_probe_runs": loc,
        "stage_seconds": {"providers": round(t1 - t0, 1), "spool": round(t2 - t1, 1), "api_args": round(t3 - t2, 1), "four_way": round(t4 - t3, 1), "diagnostics": round(t5 - t4, 1)},
        "samples": ctx.samples})


def replay(ctx, path):
    rp = json.load(open(path))
    if rp.get("kind") == "no-failing-input-found":
        print("replay names broken obligations only:", rp.get("broken"))
        return 1
    sym, case = rp.get("symptom"), rp.get("input", {})
    bad = False
    with implib.workspace() as ws:
        if sym in ("provider-oracle", "provider-model-mismatch"):
            t = case["text"]
            real = real_providers(os.path.join(ws, "p.md"), t)
            u = univ(t)
            bad = real["F"][1] != u.split("\n") or real["M"][0] != t.split("\n") or real["F"][0] != (u == "" or u.endswith("\n"))
            if not bad and os.path.exists(vlib.DRV):
                a = parse_lines_answer(vlib.Driver("lines").run(["lines|" + vlib.hexs(t)])[0])
                bad = a["F"][:2] != real["F"][:2] or a["M"][0] != real["M"][0]
            print(f"providers on {t!r}: {real}")
        elif "document" in rp or "document" in case:
            doc = case.get("document", rp.get("document"))
            sel = next((s for s in SELECTIONS if s["name"] == (case.get("selection") or rp.get("selection"))), SELECTIONS[0])
            if sym == "diagnostics-not-inert":
                combo = (case.get("log_level"), case.get("stack_trace"), case.get("log_file"))
                _, _, _, obs, _, _ = _log_worker((doc, combo, case["mode"], case.get("selection", "default")))
                _, _, _, base, _, _ = _log_worker((doc, (None, False, False), case["mode"], case.get("selection", "default")))
                print("with:", obs, "\nwithout:", base)
                bad = obs != base
            else:
                R, P = four_way(doc, sel, ws)
                for s, w in P:
                    print(s, w)
                bad = any(s == sym for s, _ in P)
        else:
            print("replay: case kind not re-runnable individually; re-run ./check C16")
            return 1
    if bad:
        print(f"VIOLATION property=C16 replay={path}")
        return 1
    print("replay: case now passes")
    return 0
