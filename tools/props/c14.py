"""C14 — the rule engine honours the plug-in life-cycle for every file (scan mode; fix-mode passes: see c14 fix part).

proof:  Verif.Props.C14 — for every rule set without raising callbacks, every file: each rule's call log grows by
        exactly [start]? ++ tokens? ++ lines(1..n, exact text)? ++ [done(n+1)]?; multi-file runs concatenate.
tie:    engine correspondence: recording probe plug-ins (every subset of overridden callbacks, ids sorting before /
        between / after the built-in rules, enabled and disabled) — real call log vs Lean model log.
oracle: the life-cycle shape evaluated directly on the real log from the file's text and the real token stream.
"""
import json, os
import vlib, implib, enginelib as E
import c07

DOCS = ["", "x", "x\n", "\n", "\n\n", "a\nb", "a\nb\n", "# h\n\ntext TRIG\n", "<!-- pyml disable-next-line vpa001-->",
        "<!-- pyml disable-next-line vpa001-->\nTRIG\n", "- a\n- b TRIG\n\n> q\n", "```\ncode TRIG\n```\n", "tab\there\n", "é TRIG ü\n",
        "a  \nb\\\nc\n", "[r]: /u\n\n[r] TRIG\n", "trailing spaces   \n\n\n\nend",
        # characters str.splitlines() treats as line ends but a file's readlines() does not
        "first half\x0csecond half TRIG\nnext\n", "a\x0bb\nc\n", "a\x1cb TRIG\x1dc\x1ed\n", "a\x85b\nTRIG\n", "a\u2028b TRIG\u2029c\nd\n"]
IDS = ["VPA001", "ZZZ999", "AAA000", "MDM500", "MD0999"[:5] + "9"]


def gen(rng):
    specs = []
    for pid in rng.sample(["VPA001", "ZZZ999", "AAA000", "MDM500"], rng.randint(1, 3)):
        specs.append(dict(id=pid, start=rng.random() < .6, token=rng.random() < .6, line=rng.random() < .7, done=rng.random() < .6,
                          resets=rng.random() < .5, doneReport=rng.random() < .3, lineTrig=rng.choice(["TRIG", ""]),
                          tokTrig=rng.choice(["", "TRIG"]), boom="", enabled=rng.random() < .7))
        specs[-1]["how"] = rng.choice(sorted(E.HOWS_ON if specs[-1]["enabled"] else E.HOWS_OFF))
    texts = [rng.choice(DOCS) for _ in range(rng.randint(1, 3))]
    return specs, texts, rng.random() < .5


def lifecycle_oracle(specs, texts, cont, real):
    """Direct statement of C14 on the real log (fault-free scenarios only)."""
    if real["errs"]:
        return []
    out = []
    toks = [E.real_tokens(t) for t in texts]
    for sp in specs:
        if not sp.get("enabled", True):
            continue
        exp = []
        for t, tk in zip(texts, toks):
            lines = t.split("\n")
            if sp["start"]:
                exp.append(("S",))
            if sp["token"]:
                exp += [("T", a) for a, _, _ in tk]
            if sp["line"]:
                exp += [("L", i + 1, l) for i, l in enumerate(lines)]
            if sp["done"]:
                exp.append(("D", len(lines) + 1))
        got = [tuple(e) for e in real["log"].get(sp["id"], [])]
        if got != exp:
            k = next((j for j, (a, b) in enumerate(zip(got, exp)) if a != b), min(len(got), len(exp)))
            out.append(f"life-cycle of {sp['id']} differs from the property's shape at call {k}: got {got[k] if k < len(got) else None}, expected {exp[k] if k < len(exp) else None}")
    return out


ALL = dict(start=True, token=True, line=True, done=True, resets=True, doneReport=False, lineTrig="TRIG", tokTrig="", boom="")
CORPUS = [([dict(ALL, id="ZZZ999"), dict(ALL, id="AAA000", enabled=False)], DOCS[:6], False),
          # "a disabled rule receives nothing" whichever identifiers -d / -e use (disable beats enable across identifiers)
          ([dict(ALL, id="ZZZ999", enabled=False, how="d-alias-e-id"), dict(ALL, id="AAA000", enabled=False, how="d-id-e-name"),
            dict(ALL, id="MDM500", enabled=True, how="e-alias")], DOCS[6:9], False),
          ([dict(ALL, id="VPA001", enabled=False, how="d-name-e-alias"), dict(ALL, id="AAA000", enabled=False, how="d-name-e-id"),
            dict(ALL, id="ZZZ999", enabled=True, how="e-name")], DOCS[9:12], True),
          ([dict(ALL, id="VPA001", start=False, token=False)], DOCS[6:12], True),
          ([dict(ALL, id="MDM500", line=False, done=False), dict(ALL, id="AAA000", start=False)], DOCS[12:], False)]


# ---------------------------------------------------------------------------------------------------------------------------------
# fix mode: "every pass a rule takes part in has this same shape" — the token part, with the BUILT-IN token fixers enabled so that the
# passes after a token-level fix (regenerate, re-tokenize, line pass) are really entered; the probe-only fix-mode correspondence of
# C08-C10 / C15 (tools/fixlib.py) disables the built-in rules and never reaches the re-tokenization.
FIX_DOCS = ["# Title\n\n### Skipped level\n\ntext\n", "* a\n+ b\n- c\n", "some ** bold ** text\n", "# T\n\n1. a\n1. b\n3. c\n",
            "#  Two spaces\n\ntext  \n", "# Clean\n\ntext\n", "- a\n\n\n\n- b\n", "```text\ncode\n```\n\n~~~text\nmore\n~~~\n",
            "# T\n\n***\n\n---\n", "> # Title\n>\n> ### Skipped\n", "no final newline *  x  *"]


def fix_lifecycle(ctx):
    """A recording fix-capable plug-in (every callback, no trigger) beside the default rule set in REAL `fix` runs.  Oracle, per pass of the
    recorder's log that contains token callbacks: the token sequence is the parser's complete stream (end-of-stream token included) of one
    of the versions of the file that the run really read (every content a FileSourceProvider was opened on, recorded by a harness-level
    wrapper), in order, each token once; and the log is a sequence of passes S T* L* D.  The line part of a fix pass departs from the
    scan shape in ways recorded as F-LIFE (line number 0, second start) and is compared by the FixSched correspondence, not here."""
    import fixlib
    from pymarkdown.general import source_providers as SP
    seen, fails, evals, passes = [], [], 0, 0
    orig = SP.FileSourceProvider.__init__

    def spy(self, file_to_open, *a, **k):
        try:
            with open(file_to_open, encoding="utf-8", newline="") as fh:
                seen.append(fh.read())
        except Exception:
            pass
        return orig(self, file_to_open, *a, **k)

    SP.FileSourceProvider.__init__ = spy
    try:
        with implib.workspace() as ws:
            for doc in FIX_DOCS:
                for level in (1, 9):
                    sp = dict(id="ZZR777", level=level, fixes=True, start=True, token=True, line=True, done=True, doneNl=False, trig="", repl="")
                    d = os.path.join(ws, "fl")
                    import shutil
                    shutil.rmtree(d, ignore_errors=True)
                    os.makedirs(d)
                    implib.write(os.path.join(d, "doc.md"), doc)
                    seen.clear()
                    log = fixlib.fix_log()
                    log.clear()
                    code, out, err = vlib.run_main(["--add-plugin", fixlib.write_probe(os.path.join(ws, "flp"), sp), "fix", "doc.md"], cwd=d)
                    evals += 1
                    mine = [tuple(e) for e in log if e[0] == "ZZR777"]
                    case = {"fix_document": doc, "recorder_level": level}
                    if code not in (0, 3):
                        continue            # a failing fix run is C15's / C09's business
                    streams = {}
                    for v in [doc] + list(seen):
                        if v not in streams:
                            try:
                                streams[v] = [a for a, _, _ in E.real_tokens(v)]
                            except Exception:
                                streams[v] = None
                    cur, groups = None, []
                    for e in mine:
                        if e[1] == "S":
                            cur = []
                            groups.append(cur)
                        elif e[1] == "T":
                            if cur is None:
                                fails.append((case, "fix-pass-token-before-start", str(e)[:120]))
                                break
                            cur.append(e[2])
                    for g in groups:
                        if not g:
                            continue
                        passes += 1
                        if not any(s is not None and s == g for s in streams.values()):
                            near = min((s for s in streams.values() if s), key=lambda s: abs(len(s) - len(g)), default=[])
                            k = next((j for j, (a, b) in enumerate(zip(g, near)) if a != b), min(len(g), len(near)))
                            fails.append((case, "fix-pass-token-stream-not-a-file-version",
                                          {"pass_tokens": len(g), "nearest_stream_tokens": len(near), "first_difference_at": k,
                                           "got": g[k] if k < len(g) else None, "expected": near[k] if k < len(near) else None}))
                            break
    finally:
        SP.FileSourceProvider.__init__ = orig
    for case, sym, det in fails[:5]:
        ctx.report(case, sym, {"detail": det, "oracle": "fix mode: the tokens a rule receives in a pass are the parser's complete stream (end-of-stream included) of a version of the file the run read"})
    return {"fix_runs": evals, "passes_with_tokens_checked": passes, "failures": len(fails),
            "rule": "11 documents (token-level fixes by MD001 MD004 MD037 MD029 MD019 MD009 MD012 MD048 MD035, none, no final newline) x recorder fix level {1, 9}, default rules enabled", "exhaustive": True}


def run(ctx):
    ctx.lean_stage([], ["Verif.Props.C14"])
    stats, samples = c07.engine_correspondence(ctx, 80 if ctx.quick() else 1200, tag="lifecycle", gen=gen, corpus=CORPUS,
                                               extra_check=lifecycle_oracle)
    fixstats = fix_lifecycle(ctx)
    if ctx.broken and not ctx.violations:
        ctx.violation({"oracle": "Verif.Props.C14 / life-cycle correspondence broken; no failing scenario found"}, no_input=True)
    ctx.assumptions += ["the engine correspondence is scan mode; fix mode: the token part of every pass is checked directly (fix_lifecycle), the line part is modelled in FixSched (finding F-LIFE)",
                        "token identity is compared through str(token)"]
    stats["rule"] = ("probe plug-ins with random subsets of overridden callbacks, enabled/disabled, 1-3 files from a pool incl. empty, one-line, "
                     "no-final-newline, pragma-only documents; non-trivial = at least one report or error; every scenario checks the complete call log")
    ctx.write_evidence({"correspondence": stats, "fix_lifecycle": fixstats, "samples": samples})


def replay(ctx, path):
    rp = json.load(open(path))
    inp = rp.get("input", {})
    if "specs" not in inp:
        print("replay names broken obligations only:", rp.get("broken"))
        return 1
    with implib.workspace() as ws:
        real = E.run_real(ws, inp["specs"], inp["texts"], inp["cont"])
    req, ordered = E.model_request(inp["specs"], inp["texts"], inp["cont"])
    d = E.compare(real, vlib.Driver("engine").run([req])[0], ordered) + lifecycle_oracle(inp["specs"], inp["texts"], inp["cont"], real)
    print(d)
    if d:
        print(f"VIOLATION property=C14 replay={path}")
        return 1
    return 0
