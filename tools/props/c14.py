"""C14 — the rule engine honours the plug-in life-cycle for every file (scan mode; fix-mode passes: see c14 fix part).

proof:  Verif.Props.C14 — for every rule set without raising callbacks, every file: each rule's call log grows by
        exactly [start]? ++ tokens? ++ lines(1..n, exact text)? ++ [done(n+1)]?; multi-file runs concatenate.
tie:    engine correspondence: recording probe plug-ins (every subset of overridden callbacks, ids sorting before /
        between / after the built-in rules, enabled and disabled) — real call log vs Lean model log.
oracle: the life-cycle shape evaluated directly on the real log from the file's text and the real token stream.
"""
import json
import vlib, implib, enginelib as E
import c07

DOCS = ["", "x", "x\n", "\n", "\n\n", "a\nb", "a\nb\n", "# h\n\ntext TRIG\n", "<!-- pyml disable-next-line vpa001-->",
        "<!-- pyml disable-next-line vpa001-->\nTRIG\n", "- a\n- b TRIG\n\n> q\n", "```\ncode TRIG\n```\n", "tab\there\n", "é TRIG ü\n",
        "a  \nb\\\nc\n", "[r]: /u\n\n[r] TRIG\n", "trailing spaces   \n\n\n\nend",
        # characters str.splitlines() treats as line ends but a file's readlines() does not
        "first half\x0csecond half TRIG\nnext\n", "a\x0bb\nc\n", "a\x1cb TRIG\x1dc\x1ed\n", "a\x85b\nTRIG\n", "a\u2028b TRIG\u2029c\nd\n"]
IDS = ["VPA001", "ZZZ999", "AAA000", "MDM500", "MD0999"[:5] + "9"]


def gen(rng):
    specs = []
    for pid in rng.sample(["VPA001", "ZZZ999", "AAA000", "MDM500"], rng.randint(1, 3)):
        specs.append(dict(id=pid, start=rng.random() < .6, token=rng.random() < .6, line=rng.random() < .7, done=rng.random() < .6,
                          resets=rng.random() < .5, doneReport=rng.random() < .3, lineTrig=rng.choice(["TRIG", ""]),
                          tokTrig=rng.choice(["", "TRIG"]), boom="", enabled=rng.random() < .7))
        specs[-1]["how"] = rng.choice(sorted(E.HOWS_ON if specs[-1]["enabled"] else E.HOWS_OFF))
    texts = [rng.choice(DOCS) for _ in range(rng.randint(1, 3))]
    return specs, texts, rng.random() < .5


def lifecycle_oracle(specs, texts, cont, real):
    """Direct statement of C14 on the real log (fault-free scenarios only)."""
    if real["errs"]:
        return []
    out = []
    toks = [E.real_tokens(t) for t in texts]
    for sp in specs:
        if not sp.get("enabled", True):
            continue
        exp = []
        for t, tk in zip(texts, toks):
            lines = t.split("\n")
            if sp["start"]:
                exp.append(("S",))
            if sp["token"]:
                exp += [("T", a) for a, _, _ in tk]
            if sp["line"]:
                exp += [("L", i + 1, l) for i, l in enumerate(lines)]
            if sp["done"]:
                exp.append(("D", len(lines) + 1))
        got = [tuple(e) for e in real["log"].get(sp["id"], [])]
        if got != exp:
            k = next((j for j, (a, b) in enumerate(zip(got, exp)) if a != b), min(len(got), len(exp)))
            out.append(f"life-cycle of {sp['id']} differs from the property's shape at call {k}: got {got[k] if k < len(got) else None}, expected {exp[k] if k < len(exp) else None}")
    return out


ALL = dict(start=True, token=True, line=True, done=True, resets=True, doneReport=False, lineTrig="TRIG", tokTrig="", boom="")
CORPUS = [([dict(ALL, id="ZZZ999"), dict(ALL, id="AAA000", enabled=False)], DOCS[:6], False),
          # "a disabled rule receives nothing" whichever identifiers -d / -e use (disable beats enable across identifiers)
          ([dict(ALL, id="ZZZ999", enabled=False, how="d-alias-e-id"), dict(ALL, id="AAA000", enabled=False, how="d-id-e-name"),
            dict(ALL, id="MDM500", enabled=True, how="e-alias")], DOCS[6:9], False),
          ([dict(ALL, id="VPA001", enabled=False, how="d-name-e-alias"), dict(ALL, id="AAA000", enabled=False, how="d-name-e-id"),
            dict(ALL, id="ZZZ999", enabled=True, how="e-name")], DOCS[9:12], True),
          ([dict(ALL, id="VPA001", start=False, token=False)], DOCS[6:12], True),
          ([dict(ALL, id="MDM500", line=False, done=False), dict(ALL, id="AAA000", start=False)], DOCS[12:], False)]


def run(ctx):
    ctx.lean_stage([], ["Verif.Props.C14"])
    stats, samples = c07.engine_correspondence(ctx, 80 if ctx.quick() else 1200, tag="lifecycle", gen=gen, corpus=CORPUS,
                                               extra_check=lifecycle_oracle)
    if ctx.broken and not ctx.violations:
        ctx.violation({"oracle": "Verif.Props.C14 / life-cycle correspondence broken; no failing scenario found"}, no_input=True)
    ctx.assumptions += ["scan mode only in this part; the fix-mode pass shape is modelled in FixSched (finding F-LIFE)",
                        "token identity is compared through str(token)"]
    stats["rule"] = ("probe plug-ins with random subsets of overridden callbacks, enabled/disabled, 1-3 files from a pool incl. empty, one-line, "
                     "no-final-newline, pragma-only documents; non-trivial = at least one report or error; every scenario checks the complete call log")
    ctx.write_evidence({"correspondence": stats, "samples": samples})


def replay(ctx, path):
    rp = json.load(open(path))
    inp = rp.get("input", {})
    if "specs" not in inp:
        print("replay names broken obligations only:", rp.get("broken"))
        return 1
    with implib.workspace() as ws:
        real = E.run_real(ws, inp["specs"], inp["texts"], inp["cont"])
    req, ordered = E.model_request(inp["specs"], inp["texts"], inp["cont"])
    d = E.compare(real, vlib.Driver("engine").run([req])[0], ordered) + lifecycle_oracle(inp["specs"], inp["texts"], inp["cont"], real)
    print(d)
    if d:
        print(f"VIOLATION property=C14 replay={path}")
        return 1
    return 0
