"""C10 — fix reporting is truthful and scan is read-only.

proof:  Verif.Props.C10 — overwrite_iff_flag, untouched_if_no_record, temps_balanced, pass_ops, announce_iff /
        not_fixed_content_same (not announced => byte-identical), result_fixed_iff, scan_ops_readonly.
tie:    fix-mode correspondence (probe fixers): real file operations (audit hook), bytes, "Fixed:" line, exit vs model.
oracle: (a) per document with the real rules: bytes change <=> announced "Fixed:" <=> exit FIXED; a file whose scan shows no
        failure of a fix-capable rule is byte-identical after fix;  (b) small sets of files in one invocation, both schemes:
        same per-file equivalences, and `scan`, `scan-stdin`, `--list-files` never modify, create or leave behind any file
        (directory + temp-directory snapshots, operation log).
"""
import itertools, json, multiprocessing as mp, os, re, tempfile
import vlib, implib, docs, enginelib as E, fixlib as F

RULE = re.compile(r": ((?:MD|PML)\d+): ")


def one(ws, x):
    d = os.path.join(ws, "w")
    os.makedirs(d, exist_ok=True)
    p = os.path.join(d, "x.md")
    implib.write(p, x)
    fm = E.fix_meta()
    c0, o0, e0 = vlib.run_main(["scan", "x.md"], cwd=d)
    if c0 not in (0, 1) or (c0 == 1 and not o0.strip()):
        return ("scan-error", None)
    fixable_fail = sorted({m.group(1) for m in RULE.finditer(o0) if fm.get(m.group(1).lower(), (False,))[0]})
    c1, o1, e1 = vlib.run_main(["fix", "x.md"], cwd=d)
    after = implib.read_bytes(p)
    if c1 not in (0, 3):
        return ("fix-error", None)
    announced = "Fixed: x.md" in o1
    changed = after != x.encode("utf-8")
    sig = []
    if changed and not announced:
        sig.append("changed-not-announced")
    if announced and not changed:
        sig.append("announced-not-changed")
    if announced != (c1 == 3):
        sig.append("exit-disagrees-with-announcement")
    if changed and not fixable_fail:
        sig.append("changed-without-fixable-failure")
    return ("ok", ";".join(sig), changed)


def _task(chunk):
    out = []
    with implib.workspace() as ws:
        for x in chunk:
            try:
                out.append((x,) + one(ws, x))
            except BaseException:
                out.append((x, "fix-error", None))
    return out


POOL5 = {"clean.md": "# T\n\nText.\n", "linefix.md": "# T\n\nText. \n\n\nMore\n", "tokfix.md": "# T\n\n- a\n+ b\n",
         "both.md": "# T\n\n* a \n- b\n\n\n1. x\n1. y\n", "unfix.md": "# T\n\n" + ("word " * 30).strip() + "\n"}
EXPECT_CHANGED = {"clean.md": False, "linefix.md": True, "tokfix.md": True, "both.md": True, "unfix.md": False}


def multi_file(ctx, thorough):
    """Sets of <= 3 files x {scan, scan-stdin, scan -l, fix} x 2 schemes (x 3 ways of selecting the scheme for fix / scan)."""
    names = list(POOL5)
    sets = [c for k in (1, 2, 3) for c in itertools.combinations(names, k)]
    if not thorough:
        sets = docs.sample(ctx.rng, sets, 10)
    fails, evals, samples = [], 0, []
    with implib.workspace() as ws:
        for fs in sets:
            # how the scheme reaches the run: command line only, configuration only (--set), or both and disagreeing (the documented
            # precedence: the command line wins); the selector must not change which result the run ends with
            for scheme, how in [(s_, h_) for s_ in ("default", "minimal") for h_ in ("cli", "set", "cli-over-set")]:
                for mode in (("scan", "scan-stdin", "list", "fix") if how == "cli" else ("fix", "scan")):
                    d = os.path.join(ws, "m")
                    import shutil
                    shutil.rmtree(d, ignore_errors=True)
                    os.makedirs(d)
                    for n in fs:
                        implib.write(os.path.join(d, n), POOL5[n])
                    before = implib.tree_snapshot(d)
                    other = "minimal" if scheme == "default" else "default"
                    argv = {"cli": ["--return-code-scheme", scheme],
                            "set": ["--set", "mode.return_code_scheme=" + scheme],
                            "cli-over-set": ["--set", "mode.return_code_scheme=" + other, "--return-code-scheme", scheme]}[how]
                    stdin = None
                    if mode == "scan":
                        argv += ["scan"] + list(fs)
                    elif mode == "scan-stdin":
                        argv += ["scan-stdin"]; stdin = POOL5[fs[0]]
                    elif mode == "list":
                        argv += ["scan", "-l"] + list(fs)
                    else:
                        argv += ["fix"] + list(fs)
                    (code, out, err), ops = F.record_ops(lambda: vlib.run_main(argv, stdin_text=stdin, cwd=d), d, set(fs))
                    after = implib.tree_snapshot(d)
                    leaked = [os.path.basename(x) for x in F.record_ops.temps_left]
                    evals += 1
                    case = {"files": list(fs), "mode": mode, "scheme": scheme}
                    if how != "cli":
                        case["scheme_given_by"] = how
                    if leaked:
                        fails.append((case, "temp-file-left", leaked))
                    if mode != "fix":
                        if after != before:
                            fails.append((case, "read-only-command-modified-files", sorted(set(after) ^ set(before)) or "content changed"))
                        if any(o[0] in ("write", "copy", "remove", "rename") and (o[-1] in fs or o[1] in fs) for o in ops):
                            fails.append((case, "read-only-command-wrote-target", [o for o in ops if o[0] != "read"][:4]))
                    else:
                        if set(after) != set(before):
                            fails.append((case, "fix-created-or-removed-files", sorted(set(after) ^ set(before))))
                        anyfixed = False
                        for n in fs:
                            changed = after[n] != before[n]
                            announced = f"Fixed: {n}" in out
                            anyfixed |= announced
                            if changed != announced:
                                fails.append((case, "changed-xor-announced", n))
                            if changed != EXPECT_CHANGED[n]:
                                fails.append((case, "unexpected-change-status", n))
                        want = (3 if anyfixed else 0) if scheme == "default" else 0
                        if code != want:
                            fails.append((case, "wrong-exit-code", {"exit": code, "expected": want}))
                    if len(samples) < 2 and mode == "fix" and len(fs) > 1:
                        samples.append({"case": case, "stdout": out, "exit": code, "ops": ops[:12]})
    return evals, fails, samples


def api_truthful(ctx):
    """The Python API reports the same truth: fix_path's files_fixed <=> bytes changed, fix_string's was_fixed <=> text
    changed — under both return-code schemes (the scheme must not leak into what the API reports)."""
    from pymarkdown.api import PyMarkdownApi
    fails, evals = [], 0
    with implib.workspace() as ws:
        for scheme in (None, "default", "minimal"):
            for n, text in POOL5.items():
                d = os.path.join(ws, "api")
                import shutil
                shutil.rmtree(d, ignore_errors=True)
                os.makedirs(d)
                p = implib.write(os.path.join(d, n), text)
                api = PyMarkdownApi()
                if scheme:
                    api.set_string_property("mode.return_code_scheme", scheme)
                try:
                    r = api.fix_path(p)
                    announced = any(os.path.basename(x) == n for x in r.files_fixed)
                except Exception as e:
                    fails.append(({"api": "fix_path", "file": n, "scheme": scheme}, "api-fix-failed", repr(e)[:200]))
                    continue
                changed = implib.read_bytes(p) != text.encode()
                evals += 1
                if changed != announced:
                    fails.append(({"api": "fix_path", "file": n, "scheme": scheme}, "api-changed-xor-announced", {"changed": changed, "files_fixed": r.files_fixed}))
                api = PyMarkdownApi()
                if scheme:
                    api.set_string_property("mode.return_code_scheme", scheme)
                try:
                    r = api.fix_string(text)
                except Exception as e:
                    fails.append(({"api": "fix_string", "file": n, "scheme": scheme}, "api-fix-failed", repr(e)[:200]))
                    continue
                evals += 1
                if (r.fixed_file != text) != bool(r.was_fixed):
                    fails.append(({"api": "fix_string", "file": n, "scheme": scheme}, "api-changed-xor-announced", {"was_fixed": r.was_fixed, "text_changed": r.fixed_file != text}))
    return evals, fails


def run(ctx):
    ctx.lean_stage(["exit_table"], ["Verif.Props.C10"])
    stats_c, samples = F.fix_correspondence(ctx, 40 if ctx.quick() else 600, F.FIX_CORPUS)
    ev_m, fails_m, samples_m = multi_file(ctx, not ctx.quick())
    ev_a, fails_a = api_truthful(ctx)
    import c15 as _c15          # scan-stdin must not leave its capture file behind even when the scan fails
    ev_s, fails_s = _c15.stdin_faults(ctx)
    fails_a = fails_a + [f for f in fails_s if f[1] == "temp-file-left"]
    for case, sym, det in fails_m + fails_a:
        ctx.report(case, sym, {"detail": det, "oracle": "C10 statement on a multi-file invocation (directory snapshots, Fixed: lines, exit code, file operations)"})
    res = [t for _, t in docs.rule_resources()]
    srcs = docs.repo_sources()
    pool = (docs.sample(ctx.rng, res, 150) + docs.sample(ctx.rng, srcs, 200) + docs.sample(ctx.rng, docs.families(), 150)) if ctx.quick() else res + srcs + docs.families()
    pool = list(dict.fromkeys(pool))
    with mp.get_context("fork").Pool(16) as pl:
        results = pl.map(_task, [pool[k:k + 50] for k in range(0, len(pool), 50)], chunksize=1)
    base = vlib.InputBaseline("C10")
    evals, nontrivial, skipped = 0, 0, 0
    for out in results:
        for row in out:
            x, st = row[0], row[1]
            evals += 1
            if st != "ok":
                skipped += 1
                continue
            sig, changed = row[2], row[3]
            nontrivial += bool(changed)
            if sig:
                vlib.collect_failure("C10", "default", x, sig)
                if base.absorbs("default", x, sig):
                    continue
                ctx.report({"doc": x}, "fix-report-untruthful", {"signature": sig, "oracle": "bytes change <=> 'Fixed:' <=> exit 3; no fixable failure => untouched"})
    if base.absorbed:
        f = next((f for f in ctx.findings if f["id"] == "F-FIXREPORT"), None)
        if f:
            ctx.known_finding(f, f"{sum(base.absorbed.values())} listed inputs (findings/C10.inputs.json): " + "; ".join(f"{k} x{v}" for k, v in sorted(base.absorbed.items())))
    if ctx.broken and not ctx.violations:
        ctx.violation({"oracle": "Verif.Props.C10 / fix-mode correspondence broken; no untruthful report found"}, no_input=True)
    ctx.assumptions += ["A-REC (a fix record implies the content differs) is a fact about rule bodies: explored, not proved",
                        "documents on which scan or fix fails are C07/C15's subject and skipped"]
    ctx.write_evidence({"correspondence": stats_c,
                        "stdin_faults": {"evaluations": ev_s, "rule": "scan-stdin with a plug-in / parser failure x continue/stop x both schemes: no file left behind", "exhaustive": True},
                        "api": {"evaluations": ev_a, "rule": "5 pool files x {no scheme, default, minimal} x {fix_path, fix_string}", "exhaustive": True},
                        "multi_file": {"evaluations": ev_m, "rule": "subsets (<=3) of 5 pool files x {scan, scan-stdin, scan -l, fix} x {default, minimal}", "exhaustive": not ctx.quick()},
                        "per_document": {"evaluations": evals, "distinct_nontrivial": nontrivial, "skipped_failing_runs": skipped, "listed_inputs_absorbed": base.absorbed,
                                         "rule": "pool documents, default rules; non-trivial = fix changed the file", "exhaustive": not ctx.quick()},
                        "samples": samples + samples_m})


def replay(ctx, path):
    rp = json.load(open(path))
    inp = rp.get("input", {})
    if "doc" in inp and "specs" not in inp:
        with implib.workspace() as ws:
            r = one(ws, inp["doc"])
        print(r)
        if r[0] == "ok" and r[1]:
            print(f"VIOLATION property=C10 replay={path}")
            return 1
        return 0
    if "specs" in inp:
        import c09
        return c09.replay(ctx, path)
    print("replay:", rp.get("broken") or inp)
    return 1
