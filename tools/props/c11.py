"""C11 — pragmas suppress exactly what they name and are invisible to the parser.

proof:  Verif.Props.C11 over the faithful Verif.Model.Pragma: compile_targets (next-line -> n+1 only; num-lines N -> n+1..n+N),
        suppressed_iff / document_suppressed_iff (a failure is swallowed iff a pragma of the document covers that line and names that
        rule), malformed_suppresses_nothing, resolve_ids_registered / _accounted, alias_invariance, pragma_invisible (the block parser
        is fed exactly the other lines, later ones numbered one higher), pragma_lines_recorded.
tie:    (1) engine correspondence: probe rules + pragma lines of every form — real printed reports and pragma failures vs the model;
        (2) recognition: real PragmaExtension.look_for_pragmas vs model isPragma on all short strings over the pragma alphabet.
oracle: on real rules: scan(insert pragma at i) == shift(scan(d)) minus exactly the named rules' failures on the covered lines;
        token stream of the document with a pragma inserted == token stream without it, positions shifted.
"""
import itertools, json, os, re
import vlib, implib, docs, enginelib as E
import c07

PRE = ["<!--", "<!---"]
FORMS = ["{p} pyml disable-next-line {ids}-->", "{p}pyml disable-next-line {ids}-->", "{p}  PyML  Disable-Next-Line  {ids}-->",
         "{p} pyml disable-num-lines {n} {ids}-->", "{p} pyml disable-num-lines {n}-->", "{p} pyml disable-num-lines-->",
         "{p} pyml disable-next-line-->", "{p} pyml -->", "{p} pyml frobnicate {ids}-->", "{p} pyml disable-next-line {ids}--> ",
         "{p} pyml disable-next-line {ids} -->", " {p} pyml disable-next-line {ids}-->", "{p} pyml disable-next-line {ids}",
         "{p} pymlx disable-next-line {ids}-->", "{p} pyml\tdisable-next-line\t{ids}-->"]
NS = ["0", "1", "2", "5", "1000000", "-1", "x", "+2", "1_0", "2.0", ""]
IDLISTS = ["vpa001", "VPA001", "probe-vpa001", "vpa001,zzz999", "vpa001, zzz999", " vpa001 ,probe-zzz999 ", "nosuch", "vpa001,nosuch", "vpa001,,zzz999", ",", "md013"]
BODY = ["TRIG one", "TRIG two", "plain", "", "TRIG three", "TRIG four", "TRIG five", "TRIG six"]


def gen(rng):
    specs = [dict(id="VPA001", start=True, token=False, line=True, done=False, resets=True, doneReport=False, lineTrig="TRIG", tokTrig="", boom=""),
             dict(id="ZZZ999", start=False, token=True, line=True, done=True, resets=False, doneReport=True, lineTrig="TRIG", tokTrig="TRIG", boom="")]
    if rng.random() < .3:
        specs = specs[:1]
    lines = list(BODY[:rng.randint(2, 8)])
    for _ in range(rng.randint(1, 3)):
        form = rng.choice(FORMS)
        pr = form.format(p=rng.choice(PRE), ids=rng.choice(IDLISTS), n=rng.choice(NS))
        lines.insert(rng.randint(0, len(lines)), pr)
    text = "\n".join(lines) + ("\n" if rng.random() < .8 else "")
    return specs, [text], False


def recognition(ctx, thorough):
    """Real look_for_pragmas vs the model's isPragma (through the engine driver: a pragma line is recognised iff it is
    absent from ... ) — done directly: model side = Lean, via a one-rule request whose log shows nothing; instead we compare
    recognition through the parser: the pragma token's recorded lines."""
    from pymarkdown.general.source_providers import InMemorySourceProvider
    alphabet = ["<!--", "<!---", "-", " ", "\t", "pyml ", "PYML ", "pyml", "-->", "x", "->", " "]
    cases = set()
    for k in range(1, 5 if thorough else 4):
        for t in itertools.product(alphabet, repeat=k):
            s = "".join(t)
            if s.startswith("<!--") or s.startswith(" <"):
                cases.add(s)
    cases = sorted(cases)
    if not thorough:
        cases = docs.sample(ctx.rng, cases, 400)
    tk = implib.parser()
    real = []
    for s in cases:
        try:
            toks = tk.transform_from_provider(InMemorySourceProvider("a\n" + s + "\nb"), do_add_end_of_stream_token=True)
            pl = toks[-1].pragma_lines if toks and toks[-1].is_pragma else {}
            real.append(sorted(pl.items()))
        except Exception as e:
            real.append("ERR " + type(e).__name__)
    # model: a probe with line callback sees all lines; pragma table failures tell recognition: use compile failures of a
    # deliberately unknown command?  Simpler and exact: ask the model for the pragma failures of the document where every
    # candidate line is followed by nothing: a recognised line with an unknown/absent command always yields >= 1 failure
    # or a table entry; to be exact we use ids that never resolve ("x") so every recognised pragma line yields >= 1 failure.
    reqs = []
    for s in cases:
        req, _ = E.model_request([], ["a\n" + s + "\nb"], False, tokens=[[]])
        reqs.append(req)
    answers = vlib.Driver("engine").run(reqs)
    bad = []
    for s, r, a in zip(cases, real, answers):
        mp = E.parse_answer(a, 0)[4][0]
        m_rec = len(mp) > 0
        r_rec = isinstance(r, list) and len(r) > 0
        if isinstance(r, str) or m_rec != r_rec:
            bad.append((s, r, mp))
    return len(cases), bad


def shift(reps, at, by=1):
    return [((l + by) if l >= at else l, c, i, t) for (l, c, i, t) in reps]


def tok_norm(tokens, drop_pragma=True):
    out = []
    for t in tokens:
        if t.is_pragma:
            continue
        out.append(str(t))
    return out


def shift_tok(s, at):
    """shift every '(line,col)' position group and known line fields of a serialised token"""
    def f(m):
        l = int(m.group(1))
        return f"({l + 1 if l >= at else l},{m.group(2)})"
    return re.sub(r"\((\d+),(\d+)\)", f, s)


def invisibility(ctx, pool, quick):
    """Token-level and report-level differential for a pragma naming a default-disabled rule (pure invisibility) and for
    pragmas naming rules that fire in the document (exact suppression)."""
    from pymarkdown.general.source_providers import InMemorySourceProvider
    tk = implib.parser()
    ids, allids = E.builtin_meta()
    alias = {}
    for k, v in allids.items():
        alias.setdefault(v, []).append(k)
    def toks_of(text):
        try:
            return tok_norm(tk.transform_from_provider(InMemorySourceProvider(text), do_add_end_of_stream_token=True))
        except Exception:
            return None

    def clean_split(lines, i, nl, whole):
        """The document splits cleanly between line i and i+1: parsing the two halves separately gives the same
        tokens as parsing the whole (the boundary is a top-level block boundary)."""
        if i == 0:
            return True
        if i >= nl:
            # end of document: clean iff a further top-level line would not join a block that is still open
            ext = lines[:nl] + ["zzz"]
            return clean_split(ext, nl, nl + 1, toks_of("\n".join(ext)))
        a = toks_of("\n".join(lines[:i]) + "\n")
        b = toks_of("\n".join(lines[i:]))
        if a is None or b is None or whole is None:
            return False
        a = [x for x in a if not x.startswith("[end-of-stream")]
        # blank-line/end tokens created by the artificial end of the first half may differ: compare ignoring position-free [BLANK/end-…] order
        exp = a + [shift_tok_by(x, i) for x in b]
        return exp == whole

    def shift_tok_by(sx, by):
        return re.sub(r"\((\d+),(\d+)\)", lambda m: f"({int(m.group(1)) + by},{m.group(2)})", sx)

    fails, evals, nontrivial = [], 0, set()
    strata = {"clean": 0, "inside": 0}
    base_docs, variants = [], []   # variants: (base index, insertion index, pragma text, named ids (plugin ids), n or None)
    for d in pool:
        lines = d.split("\n")
        body_lines = lines[:-1] if d.endswith("\n") else lines
        base_docs.append(d)
    with implib.workspace() as ws:
        base_res, fatal = E.scan_docs(ws, base_docs, [])
        if fatal:
            raise vlib.MachineryError(fatal)
        vdocs, vmeta = [], []
        for bi, (d, (reps, err)) in enumerate(zip(base_docs, base_res)):
            if err:
                continue
            lines = d.split("\n")
            nl = len(lines) - 1 if d.endswith("\n") else len(lines)
            fired = sorted({r[2].lower() for r in reps})
            allv = []
            whole = toks_of(d)
            cleanpts = {i: clean_split(lines, i, nl, whole) for i in range(0, nl + 1)}
            for i in range(0, nl + 1):
                allv.append((i, "pml101", None, "<!-- pyml disable-next-line pml101-->"))
                for r in fired:
                    al = sorted(alias[r])
                    allv.append((i, r, None, f"<!-- pyml disable-next-line {r}-->"))
                    allv.append((i, r, 2, f"<!--- pyml disable-num-lines 2 {al[-1].upper()}-->"))
            if quick and len(allv) > 8:
                allv = ctx.rng.sample(allv, 8)
            for i, rid, n, ptxt in allv:
                nd = "\n".join(lines[:i] + [ptxt] + lines[i:])
                vdocs.append(nd); vmeta.append((bi, i, ptxt, rid, n, cleanpts[i], nl))
        vres, fatal = E.scan_docs(ws, vdocs, [], sub="var")
        if fatal:
            raise vlib.MachineryError(fatal)
    for (bi, i, ptxt, rid, n, clean, nl), nd, (vreps, verr) in zip(vmeta, vdocs, vres):
        evals += 1
        strata["clean" if clean else "inside"] += 1
        d = base_docs[bi]
        reps = base_res[bi][0]
        # expected: shift lines >= i+1 by one; remove rid's failures on covered lines
        exp = shift(reps, i + 1)
        lo, hi = i + 2, i + 1 + (n or 1)
        exp2 = [r for r in exp if not (r[2].lower() == rid and lo <= r[0] <= hi)]
        if len(exp2) != len(exp):
            nontrivial.add(nd)
        # the pragma line itself is a line of the file: line-length etc. may legitimately fire ON it; ignore reports located on it
        got = [r for r in vreps if r[0] != i + 1]
        if i >= nl and not d.endswith("\n"):
            # appended after a last line that had no newline: the missing-final-newline report legitimately moves onto the pragma line
            got = [r for r in got if r[2] != "MD047"]; exp2 = [r for r in exp2 if r[2] != "MD047"]
        if verr:
            fails.append((nd, "pragma-breaks-scan", {"error": verr, "base": d, "insert_at": i, "clean": clean}))
        elif sorted(got) != sorted(exp2):
            extra = [r for r in got if r not in exp2]
            missing = [r for r in exp2 if r not in got]
            fails.append((nd, "pragma-not-exact", {"base": d, "insert_at": i, "pragma": ptxt, "unexpected": extra[:3], "missing": missing[:3], "clean": clean,
                                                  "rules": sorted({r[2] for r in extra + missing})}))
        # token level
        try:
            t0 = tok_norm(tk.transform_from_provider(InMemorySourceProvider(d), do_add_end_of_stream_token=True))
            t1 = tok_norm(tk.transform_from_provider(InMemorySourceProvider(nd), do_add_end_of_stream_token=True))
        except Exception:
            continue
        if [shift_tok(s, i + 1) for s in t0] != t1:
            k = next((j for j, (a, b) in enumerate(zip([shift_tok(s, i + 1) for s in t0], t1)) if a != b), min(len(t0), len(t1)))
            fails.append((nd, "pragma-visible-to-parser", {"base": d, "insert_at": i, "clean": clean, "first_difference": [t0[k] if k < len(t0) else None, t1[k] if k < len(t1) else None]}))
    return evals, nontrivial, fails, strata


def _inv_task(chunk):
    return invisibility(None, chunk, False)


def footprint(ctx, doc, sym, det):
    """F-PRAGMA-INSIDE: the pragma line sits inside a multi-line element (the document does not split cleanly at the
    insertion point).  There the implementation is not invisible: per-line container prefixes and inline line numbers are
    not adjusted for the stripped line.  Any discrepancy at a clean split point is NOT absorbed."""
    if det.get("clean") is False:
        return next((f for f in ctx.findings if f["id"] == "F-PRAGMA-INSIDE"), None)
    base = det.get("base", "")
    lines = base.split("\n")
    i = det.get("insert_at", 0)
    prev = lines[i - 1] if 0 < i <= len(lines) else ""
    fid = None
    if re.match(r"^[ >\t\-+*0-9.)]*\[", prev):
        fid = "F-PRAGMA-LRD"
    elif sym == "pragma-not-exact" and set(det.get("rules", [])) <= {"MD012", "MD022"} and prev.strip(" \t") == "" and all(l == "" for l in lines[i:]):
        fid = "F-PRAGMA-EOF-BLANK"
    return next((f for f in ctx.findings if f["id"] == fid), None) if fid else None


# "suppress exactly what they name": a document that contains no pragma has nothing suppressed and no pragma error, whatever pragma
# lines other documents of the same run contain — including documents whose tokenization fails after their pragma lines were collected
# (tokenizer crash tail `- TAB 1. ` / `- TAB`, both already listed findings of C01) and pragmas that do not compile.
PRAGMA_FIRST = [
    "<!-- pyml disable-num-lines 50 md012,md009,md013,md041,md047,md022,md001-->\n\ntext\n\n- \t1. \n",
    "<!-- pyml disable-next-line md041-->\ntext\n\n[r]: /u\n\n-\t\n",
    "text\n<!-- pyml disable-next-line md009-->\n<!-- pyml disable-next-line md012-->\n<!-- pyml disable-next-line md013-->\n\n-\t\n",
    "<!-- pyml disable-next-line not-a-rule-->\ntext\n\n<!-- pyml bogus-command md013-->\n\n-\t\n",
    "<!-- pyml disable-num-lines 50 md012,md009,md013,md041,md047,md022,md001-->\n\n# fine\n",
    "<!-- pyml disable-next-line not-a-rule-->\n# fine\n",
]
VICTIMS = ["text \n\n\n\nmore  \n" + "long " * 30 + "\n# late heading\nend", "no heading \n", "# h\n\n\n\n#### deep \n"]


def other_files_pragmas(ctx):
    fails, evals, nontrivial = [], 0, 0
    with implib.workspace() as ws:
        d = os.path.join(ws, "leak")
        os.makedirs(d)
        alone = {}
        for vi, v in enumerate(VICTIMS):
            implib.write(os.path.join(d, "v.md"), v)
            alone[vi] = vlib.run_main(["--continue-on-error", "scan", "v.md"], cwd=d)
        for fi, first in enumerate(PRAGMA_FIRST):
            for vi, v in enumerate(VICTIMS):
                implib.write(os.path.join(d, "a.md"), first)
                implib.write(os.path.join(d, "v.md"), v)
                code, out, err = vlib.run_main(["--continue-on-error", "scan", "a.md", "v.md"], cwd=d)
                evals += 1
                got = sorted(l for l in out.splitlines() if l.startswith("v.md:"))
                want = sorted(l for l in alone[vi][1].splitlines() if l.startswith("v.md:"))
                goterr = sorted(l for l in err.splitlines() if l.startswith("v.md:"))
                nontrivial += bool(want)
                if got != want or goterr:
                    fails.append(({"files": {"a.md": first, "v.md": v}, "argv": ["--continue-on-error", "scan", "a.md", "v.md"]}, "pragma-of-another-file-acts",
                                  {"missing": [l for l in want if l not in got], "extra": [l for l in got if l not in want], "errors_against_victim": goterr,
                                   "oracle": "v.md contains no pragma: its failures equal those of v.md scanned alone and no pragma error names it"}))
    return evals, nontrivial, fails


def run(ctx):
    ctx.lean_stage([], ["Verif.Props.C11", "Verif.Props.C20LeanMark"])   # pragma_invisible_leanmark lives with the L_shift instances
    stats, samples = c07.engine_correspondence(ctx, 150 if ctx.quick() else 3000, tag="pragma", gen=gen, corpus=[])
    n_rec, bad = recognition(ctx, not ctx.quick())
    for s, r, mp in bad:
        ctx.broken.append("correspondence isPragma")
        ctx.report({"line": s}, "pragma-recognition-mismatch", {"real": r, "model": mp, "oracle": "look_for_pragmas vs Verif.Model.Pragma.isPragma"})
    res = [t for _, t in docs.rule_resources()]
    pool = docs.sample(ctx.rng, res, 60 if ctx.quick() else 656) + docs.sample(ctx.rng, docs.repo_sources(), 60 if ctx.quick() else 1500)
    pool = [d for d in dict.fromkeys(pool) if "pyml" not in d and 0 < len(d) < 1500]
    if ctx.quick():
        evals, nontrivial, fails, strata = invisibility(ctx, pool, True)
    else:
        import multiprocessing as mp
        chunks = [pool[k::16] for k in range(16)]
        with mp.get_context("fork").Pool(16) as pl:
            parts = pl.map(_inv_task, chunks, chunksize=1)
        evals = sum(p[0] for p in parts); nontrivial = set().union(*[p[1] for p in parts])
        fails = [f for p in parts for f in p[2]]
        strata = {k: sum(p[3][k] for p in parts) for k in ("clean", "inside")}
    absorbed = {}
    if os.environ.get("VERIF_DUMP"):
        json.dump(fails, open(os.environ["VERIF_DUMP"], "w"), indent=0)
    for (nd, sym, det) in fails:
        f = footprint(ctx, nd, sym, det)
        if f:
            absorbed[f["id"]] = absorbed.get(f["id"], 0) + 1
            ctx.known_finding(f)
            continue
        ctx.report({"doc": nd}, sym, dict(det, oracle="scan / tokens of the document with a pragma line inserted vs without it"))
    ev_o, nt_o, fails_o = other_files_pragmas(ctx)
    for case, sym, det in fails_o:
        ctx.report(case, sym, det)
    if ctx.broken and not ctx.violations:
        ctx.violation({"oracle": "Verif.Props.C11 / pragma correspondence broken; no failing document found"}, no_input=True)
    ctx.assumptions += ["case folding is ASCII (ids, aliases, command words)", "reports located on the pragma line itself (e.g. line length) are outside the property",
                        "`invisible` at main-loop level assumes no requeue spans a stripped line (excluded point: pragma inside a pending link reference definition)"]
    ctx.write_evidence({"correspondence": dict(stats, recognition_strings=n_rec),
                        "differential": {"evaluations": evals, "distinct_nontrivial": len(nontrivial), "documents": len(pool), "footprints_absorbed": absorbed, "strata": strata,
                                         "rule": "pool documents x insertion points x {pragma naming a default-disabled rule, next-line / num-lines pragma naming a rule that fires, by id or alias}; "
                                                 "non-trivial = the pragma actually suppresses something", "exhaustive": not ctx.quick()},
                        "other_files": {"evaluations": ev_o, "distinct_nontrivial": nt_o, "exhaustive": True,
                                        "rule": "6 pragma-carrying first files (4 whose tokenization then fails, 2 with pragmas that do not compile) x 3 pragma-free second files, --continue-on-error"},
                        "samples": samples[:2] + [{"doc": f[0][:200]} for f in fails[:1]]})


def replay(ctx, path):
    rp = json.load(open(path))
    inp = rp.get("input", {})
    if "specs" in inp:
        import c07 as _c
        return _c.replay(ctx, path)
    if "doc" in inp and "base" in rp:
        ev, nt, fl, _ = invisibility(ctx, [rp["base"]], False)
        hit = [f for f in fl if f[0] == inp["doc"]]
        print(hit[:2] or "no difference on this pragma placement now")
        if hit:
            print(f"VIOLATION property=C11 replay={path}")
            return 1
        return 0
    if "files" in inp:
        with implib.workspace() as ws:
            for n, t in inp["files"].items():
                implib.write(os.path.join(ws, n), t)
            implib.write(os.path.join(ws, "alone", "v.md"), inp["files"]["v.md"])
            both = vlib.run_main(inp["argv"], cwd=ws)
            alone = vlib.run_main(["--continue-on-error", "scan", "v.md"], cwd=os.path.join(ws, "alone"))
        a = sorted(l for l in both[1].splitlines() if l.startswith("v.md:"))
        b = sorted(l for l in alone[1].splitlines() if l.startswith("v.md:"))
        e = [l for l in both[2].splitlines() if l.startswith("v.md:")]
        print({"with_other_file": a, "alone": b, "errors": e})
        if a != b or e:
            print(f"VIOLATION property=C11 replay={path}")
            return 1
        return 0
    print("replay:", rp.get("broken") or inp)
    return 1
