"""Validation of the *reference model* LeanMark (a test of the model, not a registered check).

Every `(source_markdown, expected_gfm)` pair of corpus/repo_cases.json is run through
`verifdrv leanmark-html`; the answer is compared with the expected HTML exactly (modulo a final
newline) and, failing that, up to white space between block tags.  Extensions are off in the
reference, so cases whose name says they exercise an extension are reported separately.

  python3 tools/props/leanmark_validate.py [--show N] [--filter SUBSTR] [--list] [--json out.json]
"""
import argparse, collections, json, os, re, sys, time

ROOT = os.path.dirname(os.path.dirname(os.path.dirname(os.path.abspath(__file__))))
sys.path.insert(0, os.path.join(ROOT, "tools"))
import vlib

EXT_PREFIX = ("extensions/",)
EXT_FILES = ("gfm/test_markdown_autolinks_extension.py", "gfm/test_markdown_strikethrough_extension.py",
             "gfm/test_markdown_tables_extension.py", "gfm/test_markdown_task_list_items.py",
             "gfm/test_markdown_disallowed_raw_html_extension.py")

BLOCK = r"(?:/?(?:p|h[1-6]|ul|ol|li|blockquote|pre|hr|table|thead|tbody|tr|th|td|div)\b[^>]*>)"


def norm(h):
    """white space between block tags is insignificant."""
    h = h.strip("\n")
    h = re.sub(r">\s+<(" + BLOCK + ")", r"><\1", h)
    h = re.sub(r"(<" + BLOCK + r")\s+<", r"\1<", h)
    h = re.sub(r"(<" + BLOCK + r")\n", r"\1", h)
    h = re.sub(r"\n(<" + BLOCK + r")", r"\1", h)
    return h


def deesc(h):
    return h.replace("&lt;", "<").replace("&gt;", ">").replace("&quot;", "\"")


def is_extension(name):
    return name.startswith(EXT_PREFIX) or name.split("::")[0] in EXT_FILES


def main():
    ap = argparse.ArgumentParser()
    ap.add_argument("--show", type=int, default=15, help="number of mismatches to print in full")
    ap.add_argument("--filter", default="", help="only cases whose name contains this")
    ap.add_argument("--list", action="store_true", help="list every mismatching case name")
    ap.add_argument("--json", default="", help="write mismatches to this file")
    a = ap.parse_args()
    cases = json.load(open(os.path.join(ROOT, "corpus", "repo_cases.json"), encoding="utf-8"))
    cases = [c for c in cases if a.filter in c["name"]]
    reqs = [vlib.hexs(c["md"]) for c in cases]
    t0 = time.time()
    scope = vlib.Driver("leanmark-inscope").run(reqs)
    t1 = time.time()
    outs = vlib.Driver("leanmark-html").run(reqs)
    t2 = time.time()
    evs = vlib.Driver("leanmark-events").run(reqs)
    t3 = time.time()
    per = collections.OrderedDict()
    mism = []
    tot = collections.Counter()
    for c, s, o in zip(cases, scope, outs):
        f = c["name"].split("::")[0]
        st = per.setdefault(f, collections.Counter())
        got = vlib.unhex(o)
        if is_extension(c["name"]):
            cat = "ext"
        elif s != "1":
            cat = "oos"
        elif got.strip("\n") == c["html"].strip("\n"):
            cat = "exact"
        elif norm(got) == norm(c["html"]):
            cat = "ws"
        elif "![" in c["md"] and deesc(norm(got)) == deesc(norm(c["html"])):
            # the expected HTML carries a raw-HTML inline unescaped inside alt="…" (pymarkdown finding F-ALTRAW, C03):
            # the reference escapes it, as cmark does (L_attr_safe); not counted for or against the reference
            cat = "altraw"
        else:
            cat = "diff"
            mism.append({"name": c["name"], "md": c["md"], "want": c["html"], "got": got})
        st[cat] += 1
        tot[cat] += 1
        if f.startswith("gfm/") and cat != "ext":
            tot["gfm_" + cat] += 1
    print(f"{'file':75s} {'n':>5s} {'exact':>5s} {'ws':>4s} {'diff':>4s} {'oos':>4s} {'ext':>4s}")
    for f, st in per.items():
        n = sum(st.values())
        print(f"{f:75s} {n:5d} {st['exact']:5d} {st['ws']:4d} {st['diff']:4d} {st['oos']:4d} {st['ext']:4d}")
    n_in = tot["exact"] + tot["ws"] + tot["diff"]
    g_in = tot["gfm_exact"] + tot["gfm_ws"] + tot["gfm_diff"]
    print()
    print(f"expected HTML with an unescaped raw-HTML inline inside alt (F-ALTRAW, excluded): {tot['altraw']}")
    print(f"all  : cases {len(cases)}  extension {tot['ext']}  out-of-scope {tot['oos']}  in-scope {n_in}: "
          f"exact {tot['exact']} ws-only {tot['ws']} mismatch {tot['diff']}  "
          f"({100.0 * (tot['exact'] + tot['ws']) / max(1, n_in):.2f} % match)")
    print(f"gfm/*: in-scope {g_in}: exact {tot['gfm_exact']} ws-only {tot['gfm_ws']} mismatch {tot['gfm_diff']}  "
          f"({100.0 * (tot['gfm_exact'] + tot['gfm_ws']) / max(1, g_in):.2f} % match)")
    print(f"driver: inscope {t1 - t0:.2f}s  html {t2 - t1:.2f}s ({len(cases) / max(1e-9, t2 - t1):.0f} docs/s)  "
          f"events {t3 - t2:.2f}s ({len(cases) / max(1e-9, t3 - t2):.0f} docs/s)")
    if a.list:
        for m in mism:
            print("MISMATCH", m["name"])
    for m in mism[: a.show]:
        print("=" * 70)
        print(m["name"])
        print("--- md:", repr(m["md"]))
        print("--- want:", repr(m["want"]))
        print("--- got :", repr(m["got"].strip("\n")))
    if a.json:
        json.dump(mism, open(a.json, "w"), indent=1)
    return 0


if __name__ == "__main__":
    sys.exit(main())
