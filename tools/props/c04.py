"""C04 — token stream is well-formed: balanced, properly nested, class-respecting.

proof:  Verif.Props.C04 over Verif.Model.WellFormed: wfCheck_sound_complete (the monitor decides exactly
        WellNested ∧ ClassOK, for all token lists), first_offender, prefix_open_stack / prefix_accepted (the
        monitor's stack = still-open starts after every accepted prefix), drop_atom_preserves, produce_wellNested /
        guarded_accepted (any producer writing through the primitives is accepted).
tie:    the compiled monitor (`verifdrv wf`) is run on the REAL, un-abstracted pymarkdown token stream (token_name,
        token class, EndMarkdownToken or not, requires_end_token, identity of start_markdown_token turned into an index)
        of every document of the pools: all one-line documents (prefix x body), all two-line core documents, every
        source of the repo's own parser tests, every rule test document; a subset again with the front-matter,
        strikethrough, task-list and extended-autolink extensions enabled.
oracle: (1) the property statement evaluated directly on the token OBJECTS by an independent recursive-descent reader
        (not the stack automaton, not the wire format); (2) the monitor's stack tops vs the still-open starts computed
        from the definition; (3) the stream delivered to a recording plug-in's next_token during a real scan equals the
        parser's stream minus the pragma token (same names, classes, back-pointers, str()).
Documents that fail to tokenize (or hang) are C01's subject: skipped and counted.
"""
import collections, json, multiprocessing as mp, os, re, shutil, signal
import vlib, implib, docs

EXTS = ("front-matter", "markdown-strikethrough", "markdown-task-list-items", "markdown-extended-autolinks")
PARSE_TIMEOUT = 10.0
CLS = {"CONTAINER_BLOCK": "c", "LEAF_BLOCK": "l", "INLINE_BLOCK": "i", "SPECIAL": "s"}
NAME_OK = re.compile(r"^[A-Za-z0-9_-]+$")

CORPUS = [
    "", "\n", "a", "# h\n", "- a *b* [c](/u)\n- d\n\n> q\n> ![i](/u)\n\n    code\n\n<div>\n\n[r]: /u\n# h\n",
    "> - a\n>   b\n> - c\n>\n>   > d\n", "1. a\n   - b\n     > c\n     > d\n   - e\n2. f\n", "- a\n\n      code\n\n  more\n",
    "***a **b [c *d*](/u) e** f***\n", "[a *b `c` <http://x.y> ![i](/u)* d](/u \"t\")\n", "a\n===\n\nb\n---\n", "```py\n\nx\n\n```\n",
    "<!--\n\n-->\n", "<pre>\n\nx\n</pre>\n", "> <!--\n>\n> -->\n", "- <script>\n\n  x\n  </script>\n",
    "<!-- pyml disable-next-line md013-->\n# h\n", "a\n<!-- pyml disable-next-line md013-->\nb\n", "<!-- pyml -->",
    "> a\nlazy\n> - b\nlazy2\n", "- a\n- b\n\n- c\n1. d\n2. e\n", "* a\n  * b\n    * c\n      * d\n", "> > > a\n> > b\n> c\nd\n",
    "[r]: /u\n\n[r] and [r][] and [x][r]\n", "- [r]: /u\n  [r]\n", "a  \nb\\\nc\n", "| a |\n", "    code\n\n\n    more\n", "- a\n  ===\n", "+ x\n+\n+ y\n",
    "1. a\n1. b\n\n   c\n\n   > q\n\n       code\n", "&amp; &#35; \\* <b> <foo@bar.com>\n", "*a\n\n*b\n", "[a](<b\n", "- > - > a\n",
    "# h \n", "## h ##  \n", "### foo ###     ", "#\th\t#\t\n", "a  \n===  \n", "> # h \n> a\n> ---\n", "- # h \n- ## i ##\n", "__s__ _e_ **s** *e*\n",
    "_a __b__ c_ and *a **b** c*\n", "[l1][r] [l2](/u) ![i][r]\n\n[r]: /u 't'\n", "``a`` `b` <http://a.b> <a@b.c> <i>\n", "~~~\n\n~~~\n- ```\n  x\n  ```\n",
    "   ***\n---\n___\n", "- a\n - b\n  - c\n   - d\n    - e\n", "1. a\n\n2. b\n\n3. c\n", "> a\n\n> b\n>\n> c\n", "- a\n> b\n- c\n", "> 1. a\n> 2. b\nc\n",
    "<div>\na\n</div>\n\n<?php\n\n?>\n", "<![CDATA[\n\n]]>\n", "- <!--\n\n  -->\n- b\n", "[r]:\n/u\n't\n\nx'\n", "[r]: /u\n[s]: /v\n===\n", "\ta\n\n\tb\n", "- \ta\n",
]
EXT_CORPUS = [
    "---\ntitle: x\n---\n# h\n", "---\na: b\n---\n", "---\na: b\n---\n\n- [ ] t\n- [x] u\n", "~~s~~ *a ~~b~~*\n", "- [ ] a\n  - [x] b ~~c~~\n",
    "www.example.com and https://a.b/c?d=e\n", "> ---\n> a: b\n> ---\n", "---\ntitle: x\n---\n<!-- pyml disable-next-line md013-->\na\n", "a\n---\nb: c\n---\n",
    "---\n\n---\n", "- [ ]\n", "~~a\n\n~~b\n",
]


class _Timeout(BaseException):
    pass


def _alarm(*_):
    raise _Timeout()


# ------------------------------------------------------------------ serialisation (un-abstracted)
def cls_of(t):
    c = getattr(t, "_MarkdownToken__token_class", None)
    if c is None:
        raise vlib.MachineryError("MarkdownToken no longer stores __token_class")
    return CLS[c.name]


def is_end(t):
    from pymarkdown.tokens.markdown_token import EndMarkdownToken
    return isinstance(t, EndMarkdownToken)


def wire(tokens):
    """[(name, cls letter, isEnd, requiresEnd, ptr or None)] — start_markdown_token identity -> index in this stream"""
    pos = {}
    for i, t in enumerate(tokens):
        pos.setdefault(id(t), i)
    out = []
    for t in tokens:
        if not NAME_OK.match(t.token_name):
            raise vlib.MachineryError(f"token name {t.token_name!r} is not an identifier")
        if is_end(t):
            out.append((t.token_name, cls_of(t), 1, int(bool(t.requires_end_token)), pos.get(id(t.start_markdown_token))))
        else:
            out.append((t.token_name, cls_of(t), 0, int(bool(t.requires_end_token)), None))
    return out


def wire_line(w, mode="d"):
    return mode + "|" + ";".join(f"{n},{c},{e},{r},{'' if not e else ('x' if p is None else p)}" for (n, c, e, r, p) in w)


def drop_token(w, k):
    """the stream without its k-th token, later back-pointers renumbered (Verif.Model.WellFormed.dropAt)"""
    out = list(w[:k])
    for (n, c, e, r, p) in w[k + 1:]:
        out.append((n, c, e, r, (p - 1) if (p is not None and p > k) else p))
    return out


# ------------------------------------------------------------------ direct oracle on the token objects
class Bad(Exception):
    def __init__(self, idx, why):
        super().__init__(why)
        self.idx, self.why = idx, why


def oracle(tokens, expect_eos=True):
    """The property statement, read off the token objects by recursive descent (a forest reader):
    returns None if well formed, else (index, explanation)."""
    from pymarkdown.tokens.markdown_token import MarkdownTokenClass as K
    n = len(tokens)
    if len({id(t) for t in tokens}) != n:
        return (0, "the same token object occurs twice in the stream")
    klass = lambda t: t._MarkdownToken__token_class

    def opens(t):
        return (not is_end(t)) and t.requires_end_token and not t.is_new_list_item

    def child_ok(parent, t, i):
        k = klass(t)
        if k == K.CONTAINER_BLOCK and t.is_container is not True or k == K.LEAF_BLOCK and t.is_leaf is not True:
            raise Bad(i, "token class and is_container/is_leaf disagree")
        holds_blocks = parent is None or parent.is_container
        if t.is_new_list_item:
            if parent is None or not parent.is_list_start:
                raise Bad(i, "li not directly inside a list")
            return
        if k in (K.CONTAINER_BLOCK, K.LEAF_BLOCK):
            if not holds_blocks:
                raise Bad(i, f"{t.token_name} (block) directly inside {parent.token_name}")
            if k == K.CONTAINER_BLOCK and not opens(t):
                raise Bad(i, "container token that opens nothing and is not li")
        elif k == K.INLINE_BLOCK:
            if holds_blocks:
                raise Bad(i, f"inline token {t.token_name} directly inside {'the document' if parent is None else parent.token_name}")
        else:  # SPECIAL
            if parent is not None:
                raise Bad(i, f"special token {t.token_name} inside {parent.token_name}")
            if opens(t):
                raise Bad(i, "special token opens a scope")

    def forest(i, parent):
        """reads siblings below `parent` from index i; returns the index of the end token that closes parent (or n)"""
        while i < n:
            t = tokens[i]
            if is_end(t):
                return i
            child_ok(parent, t, i)
            if opens(t):
                j = forest(i + 1, t)
                if j >= n:
                    raise Bad(i, f"{t.token_name} never closed")
                e = tokens[j]
                if e.start_markdown_token is not t:
                    raise Bad(j, f"{e.token_name} closes {t.token_name}@{i} but its back-pointer is another token")
                if e.type_name != t.token_name or e.token_name != "end-" + t.token_name:
                    raise Bad(j, f"{e.token_name} closes {t.token_name}")
                i = j + 1
            else:
                i += 1
        return n

    try:
        j = forest(0, None)
        if j < n:
            raise Bad(j, f"{tokens[j].token_name} with nothing open")
        for i, t in enumerate(tokens):
            if is_end(t):
                continue
            if t.is_front_matter and i != 0:
                raise Bad(i, "front-matter not first")
            if t.is_end_of_stream and not (i == n - 1 or (i == n - 2 and tokens[n - 1].is_pragma and not is_end(tokens[n - 1]))):
                raise Bad(i + 1, "token after end-of-stream")
            if t.is_pragma and i != n - 1:
                raise Bad(i + 1, "token after pragma")
        if expect_eos:
            body = tokens[:-1] if tokens and tokens[-1].is_pragma else tokens
            if not body or not body[-1].is_end_of_stream:
                raise Bad(max(n - 1, 0), "stream does not end with end-of-stream")
    except Bad as b:
        return (b.idx, b.why)
    except RecursionError:
        return (0, "nesting deeper than the oracle's recursion limit")
    return None


def open_tops(tokens):
    """Innermost still-open start after every token, from the definition: a start is open after token i iff no end
    token among tokens[0..i] points to it (identity)."""
    closed, starts, out = set(), [], []
    for i, t in enumerate(tokens):
        if is_end(t):
            closed.add(id(t.start_markdown_token))
        elif t.requires_end_token and not t.is_new_list_item:
            starts.append((i, id(t)))
        top = next((j for (j, x) in reversed(starts) if x not in closed), None)
        out.append("-" if top is None else str(top))
    return out


# ------------------------------------------------------------------ parser side (workers)
def parse_doc(text, exts):
    from pymarkdown.general.source_providers import InMemorySourceProvider
    tk = implib.parser(exts)
    old = signal.signal(signal.SIGALRM, _alarm)
    signal.setitimer(signal.ITIMER_REAL, PARSE_TIMEOUT)
    try:
        return tk.transform_from_provider(InMemorySourceProvider(text), do_add_end_of_stream_token=True), None
    except _Timeout:
        return None, "timeout"
    except Exception as e:  # BadTokenizationError and friends: C01
        return None, type(e).__name__
    finally:
        signal.setitimer(signal.ITIMER_REAL, 0)
        signal.signal(signal.SIGALRM, old)


def _work(task):
    k, text, exts = task
    toks, err = parse_doc(text, exts)
    if toks is None:
        return (k, err, None, None, None, None)
    w = wire(toks)
    return (k, None, w, oracle(toks), open_tops(toks), [str(t) for t in toks])


# ------------------------------------------------------------------ recording plug-in (real scan)
REC_SRC = '''
from pymarkdown.plugin_manager.plugin_details import PluginDetailsV2
from pymarkdown.plugin_manager.rule_plugin import RulePlugin
import builtins, os
LOG = builtins.__dict__.setdefault("_verif_c04_log", {})

class Vwf004Recorder(RulePlugin):
    def get_details(self):
        return PluginDetailsV2(plugin_name="verif-c04-recorder", plugin_id="VWF004", plugin_enabled_by_default=True,
            plugin_description="verif C04 recorder", plugin_version="0.0.1", plugin_interface_version=2)
    def next_token(self, context, token):
        LOG.setdefault(os.path.basename(context.scan_file), []).append(token)
'''


def _scan_task(task):
    """Real `scan` of a batch with only the recorder enabled; returns per document the delivered stream
    (wire, str) or an error string."""
    import builtins
    import enginelib as E
    batch, exts = task
    log = builtins.__dict__.setdefault("_verif_c04_log", {})
    log.clear()
    with implib.workspace() as ws:
        plug = implib.write(os.path.join(ws, "plug", "vwf004_recorder.py"), REC_SRC)
        d = os.path.join(ws, "docs")
        os.makedirs(d)
        names = []
        for i, (_, text) in enumerate(batch):
            nm = f"d{i:05d}.md"
            implib.write(os.path.join(d, nm), text)
            names.append(nm)
        ids, _ = E.builtin_meta()
        argv = ["--add-plugin", plug, "-d", ",".join(ids), "--continue-on-error"]
        for e in exts:
            argv += ["--set", f"extensions.{e}.enabled=$!True"]
        code, out, err = vlib.run_main(argv + ["scan"] + names, cwd=d)
    if "BadPluginError" in err or "Configuration Error" in err or code not in (0, 1):
        return [("fatal", None, None, f"scan exit {code}: {err[-400:]}")]
    res = []
    for (k, _), nm in zip(batch, names):
        toks = log.get(nm)
        if toks is None:
            m = re.search(re.escape(nm) + r":0:0: (.*)", err)
            res.append((k, None, None, (m.group(1) if m else f"no tokens delivered (exit {code}) {err[-200:]}")))
        else:
            res.append((k, wire(toks), [str(t) for t in toks], None))
    log.clear()
    return res


# ------------------------------------------------------------------ pools
BIG = ("d2full", "d3", "inline-emph", "inline-links")   # pools too large to scan through the plug-in completely: a seeded sample is scanned


def build_pools(ctx):
    q = ctx.quick()
    rule_docs = [t for _, t in docs.rule_resources()]
    pick = lambda seq, k: docs.sample(ctx.rng, list(seq), k) if q else list(seq)
    pools = [
        ("corpus", list(CORPUS), ()),
        ("d1", pick(docs.d1(), 300), ()),
        ("d2core", pick(docs.dn(2, docs.CORE_PREFIX, docs.CORE_BODY), 1200), ()),
        ("repo", pick(docs.repo_sources(), 600), ()),
        ("rules", pick(rule_docs, 150), ()),
        ("d2full", pick(docs.dn(2, docs.PREFIX, docs.BODY), 1200), ()),
        ("d3", pick(docs.dn(3, docs.PREFIX3, docs.BODY3), 800), ()),
        ("families", pick(docs.families(), 200), ()),
        ("edges", pick(docs.link_edges() + docs.leaf_edges(), 400), ()),
        ("inline-edges", docs.inline_edges(), ()),
        ("container-pairs", pick(docs.container_pairs(), 500), ()),
        ("marker-variants", pick(docs.corpus_marker_variants(), 800), ()),
        ("multi-pairs", pick(docs.multi_pairs(), 400), ()),
        ("nest-drop", list(docs.nest_drop()), ()),          # closed family, complete in both tiers
        ("inline-emph", pick(docs.inline_emph(), 1500), ()),
        ("inline-links", pick(docs.inline_links(), 800), ()),
        ("ext-corpus", list(EXT_CORPUS), EXTS),
        ("ext-repo", pick(docs.repo_sources(), 200), EXTS),
        ("ext-rules", pick(rule_docs, 100), EXTS),
        ("ext-d1", pick(docs.d1(), 100), EXTS),
    ]
    tasks, seen = [], set()
    for name, ds, exts in pools:
        for t in ds:
            if (t, exts) in seen:
                continue
            seen.add((t, exts))
            tasks.append((len(tasks), name, t, exts))
    return tasks


def footprint(ctx, w, idx, reason):
    """A rejection is absorbed only by an exact footprint: (reason, offending token name, parent token name)."""
    st = []
    for i, (n, c, e, r, p) in enumerate(w[:idx]):
        if e:
            if st:
                st.pop()
        elif r and n != "li":
            st.append(i)
    tok = w[idx][0] if idx < len(w) else None
    par = w[st[-1]][0] if st else None
    return {"reason": reason, "token": tok, "parent": par}


def monitor_rounds(ctx, items):
    """items: {k: wire}.  Runs the verified monitor; a rejection matching a known footprint is recorded and the
    offending point token removed (drop_atom_preserves: the rest of the stream is still decided).
    Returns {k: (final verdict string, [absorbed footprints], tops or None)}."""
    drv = vlib.Driver("wf")
    cur = {k: (w, []) for k, w in items.items()}
    final = {}
    for _ in range(64):
        if not cur:
            break
        keys = sorted(cur)
        answers = drv.run([wire_line(cur[k][0]) for k in keys])
        nxt = {}
        for k, a in zip(keys, answers):
            w, absorbed = cur[k]
            if a.startswith("ok"):
                final[k] = ("ok", absorbed, a.split()[1:] if not absorbed else None)
                continue
            m = re.match(r"err (\d+) (\w+)$", a)
            if not m:
                raise vlib.MachineryError(f"verifdrv wf answered {a!r}")
            idx, reason = int(m.group(1)), m.group(2)
            fp = footprint(ctx, w, idx, reason)
            f = ctx.match_finding(fp, "stream-rejected")
            droppable = idx < len(w) and not w[idx][2] and not (w[idx][3] and w[idx][0] != "li")
            if f and droppable:
                nxt[k] = (drop_token(w, idx), absorbed + [(f, fp)])
            else:
                final[k] = (a, absorbed, None)
        cur = nxt
    for k in cur:
        final[k] = ("err -1 tooManyFindings", cur[k][1], None)
    return final


class Acc:
    def __init__(self):
        self.evals = 0
        self.distinct = set()
        self.dist, self.reasons, self.depth_hist = collections.Counter(), collections.Counter(), collections.Counter()
        self.skipped, self.absorbed = collections.Counter(), collections.Counter()
        self.names, self.samples = set(), []
        self.oracle_evals = self.top_cmp = self.scanned = self.scan_pragma = self.scan_skipped = 0


def process_slice(ctx, tasks, acc, ok_build, scan_sel):
    by_k = {k: (pool, text, exts) for (k, pool, text, exts) in tasks}
    with mp.get_context("fork").Pool(16) as pl:
        parsed = pl.map(_work, [(k, t, e) for (k, _, t, e) in tasks], chunksize=50)
    streams, oracles, tops, strs = {}, {}, {}, {}
    for (k, err, w, orc, tp, ss) in parsed:
        if err:
            acc.skipped[err] += 1
            continue
        streams[k], oracles[k], tops[k], strs[k] = w, orc, tp, ss
    acc.oracle_evals += len(oracles)
    verdicts = monitor_rounds(ctx, streams) if ok_build else {}
    for k in sorted(verdicts):
        pool, text, exts = by_k[k]
        verdict, absorbed, mtops = verdicts[k]
        w, orc = streams[k], oracles[k]
        acc.evals += 1
        acc.dist[pool] += 1
        acc.names.update(n for (n, *_r) in w)
        depth, d = 0, 0
        for (n, c, e, r, p) in w:
            if e:
                d -= 1
            elif r and n != "li":
                d += 1
                depth = max(depth, d)
        acc.depth_hist[depth] += 1
        if depth >= 2:
            acc.distinct.add(hash(wire_line(w, "c")))
        if len(acc.samples) < 3 and depth >= 3 and len(w) < 40:
            acc.samples.append({"pool": pool, "doc": text, "extensions": list(exts), "stream": wire_line(w, "c"), "monitor": verdict})
        case = {"doc": text, "extensions": list(exts)}
        for (f, fp) in absorbed:
            acc.absorbed[f["id"]] += 1
            ctx.known_finding(f)
        if verdict != "ok":
            m = re.match(r"err (-?\d+) (\w+)$", verdict)
            idx, reason = int(m.group(1)), m.group(2)
            acc.reasons[reason] += 1
            fp = footprint(ctx, w, idx, reason) if idx >= 0 else {"reason": reason}
            ctx.report(dict(case, **fp), "stream-rejected",
                       {"pool": pool, "monitor": verdict, "direct_oracle": orc, "stream": wire_line(w, "c"),
                        "tokens": strs[k][:60], "oracle": "verified monitor wfCheck on the real token stream"})
        # the direct oracle must agree with the monitor (it objects to an absorbed finding too: that is expected)
        mon_ok = verdict == "ok" and not absorbed
        if (orc is None) != mon_ok and not (absorbed and orc is not None):
            if verdict == "ok":
                ctx.broken.append("monitor accepts a stream the direct oracle rejects")
                ctx.report(case, "oracle-rejects",
                           {"pool": pool, "monitor": verdict, "direct_oracle": orc, "stream": wire_line(w, "c"), "tokens": strs[k][:60],
                            "oracle": "property statement read off the token objects by recursive descent"})
            elif orc is None:
                ctx.broken.append("monitor rejects a stream the direct oracle accepts")
        # prefix_open_stack on the real stream
        if mtops is not None:
            acc.top_cmp += 1
            if mtops != tops[k]:
                ctx.broken.append("monitor stack differs from the still-open starts")
                ctx.report(case, "open-stack-differs", {"pool": pool, "monitor_tops": mtops, "definition_tops": tops[k],
                                                        "oracle": "innermost still-open start after every token, from the definition"})

    # ---- the stream as delivered to a plug-in during a real scan
    scan_keys = [k for k in sorted(streams) if k in scan_sel]
    groups = collections.defaultdict(list)
    for k in scan_keys:
        groups[by_k[k][2]].append((k, by_k[k][1]))
    batches = []
    for exts, items in groups.items():
        size = max(25, min(400, (len(items) + 15) // 16))
        batches += [(items[i:i + size], exts) for i in range(0, len(items), size)]
    if not batches:
        return
    with mp.get_context("fork").Pool(min(16, len(batches))) as pl:
        for res in pl.imap_unordered(_scan_task, batches, chunksize=1):
            for (k, w2, ss2, err) in res:
                if k == "fatal":
                    raise vlib.MachineryError("recording scan failed: " + err)
                pool, text, exts = by_k[k]
                if err is not None:
                    if "tokeniz" in err.lower() or "unhandled error" in err:
                        acc.scan_skipped += 1
                        continue
                    ctx.report({"doc": text, "extensions": list(exts)}, "plugin-stream-missing", {"pool": pool, "error": err,
                               "oracle": "a recording plug-in must receive the parser's stream"})
                    continue
                acc.scanned += 1
                w, ss = streams[k], strs[k]
                if w and w[-1][0] == "pragma":
                    w, ss = w[:-1], ss[:-1]
                    acc.scan_pragma += 1
                if (w2, ss2) != (w, ss):
                    j = next((i for i, (a, b) in enumerate(zip(zip(w, ss), zip(w2, ss2))) if a != b), min(len(w), len(w2)))
                    ctx.report({"doc": text, "extensions": list(exts)}, "plugin-stream-differs",
                               {"pool": pool, "first_difference_at": j, "parser": [ss[j:j + 3], w[j:j + 3]], "plugin": [ss2[j:j + 3], w2[j:j + 3]],
                                "oracle": "tokens delivered to next_token == TokenizedMarkdown stream minus the pragma token"})


def run(ctx):
    ok_build = ctx.lean_stage(["emph_chars"], ["Verif.Props.C04", "Verif.Props.Coalesce", "Verif.Props.Emphasis", "Verif.Props.GfmRender", "Verif.Props.InlineLoop", "Verif.Props.InlineLoop2"])
    import blocks
    blocks.emphasis(ctx)       # resolve_wellNested: emphasis start/end tokens balanced and properly nested for every input
    blocks.inlineloop(ctx)     # inline_loop_order: the inline token list only grows at its end, no two adjacent plain text tokens
    blocks.gfm(ctx)            # the generator's stack discipline on well-formed streams (render_run, render_balanced)
    ctx.block("coalescelib", "coalesce", __import__("blocks").SRC["coalesce"])        # coalesce pass preserves well-formedness (coalesce_preserves_wf)
    if not ok_build:
        ctx.broken.append("lake build failed: the monitor cannot be run")
    tasks = build_pools(ctx)
    # which documents also go through a real scan with the recording plug-in
    if ctx.quick():
        fixed = [k for (k, pool, _, _) in tasks if pool in ("corpus", "ext-corpus")]
        scan_sel = set(fixed) | set(docs.sample(ctx.rng, [k for (k, *_r) in tasks], 400))
    else:
        scan_sel = {k for (k, pool, _, _) in tasks if pool not in BIG}
        for big in BIG:
            scan_sel |= set(docs.sample(ctx.rng, [k for (k, pool, _, _) in tasks if pool == big], 15000))
    acc = Acc()
    SLICE = 60000
    for i in range(0, len(tasks), SLICE):
        process_slice(ctx, tasks[i:i + SLICE], acc, ok_build, scan_sel)

    if ctx.broken and not ctx.violations:
        ctx.violation({"oracle": "Verif.Props.C04 / monitor-vs-oracle correspondence broken; no failing document found"}, no_input=True)
    ctx.assumptions += [
        "a token opens a scope iff requires_end_token and it is not the new-list-item token (li inherits the flag but is never closed)",
        "token class read from MarkdownToken.__token_class (cross-checked against is_container / is_leaf by the direct oracle)",
        "documents that fail to tokenize or exceed %.0f s are C01's subject and skipped (counted)" % PARSE_TIMEOUT,
        "no theorem about pymarkdown's own stack discipline: the universal claim for the implementation rests on the monitored pools"]
    first = tasks[:2]
    ctx.write_evidence({
        "evaluations": acc.evals, "distinct_nontrivial": len(acc.distinct),
        "rule": "one evaluation = the verified monitor run on the real token stream of one (document, extension set); pools: fixed corpus, "
                "all one-line documents PREFIX x BODY (with and without final newline), all two-line CORE documents, all two-line PREFIX x BODY documents, "
                "all three-line PREFIX3 x BODY3 documents, every repo parser-test source, every rule test document, and corpus/repo/rules/one-line again "
                "with 4 extensions enabled; quick = seeded sample of the same pools; non-trivial and distinct = distinct serialised streams whose nesting depth is >= 2. "
                "The plug-in comparison covers every document of the small pools and a seeded sample of 15000 of each of the two big pools (thorough), 400 + corpus (quick)",
        "exhaustive": not ctx.quick(),
        "correspondence": {"distribution": dict(acc.dist), "skipped_untokenizable": dict(acc.skipped),
                           "max_depth_histogram": {str(k): v for k, v in sorted(acc.depth_hist.items())},
                           "token_names_seen": sorted(acc.names), "rejections_by_reason": dict(acc.reasons), "findings_absorbed": dict(acc.absorbed),
                           "direct_oracle_evaluations": acc.oracle_evals, "open_stack_comparisons": acc.top_cmp,
                           "plugin_streams_compared": acc.scanned, "plugin_streams_with_pragma_removed": acc.scan_pragma, "plugin_scan_skipped": acc.scan_skipped},
        "samples": acc.samples or [{"doc": t, "extensions": list(e)} for (_, _, t, e) in first]})
    ctx.coverage["wall"] = ""


def replay(ctx, path):
    rp = json.load(open(path))
    if rp.get("kind") == "no-failing-input-found":
        print("replay names broken obligations only:", rp.get("broken"))
        return 1
    inp = rp["input"]
    text, exts = inp["doc"], tuple(inp.get("extensions", ()))
    toks, err = parse_doc(text, exts)
    if toks is None:
        print("document no longer tokenizes:", err)
        return 0
    w = wire(toks)
    ans = vlib.Driver("wf").run([wire_line(w)])[0]
    orc = oracle(toks)
    print("monitor:", ans)
    print("direct oracle:", orc)
    for i, t in enumerate(toks):
        print(f"  {i:3d} {w[i]} {t}")
    verdict, absorbed, _ = monitor_rounds(ctx, {0: w})[0]
    for (f, fp) in absorbed:
        ctx.known_finding(f)
    bad = verdict != "ok" or (orc is not None and not absorbed)
    if rp.get("symptom", "").startswith("plugin-stream"):
        res = _scan_task(([(0, text)], exts))
        k, w2, ss2, e = res[0]
        ww = w[:-1] if w and w[-1][0] == "pragma" else w
        bad = e is not None or w2 != ww
        print("plug-in stream equal to parser stream minus pragma:", not bad)
    if bad:
        print(f"VIOLATION property=C04 replay={path}")
        return 1
    return 0
