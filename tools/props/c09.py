"""C09 — fix mode converges: one run reaches a fixed point with nothing fixable left.

proof:  Verif.Props.C09 — levels_strictly_increase, passes_bounded (the scheduler always terminates, in at most #levels passes),
        fix_fixed_point (under H1 own-level clean, H2 no lower-level trigger created, Hdet detection complete), fix_idempotent,
        and the same-level gap witness (without H2 at equal level a trigger provably survives).
tie:    fix-mode correspondence: probe fixer rules with chosen levels through the real `fix` vs Verif.Model.FixSched
        (pass sequence, bytes, announcement, exit, file operations, call log).
oracle: H1/H2/convergence on the real rules: fix(d); scan(fix d) shows no failure of a fix-capable rule; fix(fix d) changes
        nothing and exits 0 — default rule set, each fix-capable default rule alone, sampled pairs.
"""
import json, multiprocessing as mp, os, re
import vlib, implib, docs, enginelib as E, fixlib as F

RULE = re.compile(r": ((?:MD|PML)\d+): ")


def one(ws, x, args):
    d = os.path.join(ws, "w")
    os.makedirs(d, exist_ok=True)
    p = os.path.join(d, "x.md")
    implib.write(p, x)
    c1, o1, e1 = vlib.run_main(args + ["fix", "x.md"], cwd=d)
    a1 = open(p, encoding="utf-8", newline="").read()
    if c1 not in (0, 3):
        return ("fix-error", None, a1)
    c2, o2, e2 = vlib.run_main(args + ["scan", "x.md"], cwd=d)
    c3, o3, e3 = vlib.run_main(args + ["fix", "x.md"], cwd=d)
    a2 = open(p, encoding="utf-8", newline="").read()
    fm = E.fix_meta()
    if c2 not in (0, 1) or (c2 == 1 and not o2.strip()):
        return ("scan-error", None, a1)
    left = sorted({m.group(1) for m in RULE.finditer(o2) if fm.get(m.group(1).lower(), (False,))[0]})
    sig = []
    if left:
        sig.append("left:" + ",".join(left))
    if a2 != a1:
        sig.append("second-run-changes-bytes")
    elif c3 != 0:
        sig.append("second-run-announces-fix(exit %d)" % c3)
    return ("ok", ";".join(sig), a1)


def _task(t):
    cname, args, chunk = t
    out = []
    with implib.workspace() as ws:
        for x in chunk:
            try:
                out.append((x,) + one(ws, x, args))
            except BaseException as e:  # SystemExit from unexpected paths etc.
                out.append((x, "fix-error", None, x))
    return cname, out


def sweep(ctx, pool, configs):
    size = 60
    tasks = [(c, a, pool[k:k + size]) for c, a in configs for k in range(0, len(pool), size)]
    with mp.get_context("fork").Pool(16) as pl:
        results = pl.map(_task, tasks, chunksize=1)
    evals, nontrivial, fails, skipped = 0, set(), [], 0
    for cname, out in results:
        for x, st, sig, a1 in out:
            evals += 1
            if st != "ok":
                skipped += 1      # a failing fix/scan is C07/C15's subject
                continue
            if a1 != x:
                nontrivial.add((cname, x))
            if sig:
                fails.append((cname, x, sig))
    return evals, nontrivial, fails, skipped


def run(ctx):
    ctx.lean_stage([], ["Verif.Props.C09", "Verif.Props.TokenRules", "Verif.Props.TokenRules2", "Verif.Props.TokenRules2.Md023", "Verif.Props.TokenRules2.Md030", "Verif.Props.TokenRules2.Md037", "Verif.Props.TokenRules2.Md044", "Verif.Props.TokenRules2.Md046", "Verif.Props.TokenRules2.Interfere", "Verif.Props.TokenRules2.InterfereRows", "Verif.Props.ListRules"])
    import blocks
    blocks.tokenrules2(ctx)    # H1 / idempotence for MD030 MD046 MD044, proved counter-examples for MD037 MD023; 14-fixer interference table; md029+md030 same-token conflict
    blocks.listrules(ctx)      # md007_fix_keeps_li_trigger, md007_fix_not_idempotent, md006_fix_not_converged: proved counter-examples to H1 for the list-indentation fixers
    blocks.tokenrules(ctx)     # H1 (fix removes its own trigger), idempotence, H2 table and the joint level-1 pass for nine token fixers
    stats_c, samples = F.fix_correspondence(ctx, 40 if ctx.quick() else 600, F.FIX_CORPUS)
    fm = E.fix_meta()
    dflt = E.default_ids()
    fixable = [k for k in dflt if fm[k][0]]
    res = [t for _, t in docs.rule_resources()]
    srcs = docs.repo_sources()
    if ctx.quick():
        pool = docs.sample(ctx.rng, res, 100) + docs.sample(ctx.rng, srcs, 150) + docs.sample(ctx.rng, docs.families(), 200)
        singles = docs.sample(ctx.rng, fixable, 3)
        pairs = []
    else:
        pool = res + srcs + docs.families()
        singles = fixable
        pairs = [tuple(ctx.rng.sample(fixable, 2)) for _ in range(0)]
    pool = list(dict.fromkeys(pool))
    configs = [("default", [])] + [("only-" + r, E.only_args([r])) for r in singles]
    small = docs.sample(ctx.rng, pool, 80) if ctx.quick() else pool
    evals, nontrivial, fails, skipped = sweep(ctx, pool, configs[:1])
    e2, n2, f2, s2 = sweep(ctx, small if ctx.quick() else pool, configs[1:])
    evals += e2; nontrivial |= n2; fails += f2; skipped += s2
    base = vlib.InputBaseline("C09")
    for cname, x, sig in fails:
        vlib.collect_failure("C09", cname, x, sig)
        if base.absorbs(cname, x, sig):
            continue
        ctx.report({"doc": x, "config": cname}, "not-converged", {"signature": sig,
                   "oracle": "after one `fix`: scan must show no failure of a fix-capable rule and a second `fix` must change nothing (exit 0)"})
    fams = {}
    for sig, n in base.absorbed.items():
        fam = "F-C09 " + sig
        fams[fam] = n
    for f in ctx.findings:
        if f["id"] == "F-NONCONVERGE" and base.absorbed:
            ctx.known_finding(f, f"{sum(base.absorbed.values())} listed inputs in {len(base.absorbed)} signature families (findings/C09.inputs.json): " + "; ".join(f"{k} x{v}" for k, v in sorted(base.absorbed.items(), key=lambda kv: -kv[1])[:6]))
    if ctx.broken and not ctx.violations:
        ctx.violation({"oracle": "Verif.Props.C09 / fix-mode correspondence broken; the convergence sweep found no unlisted failing document"}, no_input=True)
    ctx.assumptions += ["H1/H2/Hdet are hypotheses of fix_fixed_point; for the real fixers they are explored, not proved",
                        "documents on which fix or the re-scan fails are C07/C15's subject and skipped",
                        "non-converging inputs of the pinned tree are listed one by one in findings/C09.inputs.json (exact input + signature)"]
    ctx.write_evidence({"correspondence": stats_c,
                        "convergence_sweep": {"evaluations": evals, "distinct_nontrivial": len(nontrivial), "documents": len(pool), "configs": [c for c, _ in configs],
                                              "skipped_failing_runs": skipped, "listed_inputs_absorbed": base.absorbed,
                                              "rule": "pool documents x {default, each fix-capable default rule alone}; non-trivial = fix changed the document", "exhaustive": not ctx.quick()},
                        "samples": samples})


def replay(ctx, path):
    rp = json.load(open(path))
    inp = rp.get("input", {})
    if "doc" in inp:
        args = [] if inp["config"] == "default" else E.only_args([inp["config"][5:]])
        with implib.workspace() as ws:
            st, sig, a1 = one(ws, inp["doc"], args)
        print(st, sig)
        if sig:
            print(f"VIOLATION property=C09 replay={path}")
            return 1
        return 0
    if "specs" in inp:
        with implib.workspace() as ws:
            real = F.run_real_fix(ws, inp["specs"], inp["doc"])
        ans, _ = F.model_fix(inp["specs"], inp["doc"])
        d = F.compare_fix(real, F.parse_model(ans) if ans else None, inp["doc"])
        print(d)
        if d:
            print(f"VIOLATION property=C09 replay={path}")
            return 1
        return 0
    print("replay:", rp.get("broken"))
    return 1
