"""C06 — rule verdicts match the documented condition, no more and no less.

reference: Verif.Model.RuleSpec.* — for each of the 24 rules a function `cond : Cfg -> lines -> LeanMark events -> [(line, col?)]`
        written from newdocs/src/plugins/rule_mdXXX.md (never from the rule code, never over pymarkdown tokens).
proof:  Verif.Props.C06 — per rule a sanity theorem pinning the formalisation to the sentence of the page; for the line rules
        `faithful_eq_spec` (code-shaped Verif.Model.LineRules = documented condition, hypotheses printed, witnesses for the excluded
        points), and for the line fixes fix_removes_own_trigger / fix_idempotent / fix_only_whitespace / pairwise non-interference
        (with the MD010 -> MD009 and MD009 -> MD047 counter-examples).
tie:    the property itself: {(line[, column])} reported by a real `scan` with that rule ALONE vs `cond`, on documents where
        pymarkdown's HTML equals LeanMark's (so a difference is the rule's, not the parser's), across the documented
        configuration values of the rule.  Secondary tie: the faithful LineRules (scan and fix of MD009/MD010/MD047) vs the
        real scan / fix under the line context read off LeanMark.
oracle: the pages' own examples: every "Failure Scenarios" example must be reported by the REAL rule, every "Correct Scenarios"
        example must not (independent of the Lean model), and the same for `cond`.
"""
import collections, json, multiprocessing as mp, os, re, signal, sys, tempfile, time

sys.path.insert(0, os.path.dirname(os.path.dirname(os.path.abspath(__file__))))
import vlib, implib, docs, enginelib as E, leanmarklib as LM

PROP = "C06"
T, F = True, False

# ---------------------------------------------------------------------------------------------------------------
# the rules, their documented configuration items and the values explored (first = default)
# "col": the page documents the column -> compared; otherwise only lines (as a multiset) are compared
RULES = collections.OrderedDict([
    ("md001", dict(configs=[{}])),
    ("md003", dict(configs=[{}, {"style": "atx"}, {"style": "atx_closed"}, {"style": "setext"}, {"style": "setext_with_atx"},
                            {"style": "setext_with_atx_closed"}, {"style": "consistent", "allow-setext-update": T}])),
    ("md004", dict(configs=[{}, {"style": "asterisk"}, {"style": "dash"}, {"style": "plus"}, {"style": "sublist"}])),
    ("md009", dict(configs=[{}, {"br_spaces": 0}, {"br_spaces": 3}, {"strict": T}, {"br_spaces": 4, "strict": T},
                            {"list_item_empty_lines": T, "br_spaces": 0}, {"list_item_empty_lines": T}])),
    ("md010", dict(configs=[{}, {"code_blocks": F}], col=True)),
    ("md012", dict(configs=[{}, {"maximum": 0}, {"maximum": 2}, {"maximum": 3}])),
    ("md013", dict(configs=[{}, {"line_length": 20}, {"line_length": 20, "strict": T}, {"line_length": 20, "heading_line_length": 10},
                            {"line_length": 20, "code_block_line_length": 10}, {"line_length": 10, "headings": F},
                            {"line_length": 10, "code_blocks": F}, {"line_length": 5, "heading_line_length": 7, "code_block_line_length": 3, "strict": T},
                            # pairwise: each switch off with the OTHER kinds' limits below / above line_length
                            {"line_length": 30, "heading_line_length": 12, "code_blocks": F}, {"line_length": 30, "code_block_line_length": 12, "headings": F},
                            {"line_length": 30, "heading_line_length": 12, "headings": F}, {"line_length": 30, "code_block_line_length": 12, "code_blocks": F},
                            {"line_length": 12, "heading_line_length": 30}, {"line_length": 12, "code_block_line_length": 30},
                            {"line_length": 20, "heading_line_length": 10, "code_block_line_length": 15, "code_blocks": F, "strict": T}],
                   col=True)),
    ("md018", dict(configs=[{}])),
    ("md019", dict(configs=[{}])),
    ("md022", dict(configs=[{}, {"lines_above": 0}, {"lines_below": 0}, {"lines_above": 2}, {"lines_below": 2}, {"lines_above": 0, "lines_below": 0}])),
    ("md023", dict(configs=[{}])),
    ("md024", dict(configs=[{}, {"siblings_only": T}, {"allow_different_nesting": T}])),
    ("md025", dict(configs=[{}, {"level": 2}, {"level": 3}])),
    ("md026", dict(configs=[{}, {"punctuation": ".,;:!?"}, {"punctuation": "?"}, {"punctuation": ""}])),
    ("md031", dict(configs=[{}, {"list_items": F}])),
    ("md032", dict(configs=[{}])),
    ("md035", dict(configs=[{}, {"style": "---"}, {"style": "***"}, {"style": "* * *"}, {"style": "___"}])),
    ("md040", dict(configs=[{}])),
    ("md041", dict(configs=[{}, {"level": 2}, {"level": 3}])),
    ("md042", dict(configs=[{}])),
    ("md045", dict(configs=[{}])),
    ("md046", dict(configs=[{}, {"style": "fenced"}, {"style": "indented"}])),
    ("md047", dict(configs=[{}])),
    ("md048", dict(configs=[{}, {"style": "backtick"}, {"style": "tilde"}])),
])
HEX_VALUED = {("md026", "punctuation"), ("md035", "style")}


def cfg_name(cfg):
    return ",".join(f"{k}={cfg[k]}" for k in sorted(cfg)) or "default"


def set_args(rid, cfg):
    a = []
    for k in sorted(cfg):
        v = cfg[k]
        sv = ("$!True" if v else "$!False") if isinstance(v, bool) else ("$#%d" % v) if isinstance(v, int) else v
        a += ["--set", f"plugins.{rid}.{k}={sv}"]
    return a


def model_cfg(rid, cfg):
    parts = []
    for k in sorted(cfg):
        v = cfg[k]
        if isinstance(v, bool):
            sv = "1" if v else "0"
        elif isinstance(v, int):
            sv = str(v)
        elif (rid, k) in HEX_VALUED and v != "consistent":
            sv = vlib.hexs(v)
        else:
            sv = v
        parts.append(f"{k}={sv}")
    return ";".join(parts)


def model_hits(rid, cfg, texts):
    mc = model_cfg(rid, cfg)
    out = []
    for a in vlib.Driver("rulespec").run([f"{rid}|{mc}|{vlib.hexs(t)}" for t in texts]):
        if a.startswith("?"):
            raise vlib.MachineryError(f"rulespec {rid}: {a}")
        hs = []
        for item in a.split(",") if a else []:
            l, c = item.split(":")
            hs.append((int(l), None if c == "-" else int(c)))
        out.append(hs)
    return out


# ---------------------------------------------------------------------------------------------------------------
# the pool: documents on which pymarkdown's HTML equals LeanMark's
def _real_html(text):
    from pymarkdown.transform_gfm.transform_to_gfm import TransformToGfm

    def boom(*_):
        raise TimeoutError()
    signal.signal(signal.SIGVTALRM, boom)
    signal.setitimer(signal.ITIMER_VIRTUAL, 5.0)
    try:
        toks = implib.parser().transform(text, show_debug=False)
        return TransformToGfm().transform(toks)
    except BaseException as e:  # parser failures and hangs are C01's subject
        return None
    finally:
        signal.setitimer(signal.ITIMER_VIRTUAL, 0)


def _html_chunk(chunk):
    return [_real_html(t) for t in chunk]


H_ALPHA = ["# a", "## b", "### c", "#### d", "a\n===", "b\n---", "## b ##", "# a.", "### a"]
L_ALPHA = ["[a]()", "[a](#)", "[a]( )", "![a]()", "![](/u)", "![ ](/u)", "[a](b)", "![a](#x)", "[a][r]", "![][r]", "[ ](/u)", "[a](<>)",
           "![*e*](/u)", "![`c`](/u)", "![a](# )", "[a]"]
A_ALPHA = ["#a", "##a", "#a#", "#a *b*", " #a", "   #a", "    #a", "#a\\", "#  a", "##   a", "#\ta", "# a", "#  a #", "####### a",
           "#######a", "#", "##  ", "a"]


def generated():
    """small targeted alphabets for the rules the repository's documents hardly exercise (headings in sequence, link / image
    forms, hash-prefixed lines)."""
    import itertools
    for n in (1, 2, 3):
        for t in itertools.product(H_ALPHA, repeat=n):
            yield "\n\n".join(t) + "\n"
    for a in L_ALPHA:
        yield a + "\n"
        yield a + "\n\n[r]: <>\n"
        yield a + "\n\n[r]: /u\n"
    for a, b in itertools.product(L_ALPHA, repeat=2):
        yield a + " x " + b + "\n\n[r]: /u\n"
    for a in A_ALPHA:
        yield a + "\n"
    for a, b in itertools.product(A_ALPHA, repeat=2):
        yield a + "\n" + b + "\n"
        yield "> " + a + "\n> " + b + "\n"
    # line-length ladder: a heading, a paragraph line (with and without interior spaces) and a code line of each length,
    # so that every combination of MD013's three limits has lines between any two of them
    for L in (6, 9, 11, 14, 18, 22, 26, 32, 45):
        words = ("w " * L)[:L - 1] + "x"
        yield "# " + "h" * (L - 2) + "\n"
        yield "# " + words[2:] + "\n\n" + words + "\n\n```text\n" + words + "\n```\n\n    " + words[4:] + "\n"
        yield "x" * L + "\n"
        yield "Setext " + "s" * max(0, L - 7) + "\n===\n"


def space(ctx):
    """[(stratum, text)] — the closed world: thorough enumerates it, quick samples it (seeded)."""
    out = [("gen", t) for t in generated()]
    for rel, t in docs.rule_resources():
        out.append(("res:" + rel.split(os.sep)[0], t))
    for t in docs.repo_sources():
        out.append(("src", t))
    for t in docs.d1():
        out.append(("d1", t))
    for t in docs.dn(2, docs.CORE_PREFIX, docs.CORE_BODY):
        out.append(("d2", t))
    seen, uniq = set(), []
    for s, t in out:
        if t not in seen:
            seen.add(t)
            uniq.append((s, t))
    return uniq


def agreeing(pool):
    """filter to documents in LeanMark's scope whose HTML agrees; returns (kept, stats)."""
    texts = [t for _, t in pool]
    scope = LM.in_scope(texts)
    lm = LM.html(texts)
    size = 200
    chunks = [texts[k:k + size] for k in range(0, len(texts), size)]
    with mp.get_context("fork").Pool(16) as pl:
        real = [h for ch in pl.map(_html_chunk, chunks, chunksize=1) for h in ch]
    kept, st = [], collections.Counter()
    for (s, t), sc, a, b in zip(pool, scope, lm, real):
        if not sc:
            st["out-of-scope"] += 1
        elif b is None:
            st["parser-failure"] += 1
        elif a.strip("\n") != b.strip("\n"):
            st["html-differs"] += 1
        else:
            st["agree"] += 1
            kept.append((s, t))
    return kept, dict(st)


# ---------------------------------------------------------------------------------------------------------------
# the real side
def _scan_task(task):
    rid, cfg, chunk = task
    with implib.workspace() as ws:
        res, fatal = E.scan_docs(ws, chunk, E.only_args([rid]) + set_args(rid, cfg))
    if fatal:
        return rid, cfg, None, fatal
    out = []
    for reps, err in res:
        out.append((sorted((l, c) for l, c, i, _ in reps if i.lower() == rid), err))
    return rid, cfg, out, None


def canon(rid, real, model):
    """(missed, spurious) — multisets of lines, with the column where the model gives one."""
    with_col = RULES[rid].get("col")
    r = collections.Counter((l, c) if with_col else l for l, c in real)
    m = collections.Counter((l, c) if with_col else l for l, c in model)
    return sorted((m - r).elements()), sorted((r - m).elements())


def compare(rid, cfg, texts, pl):
    """-> [(text, real, model, missed, spurious, err)] for every text."""
    size = 150
    tasks = [(rid, cfg, texts[k:k + size]) for k in range(0, len(texts), size)]
    real = []
    for _, _, out, fatal in pl.map(_scan_task, tasks, chunksize=1):
        if fatal:
            raise vlib.MachineryError(f"scan {rid} {cfg}: {fatal}")
        real += out
    model = model_hits(rid, cfg, texts)
    res = []
    for t, (rr, err), mm in zip(texts, real, model):
        if err:
            res.append((t, rr, mm, [], [], err))
        else:
            mi, sp = canon(rid, rr, mm)
            res.append((t, rr, mm, mi, sp, None))
    return res


def signature(rid, missed, spurious):
    return rid + ":" + "+".join((["missed"] if missed else []) + (["spurious"] if spurious else []))


# ---------------------------------------------------------------------------------------------------------------
# secondary tie: the faithful LineRules (scan with columns, fix) vs the real rule, line context from LeanMark
LINE_RULES = [("md009", {}), ("md009", {"strict": T}), ("md009", {"br_spaces": 3}), ("md009", {"br_spaces": 1}),
              ("md009", {"list_item_empty_lines": T}), ("md010", {}), ("md010", {"code_blocks": F}), ("md047", {})]


def _fix_task(task):
    rid, cfg, chunk = task
    out = []
    with implib.workspace() as ws:
        d = os.path.join(ws, "fx")
        os.makedirs(d)
        names = []
        for k, t in enumerate(chunk):
            n = f"d{k:05d}.md"
            implib.write(os.path.join(d, n), t)
            names.append(n)
        code, o, e = vlib.run_main(["--continue-on-error"] + E.only_args([rid]) + set_args(rid, cfg) + ["fix"] + names, cwd=d)
        bad = set(re.findall(r"^(d\d{5}\.md):0:0:", e, re.M))
        for n in names:
            out.append(None if n in bad or code not in (0, 3) else open(os.path.join(d, n), encoding="utf-8", newline="").read())
    return out


def _scan_cols_task(task):
    rid, cfg, chunk = task
    with implib.workspace() as ws:
        res, fatal = E.scan_docs(ws, chunk, E.only_args([rid]) + set_args(rid, cfg))
    if fatal:
        return None
    return [(sorted((l, c) for l, c, i, _ in reps if i.lower() == rid), err) for reps, err in res]


def faithful_tie(texts, pl):
    """-> (evaluations, nontrivial, mismatches [(rule, cfg, kind, text, real, model)])"""
    size = 120
    evals, nontriv, bad = 0, 0, []
    for rid, cfg in LINE_RULES:
        mc = model_cfg(rid, cfg)
        chunks = [texts[k:k + size] for k in range(0, len(texts), size)]
        rs = [x for ch in pl.map(_scan_cols_task, [(rid, cfg, ch) for ch in chunks], chunksize=1) for x in (ch or [])]
        rf = [x for ch in pl.map(_fix_task, [(rid, cfg, ch) for ch in chunks], chunksize=1) for x in ch]
        if len(rs) != len(texts):
            raise vlib.MachineryError("faithful tie: scan failed")
        ms = vlib.Driver("linerules").run([f"scan|{rid}|{mc}|{vlib.hexs(t)}" for t in texts])
        mf = vlib.Driver("linerules").run([f"fix|{rid}|{mc}|{vlib.hexs(t)}" for t in texts])
        for t, (r, err), f, a, b in zip(texts, rs, rf, ms, mf):
            if err or f is None:
                continue
            evals += 2
            m = sorted(tuple(int(x) for x in it.split(":")) for it in a.split(",")) if a else []
            if rid == "md047":
                m = [(l, c) for l, c in m]
            fm = vlib.unhex(b)
            if r or f != t:
                nontriv += 1
            if m != r:
                bad.append((rid, cfg_name(cfg), "scan", t, r, m))
            if fm != f:
                bad.append((rid, cfg_name(cfg), "fix", t, f, fm))
    return evals, nontriv, bad


# ---------------------------------------------------------------------------------------------------------------
# the pages' own examples: (rule, config, document, expected: True = must be reported / False = must not, where it is said)
SP = " "
PAGE_EXAMPLES = [
    ("md001", {}, "# Heading 1\n\n### Heading 3\n", T, "Failure Scenarios"),
    ("md001", {}, "# Heading 1\n\n## Heading 2\n\n### Heading 3\n\n#### Heading 4\n\n## Another Heading 2\n\n### Another Heading 3\n", F, "Correct Scenarios"),
    ("md003", {}, "## Atx Heading Without Closing Hashes\n\n## Atx Heading With Closing Hashes ##\n\nSetExt Heading\n===============\n", T, "Failure Scenarios"),
    ("md003", {}, "# ATX style H1\n\n## ATX style H2\n", F, "Correct Scenarios"),
    ("md003", {"style": "setext_with_atx"}, "Setext style H1\n===============\n\nSetext style H2\n---------------\n\n### ATX style H3\n", F, "Correct Scenarios, setext_with_atx"),
    ("md003", {"style": "consistent", "allow-setext-update": T}, "Setext style H1\n===============\n\nSetext style H2\n---------------\n\n### ATX style H3\n", F, "Allowing Auto-Detection"),
    ("md003", {}, "Setext style H1\n===============\n\nSetext style H2\n---------------\n\n### ATX style H3\n", T, "Allowing Auto-Detection: without the setting the style is setext"),
    ("md004", {}, "+ First Item\n- Second Item\n* Third Item\n", T, "Failure Scenarios"),
    ("md004", {}, "+ First Item\n+ Second Item\n+ Third Item\n", F, "Correct Scenarios"),
    ("md004", {"style": "sublist"}, "+ First Level\n  - Second Level\n    * Third Level\n\n+ Another List\n  - With Sublist Items\n    * At each level\n", F, "Correct Scenarios, sublist"),
    ("md004", {}, "+ First Level\n  - Second Level\n    * Third Level\n", T, "consistent: every Unordered List Start the same, lists or sublists"),
    ("md009", {}, "this line ends with one space character" + SP + "\n", T, "Failure Scenarios"),
    ("md009", {"strict": T}, "This line does not end with any spaces.\nThis line ends with one space." + SP + "\nThis line ends with two spaces." + SP * 2 + "\nThis line ends with three spaces." + SP * 3 + "\n", T, "Failure Scenarios, strict"),
    ("md009", {}, "This line does not end with any spaces.\nThis line ends with two spaces, which is okay." + SP * 2 + "\n", F, "Correct Scenarios"),
    ("md009", {}, "```text\nthis code line ends with one space" + SP + "\n```\n\n    so does this one" + SP + "\n", F, "Correct Scenarios: code blocks"),
    ("md009", {"list_item_empty_lines": T}, "- a list item\n" + SP * 2 + "\n  still the same item, different paragraph\n", F, "Correct Scenarios, list_item_empty_lines"),
    ("md009", {"br_spaces": 1}, "this line ends with exactly the one space that br_spaces allows" + SP + "\nnext line\n", F, "Correct Scenarios: the exact number of spaces specified by br_spaces"),
    ("md010", {}, "\tIndented Code Block\n", T, "Failure Scenarios"),
    ("md010", {}, "    Indented Code Block\n", F, "Correct Scenarios"),
    ("md010", {"code_blocks": F}, "```text\n\tcode\n```\n", F, "code_blocks: Whether hard tabs are searched for within code blocks"),
    ("md010", {"code_blocks": F}, "\tIndented Code Block\n", F, "code_blocks: Whether hard tabs are searched for within code blocks"),
    ("md012", {}, "this is a line\n\n\nthis is another line\n", T, "Failure Scenarios"),
    ("md012", {}, "this is a line\n\nthis is another line\n", F, "Correct Scenarios"),
    ("md012", {"maximum": 2}, "this is a line\n\n\nthis is another line\n", F, "maximum"),
    ("md013", {"line_length": 50}, "This is a sample line that is a total of 60 characters long.\n", T, "Failure Scenarios"),
    ("md013", {"line_length": 50}, "This is a sample line  that is 50 characters long.\n", F, "Correct Scenarios"),
    ("md013", {"line_length": 50}, "This is a sample line that is a total of 60-characters-long.\n", F, "Long Last Words"),
    ("md013", {"line_length": 50, "strict": T}, "This is a sample line that is a total of 60-characters-long.\n", T, "Long Last Words, strict"),
    ("md013", {"line_length": 50, "stern": T}, "This is a sample line that is a total of 60 characters long.\n", T, "stern: 'while triggering on lines that are too long' (every reading)"),
    ("md018", {}, "#Heading 1\n", T, "Failure Scenarios"),
    ("md018", {}, "> #Heading 1\n", T, "Failure Scenarios, block quote"),
    ("md018", {}, "- #Heading 1\n  ##Heading2\n", T, "Failure Scenarios, list"),
    ("md018", {}, "# Heading 1\n", F, "Correct Scenarios"),
    ("md018", {}, "#Heading 1\n----\n", F, "Correct Scenarios, SetExt"),
    ("md018", {}, "    #Heading 1\n", F, "Correct Scenarios, indented"),
    ("md018", {}, "#######Heading 7\n", F, "Correct Scenarios, excess hash characters"),
    ("md018", {}, "##\n", F, "Correct Scenarios, no text"),
    ("md018", {}, "#Heading *1*\n", F, "Correct Scenarios, inline element"),
    ("md018", {}, "#Heading1#\n", F, "Correct Scenarios, closing hashes"),
    ("md019", {}, "#  Heading 1\n", T, "Failure Scenarios"),
    ("md019", {}, "# Heading 1\n", F, "Correct Scenarios"),
    ("md019", {}, "   # Heading 1\n", F, "Correct Scenarios, leading spaces"),
    ("md022", {}, "# Heading 1\nSection text.\n\nStill section 1 text.\n## Heading 2\n", T, "Failure Scenarios"),
    ("md022", {}, "# Heading 1\n\nSection text.\n\nStill section 1 text.\n\n## Heading 2\n\nNext section text.\n", F, "Correct Scenarios"),
    ("md023", {}, "  # This is a bad heading\n\n  This is also a bad heading\n  ==========================\n\nThis is also a bad heading\n  ==========================\n\n  This is also a bad heading\n==========================\n", T, "Failure Scenarios"),
    ("md023", {}, "This\nheading\nis\ngood\nexcept\nfor\n  this line\n==========================\n", T, "Failure Scenarios, multiple line SetExt"),
    ("md023", {}, "# This is a bad heading\n\nThis is also a bad heading\n==========================\n", F, "Correct Scenarios"),
    ("md024", {}, "# Heading Text\n\n## Heading Text\n", T, "Failure Scenarios"),
    ("md024", {}, "# Heading 1\n\n## Heading 2\n", F, "Correct Scenarios"),
    ("md024", {}, "# Heading  Text\n\n## Heading Text\n", F, "Correct Scenarios, extra space"),
    ("md024", {}, "# Heading TEXT\n\n## Heading Text\n", F, "Correct Scenarios, capitalization"),
    ("md024", {"siblings_only": T}, "# Change log\n\n## 1.0.0\n\n### Features\n\n## 2.0.0\n\n### Features\n", F, "Siblings"),
    ("md024", {"allow_different_nesting": T}, "# Change log\n\n## 1.0.0\n\n### Features\n\n## 2.0.0\n\n### Features\n", F, "Siblings"),
    ("md024", {}, "# Change log\n\n## 1.0.0\n\n### Features\n\n## 2.0.0\n\n### Features\n", T, "Siblings: default"),
    ("md025", {}, "# Top Level\n\n# Another Top Level\n", T, "Failure Scenarios"),
    ("md025", {}, "# Top Level\n\nAnother Top Level\n===\n", T, "Failure Scenarios, SetExt"),
    ("md025", {}, "# Top Level\n\n## Used To Be Another Top Level\n", F, "Correct Scenarios"),
    ("md026", {}, "# This is a heading.\n", T, "Failure Scenarios"),
    ("md026", {}, "# This is a heading\n\n# Is this is a heading?\n", F, "Correct Scenarios"),
    ("md026", {}, "# This is a heading &copy;\n\n# This is a heading &#169;\n\n# This is a heading &#x000A9;\n", F, "Correct Scenarios, entity references"),
    ("md031", {}, "This is text.\n```block\nA code block\n```\n\nThis is a blank line and some text.\n", T, "Failure Scenarios, before"),
    ("md031", {}, "This is text and a blank line.\n\n```block\nA code block\n```\nThis is some text.\n", T, "Failure Scenarios, after"),
    ("md031", {}, "This is text and a blank line.\n\n```block\nA code block\n```\n\nThis is a blank line and some text.\n", F, "Correct Scenarios"),
    ("md031", {"list_items": F}, "- This is an item\n  ```block\n  A code block\n  ```\n  Still the same item, and loose.\n", F, "Within List Items"),
    ("md031", {}, "- This is an item\n  ```block\n  A code block\n  ```\n  Still the same item, and loose.\n", T, "Within List Items: default"),
    ("md032", {}, "This is text.\n+ a list\n", T, "Failure Scenarios, before"),
    ("md032", {}, "1. a list\n# This is any non-text block\n", T, "Failure Scenarios, after"),
    ("md032", {}, "This is text and a blank line.\n\n+ a list\n\nThis is a blank line and some text.\n", F, "Correct Scenarios"),
    ("md035", {}, "---\n\n-  -  -\n\n***\n\n***********\n", T, "Failure Scenarios"),
    ("md035", {}, "---\n\n---\n", F, "Correct Scenarios"),
    ("md035", {}, "---\n\n  ---\n", F, "Correct Scenarios, leading whitespace"),
    ("md035", {"style": "* * *"}, "---\n\n---\n", T, "specific style not present"),
    ("md040", {}, "```\ndef func(arg1, arg2):\n    return arg1 + arg2\n```\n", T, "Failure Scenarios"),
    ("md040", {}, "```python\ndef func(arg1, arg2):\n    return arg1 + arg2\n```\n", F, "Correct Scenarios"),
    ("md041", {}, "This document does not have a heading\n", T, "Failure Scenarios"),
    ("md041", {}, "# This is an Atx H1 heading\n", F, "Correct Scenarios"),
    ("md041", {}, "This is a SetExt H1 heading\n===\n", F, "Correct Scenarios, SetExt"),
    ("md041", {}, "<h1 align=\"center\"><img src=\"/path/to/image\"/></h1>\n", F, "Correct Scenarios, HTML h1"),
    ("md041", {"level": 2}, "## This isn't an Atx H1 heading\n", F, "Changing The Top Level"),
    ("md042", {}, "[empty link]()\n", T, "Failure Scenarios"),
    ("md042", {}, "![empty fragment](#)\n", T, "Failure Scenarios, fragment"),
    ("md042", {}, "[link](a)\n", F, "Correct Scenarios"),
    ("md042", {}, "![fragment](#in-same-document)\n", F, "Correct Scenarios, fragment"),
    ("md045", {}, "[](/url)\n\n![][link]\n\n[link]: /url \"a title\"\n", T, "Failure Scenarios"),
    ("md045", {}, "![](/url)\n", T, "Failure Scenarios (image form of the first line)"),
    ("md045", {}, "![link](/url)\n", F, "Correct Scenarios"),
    ("md046", {}, "```Python\na=b\n```\n\n    indented\n", T, "Failure Scenarios"),
    ("md046", {}, "```Python\na=b\n```\n\n```Python\nb=c\n```\n", F, "Correct Scenarios"),
    ("md046", {"style": "indented"}, "```Python\na=b\n```\n\n```Python\nb=c\n```\n", T, "style = indented"),
    ("md046", {"style": "fenced"}, "```Python\na=b\n```\n\n```Python\nb=c\n```\n", F, "style = fenced"),
    ("md047", {}, "# Heading\n\nThis file ends without a newline.", T, "Failure Scenarios"),
    ("md047", {}, "# Heading\n\nThis file ends with a newline and two space characters.\n  ", T, "Failure Scenarios, whitespace"),
    ("md047", {}, "# Heading\n\nThis file ends with a newline.\n", F, "Correct Scenarios"),
    ("md048", {}, "```Python\na=b\n```\n\n~~~Python\na=b\n~~~\n", T, "Failure Scenarios"),
    ("md048", {}, "```Python\na=b\n```\n\n```Python\nb=c\n```\n", F, "Correct Scenarios"),
    ("md048", {"style": "tilde"}, "```Python\na=b\n```\n\n```Python\nb=c\n```\n", T, "style = tilde"),
    ("md048", {"style": "backtick"}, "```Python\na=b\n```\n\n```Python\nb=c\n```\n", F, "style = backtick"),
]
MODEL_UNFORMALISED = {"stern"}   # configuration items the reference does not formalise (page too vague)


def page_examples(pl):
    """-> [(rule, cfg, doc, expected, where, real_triggers, model_triggers or None)]"""
    by = collections.OrderedDict()
    for k, (rid, cfg, doc, exp, where) in enumerate(PAGE_EXAMPLES):
        by.setdefault((rid, json.dumps(cfg, sort_keys=True)), []).append(k)
    tasks = [(rid, json.loads(c), [PAGE_EXAMPLES[k][2] for k in ks]) for (rid, c), ks in by.items()]
    real = {}
    for (key, ks), (rid, cfg, out, fatal) in zip(by.items(), pl.map(_scan_task, tasks, chunksize=1)):
        if fatal:
            raise vlib.MachineryError(f"page examples {rid}: {fatal}")
        for k, (rr, err) in zip(ks, out):
            real[k] = None if err else bool(rr)
    res = []
    for (rid, c), ks in by.items():
        cfg = json.loads(c)
        if set(cfg) & MODEL_UNFORMALISED:
            mm = [None] * len(ks)
        else:
            mm = [bool(h) for h in model_hits(rid, cfg, [PAGE_EXAMPLES[k][2] for k in ks])]
        for k, m in zip(ks, mm):
            rid, cfg, doc, exp, where = PAGE_EXAMPLES[k]
            res.append((rid, cfg, doc, exp, where, real[k], m))
    return res


# ---------------------------------------------------------------------------------------------------------------
WS_RELEVANT = re.compile(r"[ \t]$|\t", re.M)


def tie_domain(rid, cfg, t):
    """documents on which the LeanMark-derived line context is the one the rule reads (explicit, counted)."""
    if cfg.get("list_item_empty_lines"):
        # the "owner list of the current leaf token" is ambiguous next to block quotes and empty list items
        return ">" not in t and not re.search(r"^\s*([-+*]|\d+[.)])[ \t]*$", t, re.M)
    return True


def family_id(sig):
    rid, kind = sig.split(":")
    return "F-C06-" + rid.upper() + "-" + kind.upper().replace("+", "-")


def run(ctx):
    ctx.level = "proof"
    ctx.lean_stage([], ["Verif.Props.C06", "Verif.Props.TokenRules", "Verif.Props.ScanRules", "Verif.Props.ScanRules1b", "Verif.Props.ScanRules2", "Verif.Props.ScanRules2b", "Verif.Props.TokenRules2", "Verif.Props.TokenRules2.Md023", "Verif.Props.TokenRules2.Md030", "Verif.Props.TokenRules2.Md037", "Verif.Props.TokenRules2.Md044", "Verif.Props.TokenRules2.Md046", "Verif.Props.TokenRules2.Interfere", "Verif.Props.TokenRules2.InterfereRows"])
    import blocks
    blocks.tokenrules2(ctx)    # MD023 MD030 MD037 MD044 MD046: mdX_scan_iff, mdX_faithful_eq_spec
    blocks.scanrules2(ctx)     # MD011 MD013 MD014 MD028 MD033 MD034 scan_iff (MD018 MD020 MD032: model + tie + excluded points)
    blocks.scanrules(ctx)      # ten scan-only token rules: mdX_scan_iff (sentence-shaped), mdX_faithful_eq_spec vs Model/RuleSpec
    blocks.tokenrules(ctx)     # mdXXX_scan_iff / mdXXX_faithful_eq_spec: the faithful scan of the token rules = the documented condition
    full = space(ctx)
    if ctx.quick():
        sample = docs.sample(ctx.rng, full, 2000)
    else:
        sample = full
    pool, pstats = agreeing(sample)
    texts = [t for _, t in pool]
    base = vlib.InputBaseline(PROP)
    evals, nontrivial, skipped_err, per_rule, samples = 0, set(), 0, collections.OrderedDict(), []
    fails = []
    with mp.get_context("fork").Pool(16) as pl:
        # (a) the pages' own examples — independent of the Lean model
        ex = page_examples(pl)
        ex_bad_real, ex_bad_model = [], []
        for rid, cfg, doc, exp, where, r, m in ex:
            if m is not None and m != exp:
                ex_bad_model.append((rid, cfg, doc, exp, where))
            if r is not None and r != exp:
                ex_bad_real.append((rid, cfg, doc, exp, where))
        # (b) the correspondence
        for rid, spec in RULES.items():
            st = per_rule.setdefault(rid, {"evaluations": 0, "nontrivial": 0, "disagree": 0, "configs": len(spec["configs"])})
            for cfg in spec["configs"]:
                for t, rr, mm, mi, sp, err in compare(rid, cfg, texts, pl):
                    if err:
                        skipped_err += 1        # a crashing rule is C07's subject
                        continue
                    evals += 1
                    st["evaluations"] += 1
                    if rr or mm:
                        st["nontrivial"] += 1
                        nontrivial.add((rid, cfg_name(cfg), t))
                        if len(samples) < 12 and len(t) < 60 and st["nontrivial"] % 97 == 1:
                            samples.append({"rule": rid, "config": cfg_name(cfg), "doc": t, "real": rr, "cond": mm})
                    if mi or sp:
                        st["disagree"] += 1
                        fails.append((rid, cfg, t, rr, mm, mi, sp))
        # (c) the faithful line rules
        wtexts = [t for t in texts if WS_RELEVANT.search(t) or not t.endswith("\n")]
        if ctx.quick():
            wtexts = docs.sample(ctx.rng, wtexts, 500)
        f_evals, f_nontriv, f_bad = faithful_tie(wtexts, pl)
    # ---- triage
    for rid, cfg, doc, exp, where in ex_bad_model:
        ctx.broken.append(f"reference condition {rid} [{cfg_name(cfg)}] contradicts its own page example ({where})")
        ctx.report({"rule": rid, "config": cfg_name(cfg), "doc": doc}, "reference-vs-page",
                   {"oracle": f"page example ({where}) must {'be' if exp else 'not be'} reported by cond"})
    for rid, cfg, doc, exp, where in ex_bad_real:
        ctx.report({"rule": rid, "config": cfg_name(cfg), "doc": doc}, "page-example",
                   {"oracle": f"{rid} page, {where}: this example must {'trigger' if exp else 'not trigger'} the rule; the real rule "
                              f"{'is silent' if exp else 'reports it'}"})
    for rid, cfg, t, rr, mm, mi, sp in fails:
        cname = f"{rid}[{cfg_name(cfg)}]"
        sig = signature(rid, mi, sp)
        vlib.collect_failure(PROP, cname, t, sig)
        if base.absorbs(cname, t, sig):
            continue
        ctx.report({"rule": rid, "config": cfg_name(cfg), "doc": t}, "rule-vs-doc",
                   {"signature": sig, "real": rr, "cond": mm, "missed": mi, "spurious": sp,
                    "oracle": "the set of (line[, column]) reported by the rule alone must equal the documented condition "
                              "evaluated on LeanMark's block structure (documents on which both parsers give the same HTML)"})
    fam = collections.Counter()
    for sig, n in base.absorbed.items():
        fam[family_id(sig)] += n
    by_id = {f["id"]: f for f in ctx.findings}
    for fid, n in sorted(fam.items()):
        if fid in by_id:
            ctx.known_finding(by_id[fid], f"{n} listed inputs (findings/C06.inputs.json): {by_id[fid]['what']}")
            ctx.known[fid] += n - 1
        else:
            ctx.violation({"oracle": f"inputs are listed under the family {fid} which has no entry in known_findings.json"}, no_input=True)
    f_skipped = 0
    for rid, cname, kind, t, r, m in f_bad:
        cfg = next(c for rr_, c in LINE_RULES if rr_ == rid and cfg_name(c) == cname)
        if not tie_domain(rid, cfg, t):
            f_skipped += 1
            continue
        ctx.broken.append(f"faithful LineRules {rid} [{cname}] {kind} differs from the real rule")
        ctx.report({"rule": rid, "config": cname, "doc": t, "mode": kind}, "faithful-tie",
                   {"real": r, "model": m, "oracle": "Verif.Model.LineRules (scan with columns / fix) must reproduce the real rule under the line context read off LeanMark"})
    if ctx.broken and not ctx.violations:
        ctx.violation({"oracle": "Verif.Props.C06 / the reference conditions no longer check; no unlisted failing document found"}, no_input=True)
    ctx.assumptions += [
        "reference model: the conditions are MY formalisation of the rule pages; the theorems pin their meaning, the pages' own examples test them",
        "only documents in LeanMark's scope on which pymarkdown's HTML equals LeanMark's are compared (a parser difference is C03's subject)",
        "front-matter extension off (front_matter_title items have no effect); MD013 `stern` and MD024 sibling semantics beyond the page example are not claimed",
        "where a page is silent about WHERE a report is put, the anchor line is a convention fixed in the RuleSpec file (compared as lines; columns only for MD010 and MD013)",
        "rule crashes are C07's subject (skipped, counted)",
        "disagreements of the pinned tree are listed one by one in findings/C06.inputs.json (exact configuration + document + signature)"]
    ctx.write_evidence({
        "correspondence": {"evaluations": evals, "distinct_nontrivial": len(nontrivial),
                           "rule": "real scan (rule alone, --set configuration) vs Verif.Model.RuleSpec cond over LeanMark events; non-trivial = at least one side reports",
                           "distribution": {"pool": pstats, "space": len(full), "sampled": len(sample), "per_rule": per_rule},
                           "exhaustive": not ctx.quick(), "skipped_rule_crashes": skipped_err,
                           "listed_inputs_absorbed": dict(base.absorbed)},
        "page_examples": {"examples": len(ex), "real_contradicts_page": len(ex_bad_real), "reference_contradicts_page": len(ex_bad_model)},
        "faithful_tie": {"documents": len(wtexts), "evaluations": f_evals, "nontrivial": f_nontriv, "mismatches_outside_domain": f_skipped,
                         "rule": "Verif.Model.LineRules scan (line, column) and fix (bytes) of MD009/MD010/MD047 vs the real scan / fix, line context from LeanMark"},
        "samples": samples})
    ctx.coverage["wall"] = "%.0fs" % (time.time() - ctx.t0)


def replay(ctx, path):
    rp = json.load(open(path))
    inp = rp.get("input", {})
    if "doc" not in inp:
        print("replay:", rp.get("broken") or rp.get("oracle"))
        return 1
    rid, cname, doc = inp["rule"], inp["config"], inp["doc"]
    cands = [c for c in RULES[rid]["configs"]] + [c for r, c, *_ in PAGE_EXAMPLES if r == rid] + [c for r, c in LINE_RULES if r == rid]
    cfg = next(c for c in cands if cfg_name(c) == cname)
    with mp.get_context("fork").Pool(2) as pl:
        if rp.get("symptom") == "faithful-tie":
            rs = _scan_cols_task((rid, cfg, [doc]))[0][0]
            rf = _fix_task((rid, cfg, [doc]))[0]
            mc = model_cfg(rid, cfg)
            a = vlib.Driver("linerules").run([f"scan|{rid}|{mc}|{vlib.hexs(doc)}"])[0]
            b = vlib.unhex(vlib.Driver("linerules").run([f"fix|{rid}|{mc}|{vlib.hexs(doc)}"])[0])
            m = sorted(tuple(int(x) for x in it.split(":")) for it in a.split(",")) if a else []
            print("real scan", rs, "model scan", m, "real fix", repr(rf), "model fix", repr(b))
            failed = (m != rs and inp.get("mode") == "scan") or (b != rf and inp.get("mode") == "fix")
        elif rp.get("symptom") in ("page-example", "reference-vs-page"):
            exp = next(e for r, c, d, e, _ in PAGE_EXAMPLES if r == rid and cfg_name(c) == cname and d == doc)
            _, _, out, _ = _scan_task((rid, cfg, [doc]))
            real = bool(out[0][0])
            model = None if set(cfg) & MODEL_UNFORMALISED else bool(model_hits(rid, cfg, [doc])[0])
            print("expected", exp, "real", real, "cond", model)
            failed = (real != exp) if rp["symptom"] == "page-example" else (model != exp)
        else:
            t, rr, mm, mi, sp, err = compare(rid, cfg, [doc], pl)[0]
            print("real", rr, "cond", mm, "missed", mi, "spurious", sp, "error", err)
            failed = bool(mi or sp)
    if failed:
        print(f"VIOLATION property={PROP} replay={path}")
        return 1
    return 0


# ---------------------------------------------------------------------------------------------------------------
def dev(argv):
    """python3 tools/props/c06.py dev <rule|all> [n examples] [config index]"""
    class C:  # minimal ctx
        pass
    which = argv[0] if argv else "all"
    if which == "examples":
        with mp.get_context("fork").Pool(16) as pl:
            for rid, cfg, doc, exp, where, r, m in page_examples(pl):
                flag = ("" if r == exp else "  REAL-CONTRADICTS-PAGE") + ("" if m is None or m == exp else "  MODEL-CONTRADICTS-PAGE")
                if flag:
                    print(rid, cfg_name(cfg), repr(doc), "expected", exp, "real", r, "model", m, flag, "--", where)
        return
    if which == "faithful":
        pool = [tuple(x) for x in json.load(open(os.path.join(tempfile.gettempdir(), "c06-dev-pool.json")))]
        texts = [t for _, t in pool if " \n" in t or "\t" in t or t.endswith(" ") or not t.endswith("\n")]
        with mp.get_context("fork").Pool(16) as pl:
            ev, nt, bad = faithful_tie(texts, pl)
        print("faithful tie: docs", len(texts), "evaluations", ev, "nontrivial", nt, "mismatches", len(bad))
        import itertools
        bad.sort(key=lambda b: (b[0], b[1], b[2], len(b[3])))
        for key, grp in itertools.groupby(bad, key=lambda b: b[:3]):
            grp = list(grp)
            print(" ", key, len(grp))
            for b in grp[:int(argv[1]) if len(argv) > 1 else 6]:
                print("     ", repr(b[3]), "real", repr(b[4]), "model", repr(b[5]))
        return
    nshow = int(argv[1]) if len(argv) > 1 else 8
    only_cfg = int(argv[2]) if len(argv) > 2 else None
    t0 = time.time()
    cache = os.path.join(tempfile.gettempdir(), "c06-dev-pool.json")
    if os.path.exists(cache):
        pool = [tuple(x) for x in json.load(open(cache))]
    else:
        pool, st = agreeing(space(None))
        print("pool", st, "%.1fs" % (time.time() - t0))
        json.dump(pool, open(cache, "w"))
    if os.environ.get("C06_STRATUM"):
        pool = [(s_, t) for s_, t in pool if s_ == os.environ["C06_STRATUM"]]
    texts = [t for _, t in pool]
    strata = {t: s for s, t in pool}
    with mp.get_context("fork").Pool(16) as pl:
        for rid in RULES if which == "all" else which.split(","):
            for k, cfg in enumerate(RULES[rid]["configs"]):
                if only_cfg is not None and k != only_cfg:
                    continue
                t1 = time.time()
                res = compare(rid, cfg, texts, pl)
                bad = [r for r in res if r[3] or r[4]]
                errs = sum(1 for r in res if r[5])
                nontriv = sum(1 for r in res if r[1] or r[2])
                print(f"{rid} [{cfg_name(cfg)}]: docs {len(res)} nontrivial {nontriv} disagree {len(bad)} "
                      f"(missed {sum(1 for r in bad if r[3])}, spurious {sum(1 for r in bad if r[4])}) errors {errs}  {time.time() - t1:.1f}s")
                bad.sort(key=lambda r: len(r[0]))
                for t, rr, mm, mi, sp, _ in bad[:nshow]:
                    print(f"    {strata[t]:10s} {t!r}  real {rr} model {[(l, c) if c else l for l, c in mm]} missed {mi} spurious {sp}")


if __name__ == "__main__":
    if len(sys.argv) > 1 and sys.argv[1] == "dev":
        dev(sys.argv[2:])


def neighbour_oracle(ctx, texts, got, changed_rules=None):
    """Document-level oracle on an arbitrary list of texts (tools/neighbour.py): every (rule[config], document, signature) on
    which the rule alone and the documented condition disagree; all configurations of each rule."""
    pool, _ = agreeing([("nb", t) for t in texts])
    ts = [t for _, t in pool]
    if not ts:
        return
    with mp.get_context("fork").Pool(16) as pl:
        for rid, spec in RULES.items():
            for cfg in spec["configs"]:
                for t, rr, mm, mi, sp, err in compare(rid, cfg, ts, pl):
                    if not err and (mi or sp):
                        got.append([f"{rid}[{cfg_name(cfg)}]", t, signature(rid, mi, sp)])
