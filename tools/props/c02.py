"""C02 — the token stream is lossless: Markdown regenerated from the tokens equals the source.

proof:  Verif.Props.C02 over the faithful Verif.Model.Codec / Verif.Model.Tabs: remove_encode, resolve_encode (the marker codec is a
        bijection on marker-free text), escape_roundtrip(+_resolve), the negative results codec_collision_x05 / sentinel_collision /
        resolveBackspaces_defects / escape_roundtrip_excluded, detabify_eq_detab (the real section loop = the one-pass reference), detab_noTab /
        detab_id_of_noTab / detab_length_ge / colAfter_mono / tab_stop,
        final_newline_rule, pragma_reinsert (+ its two excluded points);
        over Verif.Model.LeadingSpaces (the newline-joined per-line prefix store of list / block-quote tokens): leading_store_roundtrip(_bq),
        leading_index_inv, remove_last_undoes_add(_bq) and the boundary witnesses leading_store_excluded / leading_index_excluded /
        remove_last_excluded; over Verif.Model.LeafFields (which pieces of a leaf's opening line go into the token): atx_fields,
        thematic_fields, setext_fields, fence_close_fields, blank_fields, fence_open_fields_partial + fence_open_fields_excluded (F-FENCE-TRAILWS).
tie:    (a) function level: every modelled function against the REAL function (private ones through name mangling, each call under a CPU
        timer) on all strings of length <= 6 over {\\b \\a U+0005 U+0003 \\ x &}; piece lists encoded with the real encoders; tab / nth /
        final-newline / pragma functions on their own small alphabets; the three sentinel constants by reflection.
        (a') REAL container tokens (built with their constructors) driven through every sequence of <= 6 store operations over the prefixes
        "", " ", "> ", ">", "   ", TAB — their own methods and the regenerator's two look-up functions — against the model, operation by
        operation (returned value / exception + complete state);  (a'') for every string of length <= 6 over each leaf recogniser's alphabet
        the one-line document is parsed by the REAL parser and the fields of the block-pass tokens + the regenerated line are compared with
        `fields` / `reassemble` of the model (tools/leadlib.py).
oracle: (b) document level, the property itself: TransformToMarkdown().transform(tokens) == source for every document of the registered
        strata (DESIGN §4).  Documents that do not tokenize are C01's and are skipped and counted.  A failure inside a footprint of
        known_findings.json (tools/footprints_c02.py) prints KNOWN-FINDING; any other failure is a VIOLATION.
        Codec-level clauses are also evaluated directly on the real functions: remove_all(escape(s)) == s, remove_all(encode ps) ==
        source ps, resolve_all(encode ps) == rendered ps on the domains the theorems state; likewise consume(store ps) == ps on the real
        tokens and concat(real fields) == line for every accepted leaf line (outside the F-FENCE-TRAILWS shape, which is counted).
Unregistered strata (full-prefix two-line documents, wrapped two-line documents, wrapped corpus) run only with VERIF_FRONTIER=1: their
failures are reported as FRONTIER lines, never as violations, and are not part of the registered claim.
"""
import collections, inspect, itertools, json, multiprocessing as mp, os, re, signal, sys, time, traceback
import vlib, implib, docs
import codeclib as C
import leadlib as LS
import footprints_c02 as FP

DOC_TIMER = 3.0   # CPU seconds per document (parse + regenerate)

SENT = ["þ", "艨", "艩"]
MARK = ["\b", "\a", "\x02", "\x03", "\x05"]
OTHER = [chr(x) for x in [0x00, 0x01, 0x04, 0x06, 0x0b, 0x0c, 0x1b, 0x7f, 0x85, 0xa0, 0xad, 0xfd, 0xff, 0xdf, 0x130, 0x131, 0x1c5, 0x3a9,
                           0x430, 0x5d0, 0x639, 0x905, 0xe01, 0x4e2d, 0x3042, 0xd55c, 0x1f600, 0x10000, 0xe000, 0xfffd, 0xffff, 0x301,
                           0x202e, 0x3000, 0x2003, 0x2028, 0x2029, 0x200b, 0xfeff, 0x8267, 0x826a]]
PRAGMA = "<!-- pyml disable-next-line md013-->"


# ------------------------------------------------------------------ document-level worker
_Timeout, _alarm = C._Timeout, C._alarm   # one handler / one exception type for both levels


def _init_doc_worker():
    signal.signal(signal.SIGPROF, _alarm)
    implib.parser()


def _site(e):
    tb = traceback.extract_tb(e.__traceback__)
    fr = [f for f in tb if "pymarkdown" in f.filename]
    f = (fr or tb)[-1]
    return f"{os.path.basename(f.filename)}:{f.name}"


def roundtrip(doc):
    """-> (kind, out, err, pragma_lines, nontrivial); kind in ok | diff | regen-error | regen-hang | parse-error | parse-hang"""
    from pymarkdown.transform_markdown.transform_to_markdown import TransformToMarkdown
    tk = implib.parser()
    signal.setitimer(signal.ITIMER_PROF, DOC_TIMER)
    try:
        try:
            toks = tk.transform(doc, show_debug=False)
        except _Timeout:
            return ("parse-hang", None, None, None, False)
        except Exception as e:
            return ("parse-error", None, type(e).__name__, None, False)
        pl = None
        if toks and toks[-1].is_pragma:
            pl = {int(k): v for k, v in toks[-1].pragma_lines.items()}
        leafs = sum(1 for t in toks if t.is_leaf and not t.is_end_token and not t.is_blank_line)
        nontrivial = any(t.is_container for t in toks) or leafs >= 2 or any(
            not (t.is_container or t.is_leaf or t.is_end_token or t.is_text or t.is_pragma or t.is_blank_line) for t in toks)
        try:
            out = TransformToMarkdown().transform(toks)
        except _Timeout:
            return ("regen-hang", None, None, pl, nontrivial)
        except Exception as e:
            return ("regen-error", None, f"{type(e).__name__}:{str(e)[:80]}@{_site(e)}", pl, nontrivial)
        return ("ok", None, None, pl, nontrivial) if out == doc else ("diff", out, None, pl, nontrivial)
    finally:
        signal.setitimer(signal.ITIMER_PROF, 0)


def sweep(ds, procs=16):
    ds = list(ds)
    if not ds:
        return []
    with mp.Pool(min(procs, max(1, len(ds) // 50 + 1)), initializer=_init_doc_worker) as p:
        return list(zip(ds, p.imap(roundtrip, ds, chunksize=64)))


# ------------------------------------------------------------------ strata
def wrap(d, kind):
    fin = d.endswith("\n")
    ls = d[:-1].split("\n") if fin else d.split("\n")
    if kind == "bq":
        out = ["> " + l if l else ">" for l in ls]
    else:
        first, cont = ("- ", "  ") if kind == "ul" else ("1. ", "   ")
        out = [(first + l) if i == 0 else ((cont + l) if l else "") for i, l in enumerate(ls)]
    return "\n".join(out) + ("\n" if fin else "")


def with_pragma(d):
    ls = d.split("\n")
    n = len(ls) + (0 if d.endswith("\n") else 1)
    return ["\n".join(ls[:i] + [PRAGMA] + ls[i:]) for i in range(n)]


def unicode_sweep():
    seen = {}
    for b in docs.BODY:
        for c in SENT + MARK + OTHER:
            for i in range(len(b) + 1):
                seen[b[:i] + c + b[i:] + "\n"] = 1
    for n in ["2", "3", "5", "7", "8", "07", "x7", "X08", "x5"]:
        for t in ["&#%s;\n", "a&#%s;b\n", "`&#%s;`\n", "\\&#%s;\n"]:
            seen[t % n] = 1
    return list(seen)


def inline2():
    first = ["a", "*c*", "`c`", "<b>", "[x](/v)", "&amp;", "**s**", "![i](/u)", "a *c*", "*c* a"]
    brk = ["\\\n", "  \n", "\n"]
    second = ["[b](/u)", "![b](/u)", "[b]", "[b][r]", "x [b](/u)", "*e*", "<http://a.b>", "`c`", "[b](/u \"t\")", "[*b*](/u)", "[b\\\nc](/u)"]
    out = []
    for f, b, s in itertools.product(first, brk, second):
        out += [f + b + s + "\n", f + b + s + "\n\n[r]: /u\n"]
    return out


def registered_strata(ctx):
    """{name: (documents, exhaustive?)}; quick samples the same spaces with ctx.rng."""
    q = ctx.quick()
    core1 = list(docs.d1(docs.CORE_PREFIX, docs.CORE_BODY))
    core2 = list(docs.dn(2, docs.CORE_PREFIX, docs.CORE_BODY)) + list(docs.dn(2, docs.CORE_PREFIX, docs.CORE_BODY, False))
    corpus = list(dict.fromkeys(docs.repo_sources() + [t for _, t in docs.rule_resources()]))
    pr_base = core1 + (docs.sample(ctx.rng, docs.hash_slice(core2, 3000), 300) if q else docs.hash_slice(core2, 3000))
    S = collections.OrderedDict()
    S["core1"] = (core1, True)
    S["full1"] = (list(docs.d1()), True)
    S["core2"] = (docs.sample(ctx.rng, core2, 5000) if q else core2, not q)
    S["corpus"] = (docs.sample(ctx.rng, corpus, 1500) if q else corpus, not q)
    S["wrap-core1"] = ([wrap(d, k) for d in core1 for k in ("bq", "ul", "ol")], True)
    S["unicode"] = (docs.sample(ctx.rng, unicode_sweep(), 2500) if q else unicode_sweep(), not q)
    S["inline2"] = (inline2(), True)
    edges = docs.leaf_edges()
    S["leaf-edges"] = (edges + [wrap(d, k) for d in edges[::3] for k in ("bq", "ul")], True)
    more = docs.multi_pairs() + docs.container_pairs() + docs.corpus_marker_variants() + docs.link_edges()
    S["inline-edges"] = (docs.inline_edges(), True)
    S["nesting-variants"] = (docs.sample(ctx.rng, more, 2500) if q else more, not q)
    S["pragma"] = (list(dict.fromkeys(x for d in pr_base for x in with_pragma(d))) +
                   [PRAGMA, PRAGMA + "\n", PRAGMA + "\n" + PRAGMA + "\n", "<!--\tpyml -->\na\n", "a\n<!-- pyml\t-->\n"], False)
    return S


def frontier_strata(ctx):
    core2 = list(docs.dn(2, docs.CORE_PREFIX, docs.CORE_BODY))
    corpus = list(dict.fromkeys(docs.repo_sources() + [t for _, t in docs.rule_resources()]))
    lines = docs.lines_of(docs.PREFIX, docs.BODY)
    n = 20000 if ctx.quick() else 120000
    full2 = ["\n".join(ctx.rng.choice(lines) for _ in range(2)) + ("\n" if ctx.rng.random() < .8 else "") for _ in range(n)]
    S = collections.OrderedDict()
    S["frontier-full2"] = (full2, False)
    S["frontier-wrap-core2"] = ([wrap(d, k) for d in docs.sample(ctx.rng, core2, 3000 if ctx.quick() else len(core2)) for k in ("bq", "ul", "ol")], False)
    S["frontier-wrap-corpus"] = ([wrap(d, k) for d in corpus for k in ("bq", "ul", "ol")], False)
    return S


# ------------------------------------------------------------------ function-level correspondence
def function_level(ctx):
    """-> (stats dict, mismatches [(request, real, model)], oracle failures [(kind, input, detail)])"""
    q = ctx.quick()
    stats = collections.OrderedDict()
    strs = list(C.all_strings(C.ALPHA, 4 if q else 6))
    if q:
        extra = set()
        while len(extra) < 1500:
            n = ctx.rng.choice([5, 6])
            extra.add("".join(ctx.rng.choice(C.ALPHA) for _ in range(n)))
        strs += sorted(extra)
    res = C.pool_map(C._work_strings, strs)
    stats["strings"] = len(strs)
    items = []
    for s in C.all_strings(["\\", "x", "0", "7", "8", "\a", "\b", "\t"], 4 if q else 5):
        items.append(("vis", s))
    for s in C.all_strings(["\t", " ", "x"], 5 if q else 7):
        for d in range(0, 5):
            items.append(("detab", (s, d))); items.append(("calclen", (s, d)))
    for s in C.all_strings(["\t", " ", "x", "\n", "é"], 4 if q else 5):
        items.append(("detab", (s, 1)))
    for s in C.all_strings(["\n", "x"], 6 if q else 8):
        for n in range(0, 5):
            items.append(("nth", (s, n)))
        for k in (False, True):
            items.append(("final", (s, k)))
    texts = ["p", "\tq"]
    for s in C.all_strings(["\n", "a"], 3 if q else 4):
        for k in range(0, 4):
            for nums in itertools.combinations(range(1, 6), k):
                for tx in itertools.product(texts, repeat=k):
                    items.append(("pragma", (s, tuple(zip(nums, tx)))))
    for x in C.all_strings(["\a", "x", "\x03"], 3):
        for y in C.all_strings(["\a", "x", "\x03"], 2):
            items.append(("mark", (x, y)))
    res += C.pool_map(C._work_generic, items)
    stats["other_function_inputs"] = len(items)
    mism = []
    if ctx.lean.get("build_ok"):
        ans = vlib.Driver("codec").run([r for r, _ in res])
        for (r, a), m in zip(res, ans):
            if a != m:
                if a == "err=hang" and m != "err=hang":
                    op = r.split("|")[0]
                    key = {"remove": "remove" + r.split("|")[2], "rmbs": "rmbs", "rsbs": "rsbs", "noops": "noops", "escs": "escs", "rrm": "rrm",
                           "rref": "rref", "resolve": "resolve"}.get(op)
                    if key and C.confirm_hang(key, vlib.unhex(r.split("|")[1])) == m:
                        continue
                mism.append((r, a, m))
    stats["function_evaluations"] = len(res)
    seen_kinds, fsamples = set(), []
    for r, a in res:
        k = (r.split("|")[0], a[:8])
        if k not in seen_kinds and len(r) > 12:
            seen_kinds.add(k)
            if len(fsamples) < 8:
                fsamples.append({"request": r, "real_and_model": a})
    stats["samples"] = fsamples
    stats["answers"] = dict(collections.Counter(("hang" if a == "err=hang" else "valueError" if a == "err=valueError" else "assertion" if a == "err=assertion" else "value")
                                               for r, a in res if r.split("|")[0] in ("rmbs", "rsbs", "noops", "escs", "rrm", "rref", "remove", "resolve")))
    # ---- pieces: real encoders + real decoders vs model, and the theorems' clauses on the real functions
    cat = C.piece_catalog()
    lists = [()] + [(p,) for p in cat] + list(itertools.product(cat, repeat=2))
    if q:
        lists += [tuple(ctx.rng.choice(cat) for _ in range(3)) for _ in range(2000)]
    else:
        lists += list(itertools.product(cat, repeat=3))
    pres = C.pool_map(C._work_pieces, lists, chunk=300)
    oracle = []
    mfree = 0
    if ctx.lean.get("build_ok"):
        a1 = vlib.Driver("codec").run([C.piece_req(ps) for ps, *_ in pres])
        req2 = []
        for (ps, enc, src, ren, rm, rs) in pres:
            req2 += [f"remove|{vlib.hexs(enc)}|0", f"resolve|{vlib.hexs(enc)}"]
        a2 = vlib.Driver("codec").run(req2)
        for i, ((ps, enc, src, ren, rm, rs), a) in enumerate(zip(pres, a1)):
            menc, msrc, mren, mf = a.split("|")
            if (menc, msrc, mren) != (vlib.hexs(enc), vlib.hexs(src), vlib.hexs(ren)):
                mism.append((C.piece_req(ps), f"{vlib.hexs(enc)}|{vlib.hexs(src)}|{vlib.hexs(ren)}", a))
            if a2[2 * i] != rm:
                mism.append((req2[2 * i], rm, a2[2 * i]))
            if a2[2 * i + 1] != rs:
                mism.append((req2[2 * i + 1], rs, a2[2 * i + 1]))
            if mf == "1":
                mfree += 1
                if rm != "ok=" + vlib.hexs(src):
                    oracle.append(("remove_encode", list(ps), {"encoded": enc, "expected": src, "real": rm}))
                if rs != "ok=" + vlib.hexs(ren):
                    oracle.append(("resolve_encode", list(ps), {"encoded": enc, "expected": ren, "real": rs}))
    stats["piece_lists"] = len(pres)
    stats["piece_lists_marker_free"] = mfree
    # ---- escape_roundtrip on the real functions, on its stated domain
    esc_ok = 0
    F = C.real_fns()
    signal.signal(signal.SIGPROF, _alarm)   # guard() is used in this process too
    for s in strs:
        if any(s[i] == "\x05" and s[i + 1] in "\b\a\x02\x03\x05" for i in range(len(s) - 1)):
            continue
        e = F["esc"](s)
        got = C.guard(F["remove0"], e)
        esc_ok += 1
        if got != "ok=" + vlib.hexs(s):
            oracle.append(("escape_roundtrip", s, {"escaped": e, "real": got}))
    stats["escape_roundtrip_checked"] = esc_ok
    # ---- the sentinel constants (reflection) and their removal in transform (source shape)
    from pymarkdown.general.parser_logger import ParserLogger
    from pymarkdown.transform_markdown.transform_to_markdown import TransformToMarkdown
    consts = (ParserLogger.start_range_sequence, ParserLogger.end_range_sequence, ParserLogger.blah_sequence)
    if consts != ("\u8268", "\u8269", "\u00fe"):
        mism.append(("sentinel constants", repr(consts), "('\\u8268', '\\u8269', '\\u00fe')"))
    src = inspect.getsource(TransformToMarkdown.transform)
    shape = re.search(r"\.replace\(ParserLogger\.start_range_sequence,\s*\"\"\)\s*\.replace\(ParserLogger\.end_range_sequence,\s*\"\"\)\s*"
                      r"\.replace\(ParserLogger\.blah_sequence,\s*\"\"\)", src)
    stats["sentinel_strip_in_transform"] = bool(shape)
    if not shape:
        mism.append(("the .replace(sentinel, '') chain at the end of TransformToMarkdown.transform", "not found in the source", "present (stripSentinels)"))
    if ctx.lean.get("build_ok"):
        sreq = ["strip|" + vlib.hexs(s) for s in ["", "aþb", "艨x艩", "þþ", "é", "a\nþ\n"]]
        sans = vlib.Driver("codec").run(sreq)
        for r, a in zip(sreq, sans):
            want = vlib.hexs(FP.strip_sentinels(vlib.unhex(r.split("|")[1])))
            if a != want:
                mism.append((r, want, a))
    return stats, mism, oracle



# ------------------------------------------------------------------ building blocks: prefix store + leaf fields
def _concat_fields(ans):
    """the rehydrators' concatenation, computed from the REAL fields (independent of the model) -> (kind, string)"""
    f = ans.split("|")
    u = lambda x: vlib.unhex(x[1:])
    k = f[0]
    if k == "atx":
        return k, u(f[1]) + "#" * int(f[2]) + u(f[3]) + u(f[4]) + u(f[5]) + "#" * int(f[6]) + u(f[7])
    if k == "tb":
        return k, u(f[1]) + u(f[3])
    if k == "fopen":
        return k, u(f[1]) + chr(int(f[2])) * int(f[3]) + u(f[4]) + u(f[5]) + u(f[6])
    if k == "fclose":
        return k, u(f[1]) + "?" * int(f[2]) + u(f[3])
    if k == "setext":
        return k, u(f[1]) + chr(int(f[2])) * int(f[3]) + u(f[4])
    return k, u(f[1])


def building_blocks(ctx):
    """-> (stats, mismatches [(request, real, model)], oracle failures [(theorem, input, detail)], fence duplicates counted)"""
    q = ctx.quick()
    stats, mism, oracle = collections.OrderedDict(), [], []
    have_model = bool(ctx.lean.get("build_ok"))
    # ---- (a') the prefix store
    t0 = time.time()
    per_space, seqs, ops_cmp, outcomes = [], 0, 0, collections.Counter()
    samples = []
    for kind, alpha, n in LS.SPACES:
        reqs = LS.sample_requests(ctx.rng, kind, alpha, n, 12000) if q else list(LS.all_requests(kind, alpha, n))
        real = LS.pool_map(LS._work_leading, reqs, chunk=2000)
        model = vlib.Driver("leading").run(reqs) if have_model else [None] * len(reqs)
        distinct = set()
        for (r, a), m in zip(real, model):
            ops = r.split("|")[1].split(";")
            ops_cmp += len(ops)
            for x in a.split(";"):
                h = x.split("@")[0]
                outcomes[h if h.startswith("err") else h.split("=")[0]] += 1
            if q:
                for i in range(1, len(ops) + 1):
                    distinct.add(tuple(ops[:i]))
            if m is not None and a != LS.canon_model_leading(r, m):
                mism.append((r, a, m))
        if len(samples) < 3 and real:
            samples.append({"request": real[len(real) // 2][0], "real_and_model": real[len(real) // 2][1]})
        per_space.append({"token": kind, "operations": len(alpha), "max_length": n, "requests": len(reqs),
                          "distinct_sequences": len(distinct) if q else LS.space_size(alpha, n)})
        seqs += per_space[-1]["distinct_sequences"]
    # the round-trip theorem evaluated on the real objects (and the model's answer to the same request)
    plists = [tuple(t) for k in range(0, (4 if q else 5) + 1) for t in itertools.product(LS.PREFIXES, repeat=k)]
    sreq, rt_checked = [], 0
    for kind in ("list", "bq"):
        for ps in plists:
            got = LS.real_storeall(kind, list(ps))
            sreq.append((f"storeall-{kind}|" + ";".join("p" + vlib.hexs(p) for p in ps), got))
            back = got.split("|")[1]
            want = list(ps)
            if kind == "bq":                      # leading_store_roundtrip_bq: up to the ""-store ambiguity (bqNormal)
                r = list(itertools.dropwhile(lambda p: p == "", ps))
                want = r if r else [""]
            rt_checked += 1
            if back != ";".join(LS.hx(p) for p in want):
                oracle.append(("leading_store_roundtrip" + ("_bq" if kind == "bq" else ""), list(ps), {"real": got, "expected_parts": want}))
    if have_model:
        for (r, a), m in zip(sreq, vlib.Driver("leading").run([r for r, _ in sreq])):
            if a != m:
                mism.append((r, a, m))
    # the store at work: every store operation the real parser / regenerator performs on the documents of the strata, replayed through the
    # model (in-situ correspondence) and through `Legal` (is the protocol of leading_index_inv the one the parser follows?)
    core1 = list(docs.d1(docs.CORE_PREFIX, docs.CORE_BODY))
    tdocs = core1 + list(docs.d1()) + [wrap(d, k) for d in core1 for k in ("bq", "ul", "ol")] + docs.leaf_edges() + \
        list(dict.fromkeys(docs.repo_sources() + [t for _, t in docs.rule_resources()]))
    tdocs = list(dict.fromkeys(tdocs))
    if q:
        tdocs = docs.sample(ctx.rng, tdocs, 1500)
    traced = LS.pool_map(LS._work_trace, tdocs, chunk=50, init=LS._init_trace_worker)
    lives = [(d, r, a) for d, tr in traced for r, a in tr]
    tstat = collections.Counter()
    illegal, first_illegal = collections.Counter(), []
    if have_model and lives:
        tm = vlib.Driver("leading").run([r for _, r, _ in lives])
        tl = vlib.Driver("leading-legal").run([r if r.startswith("bq|") else "bq|" for _, r, _ in lives])
        for (d, r, a), m, l in zip(lives, tm, tl):
            n = r.count(";")
            tstat["operations"] += n
            tstat["list_lives" if r.startswith("list|") else "bq_lives"] += 1
            if a != m:
                mism.append((r, a, m))
            if r.startswith("bq|"):
                for op, bits in zip(r.split("|")[1].split(";"), l.split(";")):
                    if bits[1] == "0":
                        illegal[op.split(":")[0]] += 1
                        if len(first_illegal) < 3:
                            first_illegal.append({"doc": d, "operations": r})
                    if bits.endswith("I0"):
                        tstat["states_outside_invariant"] += 1
    ops_cmp += tstat["operations"]
    stats["store"] = {"spaces": per_space, "operation_sequences": seqs, "operations_compared": ops_cmp, "outcomes": dict(outcomes),
                      "roundtrip_lists_checked": rt_checked, "samples": samples,
                      "traced": dict(tstat, documents=len(tdocs), object_lives=len(lives), illegal_operations=dict(illegal), illegal_examples=first_illegal),
                      "wall_s": round(time.time() - t0, 1)}
    # ---- (a'') leaf fields
    t0 = time.time()
    fam_stats, fsamples = collections.OrderedDict(), []
    dup = 0
    for fam, (alpha, _) in LS.FIELD_FAMILIES.items():
        strs = list(C.all_strings(list(alpha), 4 if q else 6))
        if q:
            extra = set()
            while len(extra) < 2500:
                extra.add("".join(ctx.rng.choice(alpha) for _ in range(ctx.rng.choice([5, 6]))))
            strs += sorted(extra)
        strs += LS.FIELD_EXTRA[fam]
        reqs = LS.field_requests(fam, list(dict.fromkeys(strs)))
        real = LS.pool_map(LS._work_fields, reqs, chunk=500, init=LS._init_fields_worker)
        model = vlib.Driver("fields").run(reqs) if have_model else [None] * len(reqs)
        cnt = collections.Counter()
        for (r, a), m in zip(real, model):
            if a.startswith("not-tokenized"):
                cnt["skipped_not_tokenized(C01)"] += 1
                continue
            cnt["accepted" if a != "none" else "rejected"] += 1
            if m is not None and a != m:
                mism.append((r, a, m))
            if a != "none":
                line = vlib.unhex(r.split("|")[1])
                k, cat = _concat_fields(a.rsplit("|", 1)[0])
                if k == "fclose":
                    cat = cat.replace("?", vlib.unhex(r.split("|")[2]))
                if cat != line:
                    f = a.split("|")
                    if k == "fopen" and f[5] == "=" and f[4] != "=" and cat == line + vlib.unhex(f[4][1:]):
                        dup += 1                      # fence_open_fields_excluded: the white space is stored twice
                    else:
                        oracle.append(("f_fields:" + k, line, {"real_fields": a, "concatenation": cat, "expected": line}))
                if len(fsamples) < 6 and cnt["accepted"] in (3, 40):
                    fsamples.append({"request": r, "real_and_model": a})
        fam_stats[fam] = dict(cnt, requests=len(reqs), alphabet=alpha)
    LS.uninstall_snapshot()
    stats["fields"] = {"families": fam_stats, "requests": sum(v["requests"] for v in fam_stats.values()),
                       "accepted_lines": sum(v.get("accepted", 0) for v in fam_stats.values()),
                       "fence_whitespace_stored_twice": dup, "samples": fsamples, "wall_s": round(time.time() - t0, 1)}
    return stats, mism, oracle, dup


# ------------------------------------------------------------------ shrinking
def signature(doc, kind, out, err):
    """what went wrong, independent of where: the set of (deleted text, inserted text) edits, or the raising call site"""
    if kind != "diff":
        return (kind, (err or "").split("@")[-1])
    import difflib
    ops = difflib.SequenceMatcher(None, doc, out, autojunk=False).get_opcodes()
    return ("diff", frozenset((doc[a:b], out[c:d]) for tag, a, b, c, d in ops if tag != "equal"))


def _still_fails(ctx, doc, sig=None):
    kind, out, err, pl, _ = roundtrip(doc)
    if kind not in ("diff", "regen-error", "regen-hang"):
        return None
    if exact_finding(ctx, doc, kind) or FP.classify(doc, kind, out, err, pl):
        return None
    if sig is not None and signature(doc, kind, out, err) != sig:
        return None   # a different failure: shrinking must not slide onto another (possibly unregistered) defect
    return (kind, out, err)


def shrink(ctx, doc, budget=400):
    """line-wise then character-wise ddmin under the same oracle (an unlisted round-trip failure with the same edit signature); -> (doc', outcome)"""
    _init_doc_worker()
    best = _still_fails(ctx, doc)
    if best is None:
        return doc, None
    sig = signature(doc, *best)
    used = 0
    for unit in ("line", "char"):
        changed = True
        while changed and used < budget:
            changed = False
            parts = doc.split("\n") if unit == "line" else list(doc)
            join = "\n".join if unit == "line" else "".join
            n = len(parts)
            size = max(1, n // 2)
            while size >= 1 and used < budget:
                i = 0
                while i < len(parts) and used < budget:
                    cand = join(parts[:i] + parts[i + size:])
                    used += 1
                    r = _still_fails(ctx, cand, sig) if cand != doc else None
                    if r is not None:
                        parts = parts[:i] + parts[i + size:]
                        doc, best, changed = cand, r, True
                    else:
                        i += size
                size //= 2
    return doc, best


# ------------------------------------------------------------------ triage
def exact_finding(ctx, doc, kind):
    for f in ctx.findings:
        if f.get("input") == doc and ("roundtrip-" + kind) in f.get("symptom", "").split("|"):
            return f
    return None


def triage(ctx, name, results, absorbed, samples, frontier=False):
    """-> per-stratum counts; reports violations"""
    cnt = collections.Counter()
    fmap = {f["id"]: f for f in ctx.findings}
    for doc, (kind, out, err, pl, nontrivial) in results:
        cnt["docs"] += 1
        if nontrivial:
            cnt["nontrivial"] += 1
        if kind == "ok":
            cnt["ok"] += 1
            continue
        if kind in ("parse-error", "parse-hang"):
            cnt["skipped_not_tokenized(C01)"] += 1
            continue
        sym = "roundtrip-" + ("diff" if kind == "diff" else "regen-error" if kind == "regen-error" else "regen-hang")
        f = exact_finding(ctx, doc, sym[len("roundtrip-"):])
        fid = f["id"] if f else FP.classify(doc, kind, out, err, pl)
        if fid and fid in fmap and sym in fmap[fid].get("symptom", "").split("|"):
            cnt["finding:" + fid] += 1
            absorbed[fid] = absorbed.get(fid, 0) + 1
            if not frontier:
                ctx.known_finding(fmap[fid])
            continue
        # no footprint: is this exact input (with this symptom) listed in findings/C02.inputs.json?
        if not frontier:
            vlib.collect_failure("C02", name.split("-")[0] if False else "roundtrip", doc, sym)
            base = ctx.__dict__.setdefault("_c02_base", vlib.InputBaseline("C02"))
            if base.absorbs("roundtrip", doc, sym):
                cnt["listed-input"] += 1
                continue
        cnt["unmatched"] += 1
        if frontier:
            if cnt["unmatched"] <= 5:
                print(f"FRONTIER {name}: {json.dumps(doc)} -> {kind} {json.dumps(out if out is not None else err)}")
            continue
        small, r = (doc, None) if len(ctx.violations) >= 5 else shrink(ctx, doc)
        seen = ctx.__dict__.setdefault("_c02_reported", set())
        if r is not None and small in seen:
            cnt["unmatched_same_minimum"] += 1
            continue
        seen.add(small)
        if r is not None:
            kind2, out2, err2 = r
            ctx.report({"doc": small}, "roundtrip-" + kind2, {"stratum": name, "expected": small, "actual": out2, "error": err2, "shrunk_from": doc,
                                                             "oracle": "TransformToMarkdown().transform(tokens) == source"})
        else:
            ctx.report({"doc": doc}, sym, {"stratum": name, "expected": doc, "actual": out, "error": err, "footprint_tried": fid,
                                           "oracle": "TransformToMarkdown().transform(tokens) == source"})
    return dict(cnt)


# ------------------------------------------------------------------ run
def run(ctx):
    ctx.level = "proof"
    ctx.lean_stage(["emph_chars", "entities"], ["Verif.Props.C02", "Verif.Props.Coalesce", "Verif.Props.LinkRecog", "Verif.Props.InlineRecog", "Verif.Props.Emphasis", "Verif.Props.InlineLoop", "Verif.Props.InlineLoop2", "Verif.Props.RegenLeaf", "Verif.Props.RegenLeaf2", "Verif.Props.LeafBlocks2", "Verif.Props.LeafBlocks2b"])
    import blocks
    blocks.linkrecog(ctx)      # *_reassembly, rehydrate_lossless_partial / rehydrate_excluded
    blocks.inlinerecog(ctx)    # angle / rawhtml / charref / backslash / codespan reassembly, codespan_text_roundtrip
    blocks.emphasis(ctx)       # resolve_conservation, resolve_plains_preserved, resolve_lossless_partial
    blocks.leafblocks2(ctx)    # fence_content_roundtrip_partial, icode_roundtrip: stored white space + text = the source line (through resolve_encode / remove_encode)
    blocks.regenleaf(ctx)      # container-free regenerator: regen_total / _concat / _leaf_roundtrip / _paragraph_text / _field_local (Verif.Props.RegenLeaf)
    blocks.inlineloop(ctx)     # inline_loop_conservation: text pieces + handler-consumed ranges tile the paragraph text exactly; inline_loop_content_partial
    ctx.block("coalescelib", "coalesce", __import__("blocks").SRC["coalesce"])        # coalesce pass: content preserved, no adjacent text (Verif.Props.Coalesce)
    t0 = time.time()
    fstats, mism, oracle = function_level(ctx)
    fstats["wall_s"] = round(time.time() - t0, 1)
    for (r, a, m) in mism[:50]:
        ctx.broken.append(f"correspondence codec: {r} real={a} model={m}")
    for (thm, inp, det) in oracle[:20]:
        ctx.report({"function": thm, "input": inp}, "codec-roundtrip", dict(det, oracle=f"{thm} evaluated on the real parser_helper functions"))
    bstats, bmism, boracle, dup = building_blocks(ctx)
    for (r, a, m) in bmism[:50]:
        ctx.broken.append(f"correspondence {'fields' if r.split('|')[0] in LS.FIELD_FAMILIES else 'leading'}: {r} real={a} model={m}")
    for (thm, inp, det) in boracle[:20]:
        ctx.report({"function": thm, "input": inp}, "store-roundtrip" if thm.startswith("leading") else "fields-roundtrip",
                   dict(det, oracle=f"{thm} evaluated on the real tokens"))
    if dup:
        f = next((f for f in ctx.findings if f["id"] == "F-FENCE-TRAILWS"), None)
        if f:
            ctx.known_finding(f)
    strata = registered_strata(ctx)
    per, absorbed, samples = collections.OrderedDict(), {}, []
    total, nontriv_docs = 0, set()
    for name, (ds, exhaustive) in strata.items():
        ds = list(dict.fromkeys(ds))
        res = sweep(ds)
        per[name] = dict(triage(ctx, name, res, absorbed, samples), exhaustive=exhaustive)
        total += len(ds)
        for d, r in res:
            if r[4]:
                nontriv_docs.add(d)
        if len(samples) < 6 and res:
            d, r = res[len(res) // 2]
            samples.append({"stratum": name, "doc": d[:200], "result": r[0]})
    fper = {}
    if os.environ.get("VERIF_FRONTIER") == "1":
        for name, (ds, _) in frontier_strata(ctx).items():
            ds = list(dict.fromkeys(ds))
            fper[name] = triage(ctx, name, sweep(ds), {}, samples, frontier=True)
        print("FRONTIER summary:", json.dumps(fper))
    base = ctx.__dict__.get("_c02_base")
    if base is not None and base.absorbed:
        f = next((f for f in ctx.findings if f["id"] == "F-RT-INPUTS"), None)
        if f:
            ctx.known_finding(f, f"{sum(base.absorbed.values())} listed inputs (findings/C02.inputs.json): " + "; ".join(f"{k} x{v}" for k, v in sorted(base.absorbed.items())))
    if ctx.broken and not ctx.violations:
        ctx.violation({"oracle": "Verif.Props.C02 / codec, prefix-store or leaf-field correspondence no longer checks; no unlisted failing document or string found in the registered strata",
                       "mismatches": [list(x) for x in (mism + bmism)[:10]]}, no_input=True)
    ctx.assumptions += [
        "leading_store_roundtrip: prefixes without newline; for the block-quote token up to the \"\"-store ambiguity (bqNormal; witnesses leading_store_excluded)",
        "leading_index_inv: under the protocol Legal (no empty prefix added to an empty, already indexed store; remove only after a line was recorded; witnesses leading_index_excluded); "
        "that the parser follows Legal is measured on recorded traces (prefix_store.traced.illegal_operations), not proved",
        "fence_open_fields_partial: an info string or no white space after the fence (excluded shape: F-FENCE-TRAILWS, fence_open_fields_excluded)",
        "leaf fields are compared on top-level lines (one-line documents; setext / closing fence after one fixed first line); inside containers the same processors run on the line minus the container prefix — reached by the document-level oracle only",
        "MarkerFree: remove_encode / resolve_encode hold for piece lists whose payloads contain none of \\b \\a U+0002 U+0003 U+0005 and whose replacements are non-empty",
        "escOK: escape_roundtrip excludes U+0005 directly before another marker character (witness escape_roundtrip_excluded)",
        "pragma_reinsert: pragma lines without tabs; first-line pragma only if the rest is not the empty string (witness pragma_reinsert_excluded)",
        "the per-token regenerator (transform_containers.py etc., ~5 000 lines) is not modelled: it is covered by the document-level identity oracle on the registered strata only",
        "a real call that uses more than %.2f s CPU (re-checked with %.1f s) is taken as non-terminating" % (C.TIMER, C.TIMER_CONFIRM),
        "documents that fail to tokenize (C01) are skipped and counted"]
    ctx.write_evidence({
        "prefix_store": bstats["store"], "leaf_fields": bstats["fields"],
        "correspondence": dict(fstats, evaluations=fstats["function_evaluations"] + fstats["piece_lists"] + bstats["store"]["operations_compared"]
                               + bstats["fields"]["requests"],
                               distinct_nontrivial=fstats["strings"] + fstats["other_function_inputs"] + fstats["piece_lists"] - 1
                               + bstats["store"]["operation_sequences"] + bstats["fields"]["accepted_lines"],
                               rule="function level: every modelled function x every string of length <= %d over {\\b,\\a,U+0005,U+0003,\\,x,&}%s; __find_with_escape for 4 characters x every start index; "
                                    "tab/nth/final/pragma/visible functions on their own alphabets; piece lists of length <= %s over a 33-piece catalogue encoded by the real encoders. "
                                    "distinct = distinct inputs; all but the empty string are non-trivial (each contains a marker or structural character). "
                                    "prefix store: every sequence of <= 6 operations (list: add x 6 prefixes, remove, __adjust, primary look-up; block quote: add+index x 6, remove, next, "
                                    "__adjust, primary) and of <= 5 / <= 4 operations over the wider alphabets (skip-newline, tabbed originals, peek with delta, allow_overflow, index writes) on REAL tokens, "
                                    "each operation compared (distinct = distinct non-empty operation sequences); plus every store operation the real parser and regenerator perform on the "
                                    "documents of core1 / full1 / wrap-core1 / leaf-edges / corpus, recorded by a class-level tracer and replayed through the model and through Legal. leaf fields: every string of length <= %d over each recogniser alphabet%s + edge lines, "
                                    "parsed by the real parser (distinct non-trivial = lines accepted as the leaf)"
                                    % (4 if ctx.quick() else 6, " + 1500 seeded strings of length 5-6" if ctx.quick() else "", "2 + 2000 seeded triples" if ctx.quick() else "3",
                                       4 if ctx.quick() else 6, " + 2500 seeded strings of length 5-6" if ctx.quick() else ""),
                               mismatches=len(mism) + len(bmism), exhaustive=not ctx.quick()),
        "documents": {"evaluations": total, "distinct_nontrivial": len(nontriv_docs),
                      "rule": "registered strata (DESIGN §4): core1 = CORE_PREFIX x CORE_BODY one line, with/without final newline; full1 = PREFIX x BODY one line; core2 = all two-line core documents; "
                              "corpus = every source_markdown of /repo/test + rule resource files; wrap-core1 = core1 wrapped in '> ', '- ', '1. '; unicode = 3 sentinels + 5 markers + 41 other code points "
                              "at every position of every BODY, + numeric character references to marker code points; inline2 = inline element / break / link templates; pragma = a pragma line inserted at "
                              "every line position. non-trivial = token stream has a container, >= 2 leaf blocks or an inline element other than text",
                      "strata": per, "footprints_absorbed": absorbed, "frontier": fper or "not run (VERIF_FRONTIER=1)",
                      "exhaustive": not ctx.quick()},
        "samples": samples + fstats.get("samples", [])[:4] + bstats["store"]["samples"][:2] + bstats["fields"]["samples"][:2]})


def replay(ctx, path):
    rp = json.load(open(path))
    if rp.get("kind") == "no-failing-input-found":
        print("replay names broken obligations only:", rp.get("broken"))
        return 1
    inp = rp.get("input", {})
    if "doc" in inp:
        _init_doc_worker()
        kind, out, err, pl, _ = roundtrip(inp["doc"])
        print(f"document {json.dumps(inp['doc'])}: {kind} {json.dumps(out if out is not None else err)}")
        if kind in ("ok", "parse-error", "parse-hang"):
            return 0
        f = exact_finding(ctx, inp["doc"], kind)
        fid = f["id"] if f else FP.classify(inp["doc"], kind, out, err, pl)
        if fid and any(x["id"] == fid and ("roundtrip-" + kind) in x.get("symptom", "").split("|") for x in ctx.findings):
            print(f"KNOWN-FINDING: property=C02 {fid}")
            return 0
        print(f"VIOLATION property=C02 replay={path}")
        return 1
    if "function" in inp and str(inp["function"]).startswith("leading_store_roundtrip"):
        kind = "bq" if inp["function"].endswith("_bq") else "list"
        ps = list(inp["input"])
        got = LS.real_storeall(kind, ps)
        want = ps
        if kind == "bq":
            r = list(itertools.dropwhile(lambda p: p == "", ps))
            want = r if r else [""]
        ok = got.split("|")[1] == ";".join(LS.hx(p) for p in want)
        print(f"{inp['function']} on {json.dumps(ps)}: real store/readback {got}, expected parts {json.dumps(want)}")
        if not ok:
            print(f"VIOLATION property=C02 replay={path}")
            return 1
        return 0
    if "function" in inp and str(inp["function"]).startswith("f_fields:"):
        LS._init_fields_worker()
        k, line = inp["function"].split(":")[1], inp["input"]
        bad = 0
        for r in LS.field_requests(k, [line]):
            a = LS.real_fields(r)
            if a == "none" or a.startswith("not-tokenized"):
                print(f"{r}: {a}")
                continue
            kk, cat = _concat_fields(a.rsplit("|", 1)[0])
            if kk == "fclose":
                cat = cat.replace("?", vlib.unhex(r.split("|")[2]))
            f = a.split("|")
            dup = kk == "fopen" and f[5] == "=" and f[4] != "=" and cat == line + vlib.unhex(f[4][1:])
            print(f"{r}: real fields {a}; concatenation {json.dumps(cat)} vs line {json.dumps(line)}" + ("  (F-FENCE-TRAILWS shape)" if dup else ""))
            if cat != line and not dup:
                bad += 1
        if bad:
            print(f"VIOLATION property=C02 replay={path}")
            return 1
        return 0
    if "function" in inp:
        C._init_worker()
        F = C.real_fns()
        thm, x = inp["function"], inp["input"]
        if thm == "escape_roundtrip":
            got = C.guard(F["remove0"], F["esc"](x)); want = "ok=" + vlib.hexs(x)
        else:
            enc, src, ren = C.real_encode(F, [tuple(p) for p in x])
            got = C.guard(F["remove0" if thm == "remove_encode" else "resolve"], enc)
            want = "ok=" + vlib.hexs(src if thm == "remove_encode" else ren)
        print(f"{thm} on {json.dumps(x)}: real {got}, expected {want}")
        if got != want:
            print(f"VIOLATION property=C02 replay={path}")
            return 1
        return 0
    print("replay:", rp.get("broken") or inp)
    return 1
