"""C03 — parse conforms to CommonMark/GFM: rendered HTML matches a compliant parser.

proof:  Verif.Props.C03 over the reference model LeanMark (lean/Verif/Model/LeanMark, written from the specification):
        totality, L_balanced / L_wellFormed (every stream well nested and class-correct, for all documents and both
        readings of the spec), L_escape, L_attr_safe (every attribute value the renderer writes is escaped),
        tight_loose_spec (the renderer's tight/loose decision = the spec's definition stated over the tree),
        html_deterministic_in_events.
tie:    refinement check on explicitly enumerated document spaces, extensions off:
          abs(pymarkdown tokens) == events(LeanMark)           structure: kinds + structural fields (tools/refinelib.py)
          normalise(TransformToGfm(tokens)) == normalise(html(LeanMark))     white space between block tags only
        A document on which the specification's prose and its appendix "A parsing strategy" assign different structures
        (lean `Reading`: laziness vs. list starts; link reference definitions vs. "cannot interrupt a paragraph") is
        accepted when the implementation refines ONE of the readings, completely (events and HTML of the same reading).
oracle: the property statement itself is the comparison with the compliant reference; there is no other CommonMark
        implementation in the sandbox.  LeanMark is validated separately against the 4 360 expected-HTML pairs of the
        repo's own tests (tools/props/leanmark_validate.py, 99.2 %).
Documents that fail to tokenize / render or exceed the CPU limit are C01's subject: skipped and counted.
Genuine defects of the pinned tree: families in known_findings.json, exact inputs + signatures in
findings/C03.inputs.json (tools/mkbaseline.py C03); an unlisted failing input, or a listed one failing differently, is a
VIOLATION.
"""
import collections, json, os, re
import vlib, docs, refinelib as R

SLICE_BIG = 30000      # fixed, seed-independent slice (smallest content hashes) of each of the two big pools
PROCS = 16


# hand-made documents: the exemplars of DESIGN §8 and of known_findings.json, deeper nesting for the samples
EXTRA = [
    ">     # x\n", "```a\"b\nx\n```\n", "![a<b c=\"d\">](/u)\n", "foo \n baz\n", "*\n\n*", "- + x\n+ x\n", "- ```\n> a\n", "> ```\n2) y\n",
    "- > ---\n>þ\n", "> + x\n\t#\th\n", "[link](/url (title(other)line))", "> ```\n> \n", "> ```\n>\t[r]: /u\n", "- > ```py\n <div>\n",
    "> - a *b* [c](/u \"t\")\n>   ![i *x*](/s)\n\n1. x\n\n   ```py\n   c\n   ```\n\n# h #\nA\n===\n",
    "1. a\n   - b\n     > c\n     > d\n   - e\n2. f\n", "> > > a\n> > b\n> c\nd\n", "- a\n\n      code\n\n  more\n", "[r]: /u 't'\n\n[r] ![x][r] <http://a.b> <b> `c`  \nz\\\ny\n",
    "***a **b [c *d*](/u) e** f***\n", "<div>\n*a*\n\n*b*\n</div>\n", "\t- a\n\n\t\tb\n", "- a\n- b\n\n- c\n", "1. a\n\n   b\n2. c\n",
]


# ------------------------------------------------------------------ spaces (closed world: quick samples what thorough enumerates)
def pools(ctx):
    q = ctx.quick()
    corpus = list(dict.fromkeys(EXTRA + docs.repo_sources() + [t for _, t in docs.rule_resources()]))
    pick = (lambda seq, k: docs.sample(ctx.rng, seq, k)) if q else (lambda seq, k: list(seq))
    d2big = R.hash_slice(docs.dn(2, docs.PREFIX, docs.BODY), SLICE_BIG)
    d3big = R.hash_slice(docs.dn(3, docs.PREFIX3, docs.BODY3), SLICE_BIG)
    return [
        ("corpus", corpus),                                                  # whole corpus in both tiers
        ("d1", list(docs.d1())),
        ("d2core", pick(list(docs.dn(2, docs.CORE_PREFIX, docs.CORE_BODY)), 5000)),
        ("d2big", pick(d2big, 8000)),
        ("d3big", pick(d3big, 8000)),
        ("inline", pick(list(docs.d_inline(4)), 30000)),
        ("edges", pick(list(dict.fromkeys(docs.link_edges() + docs.leaf_edges() + docs.families() + docs.inline_emph(6))), 4000)),
        ("inline-edges", docs.inline_edges()),
        ("nesting", pick(list(dict.fromkeys(docs.container_pairs() + docs.corpus_marker_variants() + docs.multi_pairs())), 4000)),
    ]


SPACE_RULE = ("corpus = %d hand-made documents + every parser-test source of the repo + every rule test document (whole, both tiers); d1 = all one-line documents "
              "PREFIX x BODY with and without final newline; d2core = all two-line CORE documents (20 736); d2big / d3big = the %d documents "
              "with the smallest sha1 of all two-line PREFIX x BODY documents (396 900) resp. all three-line PREFIX3 x BODY3 documents "
              "(216 000) — a fixed slice, independent of the seed; inline = all concatenations of at most 4 atoms of docs.INLINE_ATOMS; "
              "quick = ctx.rng sample of exactly these pools" % (len(EXTRA), SLICE_BIG))


# ------------------------------------------------------------------ families (reporting only; absorption is by exact input + signature)
def _deesc(h):
    return h.replace("&lt;", "<").replace("&gt;", ">").replace("&quot;", "\"").replace("&amp;", "&")


def _text_family(d, ih, rh):
    """the structure agrees (same tag sequence): what kind of text difference is it?"""
    a, b = R.norm_html(ih), R.norm_html(rh)
    if _deesc(a) == _deesc(b):
        if re.search(r"```|~~~", d) and "language-" in a:
            return "F-INFO"
        if "![" in d:
            return "F-ALTRAW"
    if "<pre>" not in a and re.sub(r"[ ]+\n", "\n", a) == re.sub(r"[ ]+\n", "\n", b):
        return "F-C03-TRAILSPACE"
    if re.sub(r"[ \t]+", "", a) == re.sub(r"[ \t]+", "", b):
        return "F-C03-CODE-WS"
    if re.sub(r"\s+", "", a) == re.sub(r"\s+", "", b):
        return "F-C03-CODE-BLANK"
    return "F-C03-TEXT"


STRUCT_FAMILIES = [
    ("F-C03-LIST-TYPE", r"events-differ:Oli\|C[uo]l"),
    ("F-C03-LIST-SPLIT", r"events-differ:C[uo]l\|Oli"),
    ("F-C03-START-AS-TEXT", r"events-differ:L(para|heading)\|O"),
    ("F-C03-NOT-CLOSED", r"events-differ:(L\w+|O\w+|\w+/[^|]*)\|C"),
    ("F-C03-CLOSED-EARLY", r"events-differ:C\w+\|(L|O)"),
    ("F-C03-LEAF-SWALLOWS", r"events-differ:-\|"),
    ("F-C03-LAZY-BLOCK", r"events-differ:\w+/-\|I|events-differ:L\w+\|-"),
    ("F-C03-INLINE", r"events-differ:\w+/"),
    ("F-C03-LEAF-KIND", r"events-differ:L\w+\|L"),
]


def family_of(doc, sigs, impl_html, ref_html):
    """family of a failing document, from the first signature (structure first, HTML second)."""
    s = sigs[0] if sigs else ""
    if s.startswith("html-differs"):
        if s == "html-differs:text" or _deesc(R.norm_html(impl_html)) == _deesc(R.norm_html(ref_html)):
            return _text_family(doc, impl_html, ref_html)
        return "F-C03-LOOSE"         # same events, different tags: the tight/loose decision (or renderer-only difference)
    for fid, rx in STRUCT_FAMILIES:
        if re.match(rx, s):
            return fid
    return "F-C03-OTHER"


# ------------------------------------------------------------------ one pool
class Acc:
    def __init__(self):
        self.evals = 0
        self.nontrivial = set()
        self.dist = collections.Counter()
        self.oos = collections.Counter()
        self.skipped = collections.Counter()
        self.ambiguous = 0
        self.reading = collections.Counter()
        self.fail = collections.Counter()
        self.fam = collections.Counter()
        self.samples = []


def check_pool(ctx, name, texts, acc, base):
    CH = 50000
    for off in range(0, len(texts), CH):
        part = texts[off:off + CH]
        refs = R.reference(part)
        keep = [i for i, r in enumerate(refs) if r["scope"]]
        acc.oos[name] += len(part) - len(keep)
        imp = R.run_impl([part[i] for i in keep], procs=PROCS)
        for i, im in zip(keep, imp):
            d, rf = part[i], refs[i]
            if "err" in im:
                acc.skipped[im["err"]] += 1
                continue
            acc.evals += 1
            acc.dist[name] += 1
            if rf["amb"]:
                acc.ambiguous += 1
            r, sigs = R.judge(rf, im)
            nb = sum(1 for e in im["abs"] if e[0] != "C")
            if nb >= 3:
                acc.nontrivial.add(R.doc_hash(d))
            if r is not None:
                acc.reading[r] += 1
                if len(acc.samples) < 4 and nb >= 5 and len(d) < 60:
                    acc.samples.append({"pool": name, "doc": d, "reading": r, "html": im["html"], "events": json.loads(json.dumps(im["abs"]))})
                continue
            sig = ("amb;" if rf["amb"] else "") + ";".join(sigs)
            acc.fail[name] += 1
            vlib.collect_failure("C03", "ext-off", d, sig)
            rh, ra = rf["readings"][0]
            fam = family_of(d, sigs, im["html"], rh)
            if base.absorbs("ext-off", d, sig):
                acc.fam[fam] += 1
                continue
            ctx.report({"doc": d, "signature": sig}, "refinement-fails",
                       {"pool": name, "family_guess": fam, "ambiguous_readings": rf["amb"],
                        "impl_html": im["html"], "ref_html": rh, "impl_events": im["abs"], "ref_events": ra,
                        "oracle": "abs(tokens) == LeanMark events and normalise(TransformToGfm) == normalise(LeanMark html), extensions off"})


def entity_table_check(ctx):
    """The reference's entity table (Verif/Gen/Entities.lean) is regenerated from /repo's entities.json on every run, so a
    changed entry would change the reference too.  The table is therefore also compared with the reviewed copy of the
    WHATWG list (corpus/entities_whatwg.json): an entry that differs is a failing input `&name;` of its own."""
    import sys
    sys.path.insert(0, os.path.join(vlib.ROOT, "tools", "translate"))
    import entities
    pinned = json.load(open(os.path.join(vlib.ROOT, "corpus", "entities_whatwg.json"), encoding="utf-8"))
    try:
        cur = entities.load(vlib.REPO)
    except Exception as e:
        ctx.broken.append(f"entities.json unreadable: {e}")
        return 0
    diff = sorted(n for n in set(pinned) | set(cur) if pinned.get(n) != cur.get(n))
    for n in diff[:5]:
        d = f"&{n};"
        im = R.impl_one(d)
        want = "".join(chr(c) for c in pinned[n]) if n in pinned else d
        ctx.report({"doc": d, "signature": "entity-table-differs"}, "refinement-fails",
                   {"pool": "entities", "impl_html": im.get("html"), "expected_characters": want,
                    "oracle": "pymarkdown/resources/entities.json == reviewed WHATWG named character reference table (corpus/entities_whatwg.json)"})
    return len(pinned)


def run(ctx):
    ok = ctx.lean_stage(["entities", "emph_chars"], ["Verif.Props.C03", "Verif.Props.BqCount", "Verif.Props.LinkRecog", "Verif.Props.InlineRecog", "Verif.Props.Emphasis", "Verif.Props.GfmRender", "Verif.Props.ListStarts", "Verif.Props.ListStarts2", "Verif.Props.LeafBlocks2", "Verif.Props.LeafBlocks2b"])
    import blocks
    blocks.linkrecog(ctx)      # dest / title / label recognisers = CommonMark via LeanMark (+ the *_differs witnesses), unescape_value, normalize_spec
    blocks.inlinerecog(ctx)    # raw HTML / autolink / entity / escape / code span recognisers = LeanMark outside stated input sets
    blocks.emphasis(ctx)       # flanking and rule-of-3 = spec sentences; rule_of_3_deviation
    blocks.leafblocks2(ctx)    # html_end_spec, type7_no_interrupt, fence_content_spec_partial, icode_content_spec: = CommonMark 4.4 / 4.5 / 4.6 sentences; start-condition departures witnessed
    blocks.liststarts(ctx)     # list_start_spec / same_list_spec / interrupt_spec_partial / content_column_spec_partial: = the CommonMark 5.2 / 5.3 sentences, excluded classes proved
    blocks.gfm(ctx)            # faithful HTML generator: render_total / balanced / escapes, looseness vs the CommonMark definition
    ctx.block("bqcountlib", "bqcount", __import__("blocks").SRC["bqcount"])          # count = recursive specification / CommonMark marker definition (count_eq_spec)
    if not ok:
        ctx.broken.append("lake build failed: the reference model cannot be run")
    acc, base = Acc(), vlib.InputBaseline("C03")
    n_ent = entity_table_check(ctx)
    ps = pools(ctx)
    if ok:
        for name, texts in ps:
            check_pool(ctx, name, texts, acc, base)
    fams = {f["id"]: f for f in ctx.findings}
    for fid, n in sorted(acc.fam.items(), key=lambda kv: -kv[1]):
        f = fams.get(fid) or fams.get("F-C03-OTHER")
        if f is None:
            ctx.broken.append(f"family {fid} has no entry in known_findings.json")
            continue
        ctx.known[fid] = n
        print(f"KNOWN-FINDING: property=C03 {fid}: {n} listed inputs (findings/C03.inputs.json) — {f.get('what', '')[:160]}")
    if ctx.broken and not ctx.violations:
        ctx.violation({"oracle": "Verif.Props.C03 / reference model broken; the refinement sweep found no unlisted failing document"}, no_input=True)
    tot = sum(len(t) for _, t in ps)
    ctx.assumptions += [
        "LeanMark is the compliant parser of the statement: written from the specification, validated on the repo's 4 360 expected-HTML pairs (99.2 %), not proved equal to the specification's prose",
        "scope: characters of LeanMark.InScope, no pragma lines, extensions off; documents on which the spec's prose and its appendix differ are accepted under either reading",
        "abs drops blank lines, link reference definitions, end-of-stream, pragma and text/soft-break segmentation; link destinations/titles, text and code content are compared through the HTML",
        "documents on which pymarkdown fails to tokenize/render or exceeds %.0f s CPU are C01's subject and skipped (counted)" % R.CPU_LIMIT,
        "no theorem about pymarkdown's container / inline glue: the universal claim for the implementation rests on the explored spaces"]
    ctx.write_evidence({
        "correspondence": {
            "evaluations": acc.evals, "distinct_nontrivial": len(acc.nontrivial),
            "rule": "one evaluation = one in-scope document parsed and rendered by pymarkdown and by LeanMark, structure and HTML compared; " + SPACE_RULE +
                    "; non-trivial = at least 3 block/inline-bearing abstract events",
            "distribution": dict(acc.dist), "exhaustive": not ctx.quick(),
            "documents_generated": tot, "out_of_scope_filtered": dict(acc.oos),
            "filter_rate": round(sum(acc.oos.values()) / max(1, tot), 5),
            "skipped_c01": dict(acc.skipped), "ambiguous_documents": acc.ambiguous,
            "accepted_under_reading": {str(k): v for k, v in sorted(acc.reading.items())},
            "failing_by_pool": dict(acc.fail), "listed_inputs_absorbed_by_family": dict(acc.fam),
            "entity_table_entries_compared_with_pinned_copy": n_ent,
            "leanmark_stage": "stage 2 (all block and inline constructs), CommonMark 0.29 wording"},
        "samples": acc.samples[:4]})
    ctx.coverage["wall"] = ""


def replay(ctx, path):
    rp = json.load(open(path))
    if rp.get("kind") == "no-failing-input-found":
        print("replay names broken obligations only:", rp.get("broken"))
        return 1
    d = rp["input"]["doc"]
    if rp["input"].get("signature") == "entity-table-differs":
        before = len(ctx.violations)
        entity_table_check(ctx)
        return 1 if len(ctx.violations) > before else 0
    rf = R.reference([d])[0]
    im = R.impl_one(d)
    print("document:", repr(d), "| in scope:", rf["scope"], "| deviating readings:", rf["amb"] or "-")
    if "err" in im:
        print("implementation no longer processes the document:", im["err"])
        return 0
    r, sigs = R.judge(rf, im)
    print("impl html:", repr(im["html"]))
    for k, (h, a) in rf["readings"].items():
        print(f"ref  html (reading {k}):", repr(h))
    print("impl events:", im["abs"])
    print("ref  events:", rf["readings"][0][1])
    if r is None and rf["scope"]:
        sig = ("amb;" if rf["amb"] else "") + ";".join(sigs)
        if vlib.InputBaseline("C03").absorbs("ext-off", d, sig):
            print("listed known finding:", sig)
            return 0
        print("signature:", sig)
        print(f"VIOLATION property=C03 replay={path}")
        return 1
    print("refines reading", r)
    return 0
