"""C17 — rule selection and settings follow the documented precedence of layers.

proof:  Verif.Props.C17 over Verif.Model.Config (faithful model of apply_configuration_layers,
        application_properties' flat map + typed getters, PluginManager's enable logic) and over
        Verif.Gen.RuleMeta / Verif.Gen.DocTables (regenerated from /repo every run).
tie:    the real application, in-process, in a temp workspace holding pyproject.toml, .pymarkdown(.yaml/.yml),
        a --config file and --set / -e / -d / --strict-config arguments; observed through
        `plugins list` (ENABLED (CURRENT)), a probe scan (does the rule actually fire), and
        `plugins info <id>` (configuration values), exit status and stderr  ==  verifdrv config.
oracle: the documented order written directly in Python (command-line disable > enable > --set > --config >
        default file > pyproject > rule default; id-before-alias whole-section rule), and for configuration
        items: valid => value shown; invalid + lenient => identical to the unconfigured rule; invalid + strict
        => exit 1 naming the property.  Independent of the Lean model.
"""
import itertools, json, multiprocessing, os, re, shutil, sys, tempfile
import vlib, implib

os.environ["COLUMNS"] = "250"   # columnar wraps cells to the terminal width
sys.path.insert(0, os.path.join(vlib.ROOT, "tools", "translate"))

PROBE = "### a\n\n##### b\n"   # fires MD002 (first heading is not h1 / h2) and MD001 (h3 -> h5) when they are enabled
PROBE_FIRES = {"md001", "md002", "md041", "md047"}  # rules the probe document can witness
LAYERS = ("py", "df", "cf", "st")

# ------------------------------------------------------------------ value tables for configuration items
# (in-range non-default value, out-of-range value or None).  Source: the rule documentation pages and the
# messages of the validators ("Allowable values are between 2 and 4." …).  `hard` marks items whose
# malformed value is rejected by the rule itself, not by the configuration manager.
RANGES = {
    ("md001", "front_matter_title"): ("subject", None),
    ("md002", "level"): (2, 7),
    ("md003", "style"): ("atx", "nope"),
    ("md003", "allow-setext-update"): (True, None),
    ("md004", "style"): ("dash", "nope"),
    ("md007", "indent"): (4, 5),
    ("md009", "br_spaces"): (3, -1),
    ("md012", "maximum"): (2, -1),
    ("md013", "line_length"): (100, 0),
    ("md013", "code_block_line_length"): (100, 0),
    ("md013", "heading_line_length"): (100, 0),
    ("md022", "lines_above"): (2, -1),
    ("md022", "lines_below"): (2, -1),
    ("md025", "level"): (2, 7),
    ("md025", "front_matter_title"): ("subject", "a:b"),
    ("md026", "punctuation"): (".,", None),
    ("md029", "style"): ("zero", "nope"),
    ("md030", "ul_single"): (2, 0), ("md030", "ul_multi"): (2, 0),
    ("md030", "ol_single"): (2, 0), ("md030", "ol_multi"): (2, 0),
    ("md033", "allowed_elements"): ("b,i", "b,,i"),
    ("md035", "style"): ("***", "abc"),
    ("md036", "punctuation"): (".,", None),
    ("md041", "level"): (2, 7),
    ("md041", "front_matter_title"): ("subject", "a:b"),
    ("md043", "headings"): ("# A".replace(" ", " ") + ",*", "A"),
    ("md043", "required_headings"): ("# A,*", None),   # the documented name of md043's item (the rule reads `headings`)
    ("md044", "names"): ("Foo,Bar", "Foo,,Bar"),
    ("md046", "style"): ("fenced", "nope"),
    ("md048", "style"): ("tilde", "nope"),
    ("pml100", "change_tag_names"): ("+b", "b"),
    ("pml101", "indent"): (3, 6),
}
HARD = {("md033", "allowed_elements"), ("md044", "names"), ("pml100", "change_tag_names")}


# ------------------------------------------------------------------ cases
def case(op, rule, py=(), df=(), cf=(), st=(), e=None, d=None, strict=False, dfkind="json", cfkind="json",
         fam="", **kw):
    c = {"op": op, "rule": rule, "py": [list(x) for x in py], "df": [list(x) for x in df], "cf": [list(x) for x in cf],
         "st": [list(x) for x in st], "e": e, "d": d, "strict": strict, "dfkind": dfkind, "cfkind": cfkind, "fam": fam}
    c.update(kw)
    return c


def ekey(i):
    return f"plugins.{i}.enabled"


def en_layers(idents, states):
    """idents/states: 4-tuples; state u/t/f -> entries of the four layers."""
    out = {}
    for name, i, s in zip(LAYERS, idents, states):
        if s == "u":
            out[name] = []
        elif name == "st":
            out[name] = [[ekey(i), "$!True" if s == "t" else "$!False"]]
        else:
            out[name] = [[ekey(i), "b", s == "t"]]
    return out


def cmd_variants(i):
    return [("none", None, None), ("e", i, None), ("d", None, i), ("both", i, i)]


def enumerate_cases(meta, docs=()):
    """The whole finite space, family by family, in a fixed order."""
    R = {r["id"]: r for r in meta}
    fams = {}

    def idents(r):
        return [R[r]["id"]] + R[r]["names"]

    # F1 base: 3^4 layer states x {none,-e,-d,both} x every identifier x rules (default-enabled / -disabled)
    f = fams["base"] = []
    for r in ("md001", "md002", "md013", "pml101"):
        if r not in R:
            continue
        for i in idents(r):
            for states in itertools.product("utf", repeat=4):
                for (cn, e, d) in cmd_variants(i):
                    f.append(case("en", r, e=e, d=d, fam="base", consistent=i, states="".join(states), **en_layers((i,) * 4, states)))
    # F2 file formats of the default file / --config file
    f = fams["formats"] = []
    for r in ("md001", "md002"):
        for i in idents(r):
            for states in itertools.product("utf", repeat=4):
                for dk, ck in (("yaml", "yaml"), ("yml", "toml")):
                    f.append(case("en", r, dfkind=dk, cfkind=ck, fam="formats", consistent=i, states="".join(states), **en_layers((i,) * 4, states)))
    # F3 mixed identifiers across layers (documented: id section before alias sections, whole section)
    f = fams["mixed"] = []
    for r in ("md001", "md002"):
        two = idents(r)[:2] if r == "md001" else [idents(r)[0], idents(r)[-1]]
        for asg in itertools.product(two, repeat=4):
            if len(set(asg)) == 1:
                continue
            for states in itertools.product("utf", repeat=4):
                f.append(case("en", r, fam="mixed", states="".join(states), **en_layers(asg, states)))
    # F4 a section that has a key but no `enabled` shadows the alias sections
    f = fams["section"] = []
    for r, item, val in (("md001", "front_matter_title", "x"), ("md002", "level", 2)):
        ids = idents(r)
        t = "s" if isinstance(val, str) else "i"
        for holder, other in ((ids[0], ids[1]), (ids[1], ids[0]), (ids[1], ids[2]), (ids[2], ids[1])):
            for lname in ("py", "df", "cf"):
                for s in "tf":
                    for oname in LAYERS:
                        L = {n: [] for n in LAYERS}
                        L[lname] = [[f"plugins.{holder}.{item}", t, val]]
                        if oname == "st":
                            L["st"] = L["st"] + [[ekey(other), "$!True" if s == "t" else "$!False"]]
                        else:
                            L[oname] = L[oname] + [[ekey(other), "b", s == "t"]]
                        f.append(case("en", r, fam="section", **L))
    # F5 -e / -d text: case, blanks, lists, wildcard
    f = fams["cmdtext"] = []
    for r in ("md001", "md002"):
        i0, i1 = idents(r)[0], idents(r)[1]
        texts = [None, i0.upper(), f" {i0} ", f"zz,{i1.title()}", f"{i0},{i1}", "*", f"*,{i0}", ",", f"zz, {i1} ,", "md999"]
        for e in texts:
            for d in texts:
                for s in "utf":
                    f.append(case("en", r, e=e, d=d, fam="cmdtext", **en_layers((i0,) * 4, ("u", "u", "u", s))))
    # F6 wrongly typed `enabled`, strict / lenient, and mode.strict-config
    f = fams["badtype"] = []
    bads = [("s", "true"), ("i", 1), ("o", None)]
    for r in ("md001", "md002"):
        i0 = idents(r)[0]
        for li, lname in enumerate(LAYERS):
            for (bt, bv) in bads:
                for lower in "utf":
                    for strict_how in ("off", "flag", "cf", "py", "st", "cf-false"):
                        L = {n: [] for n in LAYERS}
                        if lname == "st":
                            if bt == "o":
                                continue
                            L["st"] = [[ekey(i0), "true" if bt == "s" else "$#1"]]
                        else:
                            L[lname] = [[ekey(i0), bt, bv]]
                        if lower != "u" and li > 0:
                            L[LAYERS[li - 1]] = L[LAYERS[li - 1]] + [[ekey(i0), "b", lower == "t"]]
                        elif lower != "u":
                            continue
                        strict = strict_how == "flag"
                        if strict_how == "cf":
                            L["cf"] = L["cf"] + [["mode.strict-config", "b", True]]
                        elif strict_how == "cf-false":
                            L["cf"] = L["cf"] + [["mode.strict-config", "b", False]]
                        elif strict_how == "py":
                            L["py"] = L["py"] + [["mode.strict-config", "b", True]]
                        elif strict_how == "st":
                            L["st"] = L["st"] + [["mode.strict-config", "$!True"]]
                        f.append(case("en", r, strict=strict, fam="badtype", **L))
        for (bt, bv) in (("s", "true"), ("i", 1)):
            for flag in (False, True):
                f.append(case("en", r, strict=flag, fam="badtype", cf=[["mode.strict-config", bt, bv]], df=[[ekey(i0), "b", not R[r]["enabled"]]]))
        f.append(case("en", r, fam="badtype", st=[["mode.strict-config", "true"]]))
    # F7 --set typing and key case-insensitivity
    f = fams["manual"] = []
    raws = ["$!true", "$!True", "$!TRUE", "$!false", "$!yes", "$!", "true", "$true", "$$true", "$#1", "$#x", "$#", "$", ""]
    for r in ("md001", "md002"):
        i0, i1 = idents(r)[0], idents(r)[1]
        for raw in raws:
            for strict in (False, True):
                f.append(case("en", r, strict=strict, fam="manual", st=[[ekey(i0), raw]], cf=[[ekey(i0), "b", not R[r]["enabled"]]]))
        for k in (f"PLUGINS.{i0.upper()}.Enabled", f"Plugins.{i1.title()}.ENABLED"):
            for v in (True, False):
                f.append(case("en", r, fam="manual", st=[[k, "$!" + str(v)]]))
                f.append(case("en", r, fam="manual", df=[[k, "b", v]]))
                f.append(case("en", r, fam="manual", py=[[k, "b", v]], cfkind="yaml", cf=[["log.level", "s", "CRITICAL"]]))
    # F8 every configuration item of every rule x {valid, out of range, wrong type} x {lenient, strict x3} x carrier x identifier
    f = fams["items"] = []
    for r in meta:
        ids = [r["id"]] + r["names"]
        if not r["query"]:
            continue   # nothing observable through `plugins info` (interface < 3); listed in the evidence
        qnames = {q["name"] for q in r["query"]}
        for g in r["getters"]:
            if g["name"] not in qnames:
                continue
            inr, out = RANGES.get((r["id"], g["name"]), (None, None))
            ty = g["type"]
            if inr is None:
                inr = (not g["default"]) if ty == "boolean" else ((g["default"] or 0) + 1 if ty == "integer" else "zz")
                if ty != "boolean" and g["validated"]:
                    inr = None   # no table entry for a validated item: only the wrong-type class is exercised
            wrong = {"boolean": ("s", "yes"), "integer": ("s", "7"), "string": ("i", 5)}[ty]
            classes = [("wrong", wrong[0], wrong[1])]
            if inr is not None:
                classes.append(("valid", ty[0], inr))
            if out is not None:
                classes.append(("range", ty[0], out))
            for (cl, t, v) in classes:
                for strict_how in ("off", "flag", "cf", "st"):
                    for carrier in LAYERS:
                        for i in (ids[0], ids[-1]):
                            L = {n: [] for n in LAYERS}
                            key = f"plugins.{i}.{g['name']}"
                            if carrier == "st":
                                raw = ("$!" + str(v)) if t == "b" else ("$#" + str(v)) if t == "i" else str(v)
                                if t == "s" and raw.startswith("$"):
                                    raw = "$$" + raw
                                L["st"] = [[key, raw]]
                            else:
                                L[carrier] = [[key, t, v]]
                            if strict_how == "cf":
                                L["cf"] = L["cf"] + [["mode.strict-config", "b", True]]
                            elif strict_how == "st":
                                L["st"] = L["st"] + [["mode.strict-config", "$!true"]]
                            f.append(case("get", r["id"], strict=strict_how == "flag", fam="items", item=g["name"], cls=cl,
                                          ty=ty, dflt=g["default"], hard=(r["id"], g["name"]) in HARD, **L))
    # F9 item precedence across layers: a valid value in each pair of layers, the more specific wins; an invalid
    #    value in the more specific layer hides the valid one below it (lenient: default, not the lower value)
    f = fams["itemlayers"] = []
    for (rid, item, ty, v1, v2, bad) in (("md013", "line_length", "integer", 100, 120, 0), ("md007", "indent", "integer", 3, 4, 9),
                                         ("md004", "style", "string", "dash", "plus", "nope"), ("md002", "level", "integer", 2, 3, 9)):
        g = next((x for x in R[rid]["getters"] if x["name"] == item), None) if rid in R else None
        if g is None:
            continue   # the item is exercised under its documented name by the `docitems` family
        for i in idents(rid):
            for a, b in itertools.combinations(range(4), 2):
                for (va, vb, cl) in ((v1, v2, "valid"), (v1, bad, "range")):
                    for strict in (False, True):
                        L = {n: [] for n in LAYERS}
                        for idx, v in ((a, va), (b, vb)):
                            key = f"plugins.{i}.{item}"
                            if LAYERS[idx] == "st":
                                L["st"] = [[key, ("$#%d" % v) if ty == "integer" else v]]
                            else:
                                L[LAYERS[idx]] = [[key, ty[0], v]]
                        f.append(case("get", rid, strict=strict, fam="itemlayers", item=item, cls=cl, ty=ty, dflt=g["default"], hard=False, **L))
    # F11 the three default files present at once: absent / empty `{}` / true / false each
    f = fams["dfchoice"] = []
    for r in ("md001", "md002"):
        i0 = idents(r)[0]
        for st3 in itertools.product("uetf", repeat=3):
            f.append(case("endf", r, fam="dfchoice", df3="".join(st3), ident=i0))
    # F10 every item of every rule page under its DOCUMENTED name and type: a valid value must show up
    f = fams["docitems"] = []
    for d in docs:
        rid = d["title_id"]
        if rid not in R or not R[rid]["query"]:
            continue
        ids = [R[rid]["id"]] + R[rid]["names"]
        for it in d["items"]:
            ty = it["type"] if it["type"] in ("boolean", "integer", "string") else None
            if ty is None:
                continue
            inr = RANGES.get((rid, it["name"]), (None, None))[0]
            if inr is None:
                inr = (it["default"] != "True") if ty == "boolean" else (int(it["default"]) + 1 if ty == "integer" and it["default"].lstrip("-").isdigit() else "zz")
            g = next((x for x in R[rid]["getters"] if x["name"] == it["name"]), None)
            for carrier in ("st", "cf"):
                for i in (ids[0], ids[-1]):
                    L = {n: [] for n in LAYERS}
                    key = f"plugins.{i}.{it['name']}"
                    if carrier == "st":
                        raw = ("$!" + str(inr)) if ty == "boolean" else ("$#" + str(inr)) if ty == "integer" else str(inr)
                        L["st"] = [[key, raw]]
                    else:
                        L["cf"] = [[key, ty[0], inr]]
                    f.append(case("get", rid, fam="docitems", item=it["name"], cls="valid", ty=ty, dflt=g["default"] if g else None,
                                  hard=False, nomodel=g is None or g["type"] != ty, **L))
    return fams


# ------------------------------------------------------------------ materialise a case in a workspace
def nest(entries):
    root = {}
    for ent in entries:
        k, t, v = ent
        parts = k.split(".")
        cur = root
        for p in parts[:-1]:
            nxt = cur.get(p)
            if not isinstance(nxt, dict):
                nxt = cur[p] = {}
            cur = nxt
        cur[parts[-1]] = [1] if t == "o" else v
    return root


def toml_val(t, v):
    if t == "b":
        return "true" if v else "false"
    if t == "i":
        return str(v)
    if t == "o":
        return "[1]"
    return json.dumps(v, ensure_ascii=False)


def toml_flat(entries, header=None):
    lines = [f"[{header}]"] if header else []
    for k, t, v in entries:
        lines.append(f"{k} = {toml_val(t, v)}")
    return "\n".join(lines) + "\n"


def dump(kind, entries):
    if kind == "json":
        return json.dumps(nest(entries), ensure_ascii=False)
    if kind in ("yaml", "yml"):
        import yaml
        return yaml.safe_dump(nest(entries), allow_unicode=True, default_flow_style=False)
    if kind == "toml":
        return toml_flat(entries)
    raise ValueError(kind)


WS_FILES = ("pyproject.toml", ".pymarkdown", ".pymarkdown.yaml", ".pymarkdown.yml", "cfg.json", "cfg.yaml", "cfg.toml")


def materialise(ws, c):
    for f in WS_FILES:
        try:
            os.unlink(os.path.join(ws, f))
        except FileNotFoundError:
            pass
    argv = []
    if c["op"] == "endf":
        for name, kind, st in zip((".pymarkdown", ".pymarkdown.yaml", ".pymarkdown.yml"), ("json", "yaml", "yml"), c["df3"]):
            if st == "e":
                implib.write(os.path.join(ws, name), "{}\n")
            elif st != "u":
                implib.write(os.path.join(ws, name), dump(kind, [[ekey(c["ident"]), "b", st == "t"]]))
    if c["py"]:
        implib.write(os.path.join(ws, "pyproject.toml"), "[tool.other]\nx = 1\n\n" + toml_flat(c["py"], "tool.pymarkdown"))
    if c["df"]:
        name = {"json": ".pymarkdown", "yaml": ".pymarkdown.yaml", "yml": ".pymarkdown.yml"}[c["dfkind"]]
        implib.write(os.path.join(ws, name), dump(c["dfkind"], c["df"]))
    if c["e"] is not None:
        argv += ["-e", c["e"]]
    if c["d"] is not None:
        argv += ["-d", c["d"]]
    if c["strict"]:
        argv += ["--strict-config"]
    if c["cf"]:
        name = "cfg." + c["cfkind"]
        implib.write(os.path.join(ws, name), dump(c["cfkind"], c["cf"]))
        argv += ["--config", name]
    for k, raw in c["st"]:
        argv += ["--set", f"{k}={raw}"]
    if not os.path.exists(os.path.join(ws, "probe.md")):
        implib.write(os.path.join(ws, "probe.md"), PROBE)
    return argv


# ------------------------------------------------------------------ observe the implementation
ERR_RES = [(re.compile(r"The value for property '([^']+)' must be of type"), "err wrongType {}"),
           (re.compile(r"The value for property '([^']+)' is not valid"), "err invalid {}"),
           (re.compile(r"cannot be translated into an integer"), "err badManual")]


def classify_error(err):
    for rx, fmt in ERR_RES:
        m = rx.search(err)
        if m:
            return fmt.format(*m.groups())
    if "BadPluginError" in err:
        return "err rejected"
    lines = [l for l in err.splitlines() if l.strip()]
    return "err other: " + " / ".join(lines)[:200]


LIST_ROW = re.compile(r"^\s*([a-z]{2,3}\d{3})\s+(\S.*?)\s+(True|False)\s+(True|False)\s+(\d+\.\d+\.\d+)\s+(Yes|No)\s*$")
INFO_ROW = re.compile(r"^\s*(\S+)\s+(string|boolean|integer)\s+(.*?)\s*$")


def parse_list(out):
    rows = {}
    for line in out.splitlines():
        m = LIST_ROW.match(line)
        if m:
            rows[m.group(1)] = m.group(4) == "True"
    return rows


def parse_info(out):
    rows, on, raw = {}, False, []
    for line in out.splitlines():
        if "CONFIGURATION ITEM" in line:
            on = True
        elif on:
            m = INFO_ROW.match(line)
            if m:
                raw.append(list(m.groups()))
            elif line.strip() and raw:
                raw[-1][2] += line.strip()   # columnar wrapped a cell holding wide characters
    for name, ty, val in raw:
        if ty == "string":
            rows[name] = "s~" + vlib.hexs(val[1:-1] if len(val) >= 2 and val[0] == '"' and val[-1] == '"' else val)
        elif ty == "boolean":
            rows[name] = "b~1" if val == "True" else "b~0"
        elif val == "None":
            rows[name] = "none"
        else:
            rows[name] = "i~" + val
    return rows


def observe(ws, c):
    """Run the real application for one case; returns a JSON-able observation."""
    argv = materialise(ws, c)
    rid = c["rule"]
    if c["op"] in ("en", "endf"):
        code, out, err = vlib.run_main(argv + ["plugins", "list", "--all"], cwd=ws)
        if code == 0:
            rows = parse_list(out)
            res = ("ok 1" if rows[rid] else "ok 0") if rid in rows else "unparsed: " + out[-200:]
        else:
            res = classify_error(err)
        ob = {"res": res, "list_exit": code}
        if rid in PROBE_FIRES:
            code2, out2, err2 = vlib.run_main(argv + ["scan", "probe.md"], cwd=ws)
            ob["scan_exit"] = code2
            ob["fires"] = f": {rid.upper()}:" in out2
            if code2 not in (0, 1) or (code2 == 1 and err2.strip()):
                ob["scan_err"] = classify_error(err2)
        return ob
    code, out, err = vlib.run_main(argv + ["plugins", "info", rid], cwd=ws)
    if code == 0:
        rows = parse_info(out)
        if not c["item"]:
            res = "ok baseline"
        elif c["item"] in rows:
            res = "ok " + rows[c["item"]]
        else:
            res = "ok absent"   # the rule does not report an item of that name
        return {"res": res, "exit": code, "rows": rows}
    return {"res": classify_error(err), "exit": code, "stderr": err.strip()[-300:]}


_WS = None


def _init_worker():
    global _WS
    _WS = tempfile.mkdtemp(prefix="verif-c17-")
    import atexit
    atexit.register(shutil.rmtree, _WS, True)


def _work(c):
    global _WS
    if _WS is None:
        _init_worker()
    try:
        return observe(_WS, c)
    except Exception as e:   # the harness itself failed on this case
        import traceback
        return {"res": "harness-error: " + repr(e), "trace": traceback.format_exc()[-800:]}


def observe_all(cases):
    n = min(12, max(1, (os.cpu_count() or 2) - 2))
    if len(cases) < 200 or n == 1:
        _init_worker()
        return [_work(c) for c in cases]
    ctxm = multiprocessing.get_context("fork")
    with ctxm.Pool(n, initializer=_init_worker) as pool:
        return pool.map(_work, cases, chunksize=16)


# ------------------------------------------------------------------ model requests
def enc_layer(entries, is_set=False):
    parts = []
    for ent in entries:
        if is_set:
            k, raw = ent
            parts.append(f"{vlib.hexs(k)}~m~{vlib.hexs(raw)}")
        else:
            k, t, v = ent
            if t == "b":
                p = "1" if v else "0"
            elif t == "i":
                p = str(v)
            elif t == "s":
                p = vlib.hexs(v)
            else:
                p = ""
            parts.append(f"{vlib.hexs(k)}~{t}~{p}")
    return ";".join(parts)


def enc_val(ty, v):
    if v is None:
        return "none"
    if ty == "boolean":
        return "b~1" if v else "b~0"
    if ty == "integer":
        return f"i~{v}"
    return "s~" + vlib.hexs(v)


def model_request(c, R):
    r = R[c["rule"]]
    layers = "|".join([enc_layer(c["py"]), enc_layer(c["df"]), enc_layer(c["cf"]), enc_layer(c["st"], True)])
    names = ",".join(vlib.hexs(n) for n in r["names"])
    sf = "1" if c["strict"] else "0"
    if c["op"] == "endf":
        d3 = "|".join(enc_layer([[ekey(c["ident"]), "b", st == "t"]] if st in "tf" else []) for st in c["df3"])
        return "|".join(["endf", vlib.hexs(r["id"]), names, "1" if r["enabled"] else "0", d3])
    if c["op"] == "en":
        return "|".join(["en", vlib.hexs(r["id"]), names, "1" if r["enabled"] else "0", sf,
                         vlib.hexs(c["e"] or ""), vlib.hexs(c["d"] or ""), layers])
    # `hard` items have no validator in the getter: an out-of-range value is accepted by the configuration
    # manager and then rejected by the rule's own parsing (post = 0)
    valid = "1" if c["cls"] == "valid" or (c["hard"] and c["cls"] == "range") else "0"
    post = "0" if (c["hard"] and c["cls"] == "range") else "1"
    return "|".join(["get", vlib.hexs(r["id"]), names, sf, vlib.hexs(c["item"]), c["ty"][0], valid, post,
                     enc_val(c["ty"], c["dflt"]), layers])


# ------------------------------------------------------------------ direct oracles (documentation, not the model)
def py_value(layer_name, ent):
    """The typed value an entry carries, per the documentation of `--set` typing."""
    if layer_name != "st":
        k, t, v = ent
        return (t, v) if t != "o" else ("o", None)
    k, raw = ent
    if raw.startswith("$!"):
        return ("b", raw[2:].lower() == "true")
    if raw.startswith("$#"):
        return ("i", raw[2:])
    if raw.startswith("$$"):
        return ("s", raw[2:])
    if raw.startswith("$") and len(raw) >= 2:
        return ("s", raw[1:])
    return ("s", raw)


def doc_norm_ids(text):
    return set() if not text else {p.strip() for p in text.lower().split(",")}


def oracle_strict(c):
    """True / False by the documentation (`--strict-config` or `mode.strict-config`), None when `mode.strict-config`
    itself is not a Boolean (the documentation is silent about that)."""
    if c["strict"]:
        return True
    for lname in ("st", "cf", "df", "py"):   # most specific first
        for ent in reversed(c[lname]):
            if ent[0].lower() == "mode.strict-config":
                t, v = py_value(lname, ent)
                return v if t == "b" else None
    return False


def oracle_enabled(c, r):
    """Expected state by the documented precedence: True / False, "err" when strict mode must stop the run,
    None when the documentation does not decide the case."""
    ids = [r["id"]] + r["names"]
    strict = oracle_strict(c)
    if strict is None:
        return None
    for lname, ent in ((l, e) for l in LAYERS for e in c[l]):
        if lname == "st" and ent[1].startswith("$#") and not re.fullmatch(r"[+-]?\d+", ent[1][2:]):
            return "err"   # "generating a ValueError for any invalid integer values"
    dis, en = doc_norm_ids(c["d"]), doc_norm_ids(c["e"])
    if "*" in dis or dis & set(ids):
        return False   # "command line disables would have priority over command line enables"
    if en & set(ids):
        return True
    # most specific layer first
    per_ident = {}
    for lname in ("st", "cf", "df", "py"):
        for ent in reversed(c[lname]):
            parts = ent[0].lower().split(".")
            if len(parts) >= 3 and parts[0] == "plugins" and parts[1] in ids:
                sec = per_ident.setdefault(parts[1], {})
                sec.setdefault(".".join(parts[2:]), py_value(lname, ent))   # first seen = most specific layer
    for i in ids:   # "the rule plugin's id comes first, followed by each alias in the order that they are entered"
        if i in per_ident:
            v = per_ident[i].get("enabled")
            if v is None:
                return r["enabled"]
            if v[0] != "b":   # wrong type: default unless strict, then a configuration error
                return "err" if strict else r["enabled"]
            return v[1]
    return r["enabled"]


# ------------------------------------------------------------------ run
def select(ctx, fams):
    if not ctx.quick():
        return CORPUS() + [c for f in fams.values() for c in f]
    quota = {"base": 260, "formats": 70, "mixed": 110, "section": 40, "cmdtext": 70, "badtype": 90, "manual": 40, "items": 420, "itemlayers": 60, "docitems": 60, "dfchoice": 40}
    out = []
    for name, f in fams.items():
        k = min(len(f), quota.get(name, 50))
        out += ctx.rng.sample(f, k)
    # fixed corpus: the documentation's own examples and the witnesses named in Verif.Props.C17
    return CORPUS() + out


def CORPUS():
    return [
        # advanced_configuration.md "Multiple Identifiers For The Same Rule Plugin"
        case("en", "md003", fam="corpus", cf=[["plugins.heading-style.enabled", "b", True], ["plugins.heading-style.style", "s", "consistent"], ["plugins.md003.enabled", "b", False]]),
        # advanced_configuration.md example 2: -e beats --set false
        case("en", "md007", fam="corpus", e="md007", st=[["plugins.md007.enabled", "$!False"]]),
        # "-e Md041 -d Md041": disable wins
        case("en", "md041", fam="corpus", e="Md041", d="Md041"),
        # first_section_wins witness of Props/C17: a non-`enabled` key under the id hides the alias section of a more specific layer
        case("en", "md003", fam="corpus", py=[["plugins.md003.style", "s", "atx"]], st=[["plugins.heading-style.enabled", "$!False"]]),
        case("en", "md002", fam="corpus", d="*", e="md002", st=[["plugins.md002.enabled", "$!True"]]),
    ]


def baseline_case(rid):
    return case("get", rid, fam="baseline", item="", cls="valid", ty="string", dflt=None, hard=False)


def judge(c, ob, ora_rule, base_ob):
    """Direct oracles on one observation; returns [(symptom, text)]."""
    res, problems = ob["res"], []
    if c["op"] == "endf":
        # whichever file is used, the state is the rule default or what ONE of the present files says, and scan agrees with list
        allowed = {ora_rule["enabled"]} if not set(c["df3"]) & set("tf") else {st == "t" for st in c["df3"] if st in "tf"}
        if res not in {"ok 1" if a else "ok 0" for a in allowed}:
            problems.append(("precedence", f"default files {c['df3']}: `plugins list` gives `{res}`"))
        if "fires" in ob and res.startswith("ok") and ob["fires"] != (res == "ok 1"):
            problems.append(("list-vs-scan", f"`plugins list` says {res}, probe scan fires={ob['fires']}"))
        return problems
    if c["op"] == "en":
        # ---- documented precedence
        want = oracle_enabled(c, ora_rule)
        if want is not None:
            wtxt = "err" if want == "err" else ("ok 1" if want else "ok 0")
            if not (res == wtxt or (want == "err" and res.startswith("err"))):
                problems.append(("precedence", f"`plugins list` gives `{res}`, the documented order gives `{wtxt}`"))
        # ---- "whether a rule runs": the listed state is the state the scan uses
        if "fires" in ob and res.startswith("ok"):
            if ob["fires"] != (res == "ok 1") or "scan_err" in ob:
                problems.append(("list-vs-scan", f"`plugins list` says {res}, probe scan fires={ob['fires']} exit={ob['scan_exit']} {ob.get('scan_err', '')}"))
        if "fires" in ob and res.startswith("err") and ob["scan_exit"] != 1:
            problems.append(("list-vs-scan", f"`plugins list` stops with {res} but scan exits {ob['scan_exit']}"))
        if res.startswith("err") and ob["list_exit"] != 1:
            problems.append(("exit", f"configuration error with exit {ob['list_exit']}"))
        return problems
    strict_on = oracle_strict(c)
    last = None
    for lname in LAYERS:   # least specific first; the last one is the one that counts
        for ent in c[lname]:
            parts = ent[0].lower().split(".")
            if parts[0] == "plugins" and parts[-1] == c["item"].lower():
                last = (lname, ent)
    t, v = py_value(last[0], last[1])
    if c["cls"] == "valid":
        want_val = enc_val(c["ty"], int(v) if t == "i" else v)
        if res != "ok " + want_val:
            problems.append(("valid-value-not-applied", f"valid value {v!r} in the most specific layer {last[0]}; `plugins info` gives {res}"))
    elif strict_on:
        if not (ob["exit"] == 1 and res.startswith("err")):
            problems.append(("strict-no-error", f"invalid value ({c['cls']}) under strict mode; got exit {ob['exit']} {res}"))
    else:
        if ob["exit"] != 0 or ob.get("rows") != base_ob.get("rows"):
            problems.append(("lenient-not-default", f"invalid value ({c['cls']}) in lenient mode; got exit {ob['exit']} {res}; "
                             f"unconfigured rule shows {base_ob.get('rows', {}).get(c['item'])}"))
    return problems


def load_meta():
    import rule_meta
    try:
        meta = rule_meta.code_rules(vlib.REPO)
    except Exception as e:
        raise vlib.MachineryError(f"rule reflection failed: {e}")
    try:
        docs = rule_meta.doc_rules(vlib.REPO)
    except Exception as e:
        raise vlib.MachineryError(f"rule pages unreadable: {e}")
    R = {r["id"]: r for r in meta}
    DOC = {d["title_id"]: d for d in docs}
    # the direct oracle takes "enabled by default" from the rule's documentation page, not from the code
    ORA = {rid: dict(r, enabled=DOC[rid]["enabled"]) if rid in DOC else r for rid, r in R.items()}
    return meta, docs, R, ORA


CASE_KEYS = ("op", "rule", "py", "df", "cf", "st", "e", "d", "strict", "dfkind", "cfkind")


def run(ctx):
    ctx.level = "proof"
    ctx.lean_stage(["rule_meta", "doc_tables"], ["Verif.Props.C17"])
    meta, docs, R, ORA = load_meta()
    fams = enumerate_cases(meta, docs)
    cases = [c for c in select(ctx, fams) if c["rule"] in R]
    # the unconfigured view of every rule that has observable items (relational oracle for "behaves as default")
    base_rules = sorted({c["rule"] for c in cases if c["op"] == "get"})
    obs = observe_all(cases)
    base_obs = dict(zip(base_rules, observe_all([baseline_case(r) for r in base_rules])))
    model = [None] * len(cases)
    if ctx.lean.get("build_ok"):
        try:
            model = vlib.Driver("config").run([model_request(c, R) for c in cases])
            model = [None if c.get("nomodel") else m for c, m in zip(cases, model)]
        except vlib.MachineryError as e:
            ctx.broken.append(f"driver config: {e}")
    evals, runs, distinct, nontrivial, dist, samples, fails = 0, 0, set(), set(), {}, [], []
    step = max(1, len(cases) // 8)
    for c, ob, m in zip(cases, obs, model):
        evals += 1
        res = ob["res"]
        key = json.dumps({k: c.get(k) for k in CASE_KEYS + ("item", "df3")}, sort_keys=True)
        if res.startswith(("harness-error", "unparsed")):
            raise vlib.MachineryError(f"{res} on {key} {ob.get('trace', '')}")
        distinct.add(key)
        if c["py"] or c["df"] or c["cf"] or c["st"] or c["e"] or c["d"] or set(c.get("df3", "")) - {"u"}:
            nontrivial.add(key)
        runs += 1 + (1 if "scan_exit" in ob else 0)
        for tag in (c["fam"], "result:" + (" ".join(res.split()[:2]) if res.startswith("err") or c["op"] != "get" else "ok <value>")):
            dist[tag] = dist.get(tag, 0) + 1
        problems = judge(c, ob, ORA[c["rule"]], base_obs.get(c["rule"], {}))
        if m is not None and m != res:   # ---- correspondence with the Lean model
            problems.append(("model-differs", f"model `{m}` implementation `{res}`"))
        if evals % step == 0 and len(samples) < 8:
            samples.append({"case": {k: c[k] for k in CASE_KEYS}, "implementation": res, "model": m})
        if problems:
            fails.append((c, ob, m, problems))
    only_model = 0
    for c, ob, m, problems in fails:
        kinds = [k for k, _ in problems]
        if kinds == ["model-differs"]:
            # the model and the code disagree but no statement of the property is contradicted: a broken tie
            only_model += 1
            if only_model <= 5:
                ctx.broken.append(f"correspondence config: model `{m}` vs implementation `{ob['res']}` on "
                                  + json.dumps({k: c[k] for k in CASE_KEYS}))
            continue
        ident = {"rule": c["rule"], "item": c.get("item"), "cls": c.get("cls"), "family": c["fam"]}
        ctx.report(dict(ident, **{k: c[k] for k in CASE_KEYS}), kinds[0],
                   {"expected": [p[1] for p in problems], "actual": ob, "model": m, "oracle": "; ".join(kinds), "case": c})
    if ctx.broken and not ctx.violations:
        ctx.violation({"oracle": "a theorem of Verif.Props.C17 / a generated table / the model correspondence no longer checks; the sweep of "
                                 "the configuration space found no run that contradicts the documented precedence"}, no_input=True)
    unobservable = sorted(r["id"] for r in meta if r["getters"] and not r["query"])
    notable = sorted(f"{r['id']}.{g['name']}" for r in meta for g in r["getters"]
                     if r["query"] and g["validated"] and (r["id"], g["name"]) not in RANGES)
    ctx.assumptions += [
        "files are parsed by the real json / PyYAML / tomli; the model starts from the parsed dictionaries",
        "in-range / out-of-range values of each configuration item come from a table written from the rule pages and validator messages (tools/props/c17.py RANGES)",
        "ASCII identifiers and keys only (Python's Unicode lower()/strip() are modelled for ASCII)",
        "consistent naming is the property's precondition (ConsistentlyNamed); mixed naming is checked against the documented id-before-alias whole-section rule",
        "layer_order_strict: the deciding `enabled` value is a Boolean; alias_invariance in strict mode: equal up to the key named in the error",
    ]
    ctx.write_evidence({
        "correspondence": {"evaluations": evals, "distinct_nontrivial": len(nontrivial), "distinct": len(distinct),
                           "application_runs": runs + len(base_rules),
                           "rule": "distinct by (layers, formats, -e, -d, strict, rule, item); non-trivial = at least one layer or command-line "
                                   "switch differs from the unconfigured run",
                           "distribution": dist, "exhaustive": not ctx.quick(), "space_size": sum(len(f) for f in fams.values()) + len(CORPUS()),
                           "families": {k: len(v) for k, v in fams.items()},
                           "items_not_observable_via_plugins_info": unobservable, "validated_items_without_range_table": notable},
        "samples": samples})


def replay(ctx, path):
    rp = json.load(open(path))
    if rp.get("kind") == "no-failing-input-found":
        print("replay names broken obligations only:", rp.get("broken"))
        return 1
    c = rp["case"]
    meta, docs, R, ORA = load_meta()
    _init_worker()
    ob = _work(c)
    base = _work(baseline_case(c["rule"])) if c["op"] == "get" else {}
    print("implementation:", ob["res"], {k: v for k, v in ob.items() if k not in ("rows", "res")})
    problems = judge(c, ob, ORA[c["rule"]], base)
    try:
        m = vlib.Driver("config").run([model_request(c, R)])[0]
        print("model:", m)
    except vlib.MachineryError as e:
        print("model unavailable:", e)
    for k, t in problems:
        print(f"{k}: {t}")
    if problems:
        f = ctx.match_finding(dict({"rule": c["rule"], "item": c.get("item"), "cls": c.get("cls"), "family": c["fam"]},
                                   **{k: c[k] for k in CASE_KEYS}), problems[0][0])
        if f:
            print(f"KNOWN-FINDING: property=C17 {f['id']}")
            return 0
        print(f"VIOLATION property=C17 replay={path}")
        return 1
    print("replayed case conforms")
    return 0
