"""C18 — exit codes follow the documented table in both schemes; errors never masked.

proof:  Verif.Props.C18 over Verif.Gen.ExitTable (regenerated from /repo every run).
tie:    every outcome category, produced in every way the application can produce it,
        under both schemes selected by argument / --set / configuration file:
        real exit status  ==  model (flow.finalResult of the scenario's observation, then table).
oracle: declared category of the scenario (from the user guide's definitions) and the
        table in the property text, independent of the model.
"""
import json, os, sys
import vlib, implib

PROPERTY_TABLE = {  # the text of the property
    "success": (0, 0), "noFiles": (1, 0), "cmdLine": (2, 2), "fixed": (3, 0), "triggered": (1, 0), "systemError": (1, 1)}

CLEAN = "# T\n\nText.\n"
FIXABLE = "# T\n\nText. \n\n\nMore\n"
UNFIX = "# T\n\n" + ("word " * 30).strip() + "\n"
PLUGBOOM = "# T\n\nPLUGINBOOM\n"
PARSEBOOM = "# T\n\nPARSERBOOM\n"
UNDEC = b"\xff\xfe\x00"

# scheme selectors: (label, argv prefix builder(ws), scheme)
def selectors(ws):
    cfg_min = implib.write(os.path.join(ws, "cfg_min.json"), json.dumps({"mode": {"return_code_scheme": "minimal"}}))
    cfg_def = implib.write(os.path.join(ws, "cfg_def.json"), json.dumps({"mode": {"return_code_scheme": "default"}}))
    return [
        ("none", [], "default"),
        ("arg-default", ["--return-code-scheme", "default"], "default"),
        ("arg-minimal", ["--return-code-scheme", "minimal"], "minimal"),
        ("set-minimal", ["--set", "mode.return_code_scheme=minimal"], "minimal"),
        ("set-default", ["--set", "mode.return_code_scheme=default"], "default"),
        ("config-minimal", ["--config", cfg_min], "minimal"),
        ("config-default", ["--config", cfg_def], "default"),
        ("arg-over-config", ["--config", cfg_def, "--return-code-scheme", "minimal"], "minimal"),
        ("arg-default-over-config-minimal", ["--config", cfg_min, "--return-code-scheme", "default"], "default"),
        ("arg-minimal-over-set-default", ["--set", "mode.return_code_scheme=default", "--return-code-scheme", "minimal"], "minimal"),
        ("arg-default-over-set-minimal", ["--set", "mode.return_code_scheme=minimal", "--return-code-scheme", "default"], "default"),
    ]
ALWAYS = ("none", "arg-over-config", "arg-default-over-config-minimal")


def scenarios(ws):
    """(name, argv, stdin, files{name: content}, obs bits (listOnly filesFound discoverError anyFail anyFixed anyTriggered) or None, category)
    obs None = the exit happens outside the file-processing flow (early exit); category alone decides."""
    plug = implib.probe_plugin(os.path.join(ws, "plug"), pid="zzz998", callbacks=("line",), fix=True, level=1)
    S = []
    def add(name, argv, category, obs=None, files=None, stdin=None, fault=False, only=None):
        S.append(dict(name=name, argv=argv, category=category, obs=obs, files=files or {}, stdin=stdin, fault=fault, only=only))
    # ---- success
    add("scan-clean", ["scan", "clean.md"], "success", "010000", {"clean.md": CLEAN})
    add("scan-two-clean", ["scan", "a.md", "b.md"], "success", "010000", {"a.md": CLEAN, "b.md": CLEAN})
    add("fix-clean", ["fix", "clean.md"], "success", "010000", {"clean.md": CLEAN})
    add("fix-unfixable-only", ["fix", "unfix.md"], "success", "010000", {"unfix.md": UNFIX})
    add("stdin-clean", ["scan-stdin"], "success", "010000", stdin=CLEAN)
    add("list-some", ["scan", "-l", "."], "success", "110000", {"clean.md": CLEAN, "fixable.md": FIXABLE})
    add("list-failing-file", ["scan", "-l", "unfix.md"], "success", "110000", {"unfix.md": UNFIX})
    add("plugins-list", ["plugins", "list"], "success")
    add("plugins-info", ["plugins", "info", "md001"], "success")
    add("extensions-list", ["extensions", "list"], "success")
    add("extensions-info", ["extensions", "info", "front-matter"], "success")
    add("version", ["version"], "success")
    add("disabled-rule-clean", ["-d", "md013", "scan", "unfix.md"], "success", "010000", {"unfix.md": UNFIX})
    # ---- no files
    add("scan-empty-dir", ["scan", "."], "noFiles", "000000", {"x.txt": "t"})
    add("scan-missing", ["scan", "nope.md"], "noFiles", "001000")
    add("scan-missing-and-present", ["scan", "clean.md", "nope.md"], "noFiles", "001000", {"clean.md": CLEAN})
    add("scan-noglob", ["scan", "*.mdx"], "noFiles", "001000", {"clean.md": CLEAN})
    add("scan-ineligible", ["scan", "x.txt"], "noFiles", "001000", {"x.txt": "t"})
    add("fix-missing", ["fix", "nope.md"], "noFiles", "001000")
    add("list-empty", ["scan", "-l", "."], "noFiles", "100000", {"x.txt": "t"})
    add("fix-list-empty", ["fix", "-l", "."], "noFiles", "100000", {"x.txt": "t"})
    # ---- command line
    add("no-args", [], "cmdLine")
    add("bad-option", ["--bogus"], "cmdLine")
    add("bad-subcommand", ["frobnicate"], "cmdLine")
    add("plugins-bare", ["plugins"], "cmdLine")
    add("extensions-bare", ["extensions"], "cmdLine")
    add("bad-scheme", ["--return-code-scheme", "nope", "scan", "clean.md"], "cmdLine", files={"clean.md": CLEAN})
    add("scan-no-path", ["scan"], "cmdLine")
    add("bad-log-level", ["--log-level", "LOUD", "scan", "clean.md"], "cmdLine", files={"clean.md": CLEAN})
    # ---- fixed
    add("fix-fixable", ["fix", "fixable.md"], "fixed", "010010", {"fixable.md": FIXABLE})
    add("fix-mixed", ["fix", "clean.md", "fixable.md", "unfix.md"], "fixed", "010010",
        {"clean.md": CLEAN, "fixable.md": FIXABLE, "unfix.md": UNFIX})
    add("fix-dir", ["fix", "."], "fixed", "010010", {"a.md": FIXABLE, "b.md": FIXABLE})
    # ---- triggered
    add("scan-fixable", ["scan", "fixable.md"], "triggered", "010001", {"fixable.md": FIXABLE})
    add("scan-unfix", ["scan", "unfix.md"], "triggered", "010001", {"unfix.md": UNFIX})
    add("scan-mixed", ["scan", "clean.md", "unfix.md"], "triggered", "010001", {"clean.md": CLEAN, "unfix.md": UNFIX})
    add("stdin-failing", ["scan-stdin"], "triggered", "010001", stdin=UNFIX)
    add("enabled-rule-triggers", ["-e", "md002", "scan", "h2.md"], "triggered", "010001", {"h2.md": "## T\n"})
    # ---- system error
    add("config-missing", ["--config", "nope.json", "scan", "clean.md"], "systemError", files={"clean.md": CLEAN})
    add("config-malformed", ["--config", "bad.json", "scan", "clean.md"], "systemError", files={"clean.md": CLEAN, "bad.json": "{not json"})
    add("strict-bad-value", ["--strict-config", "--set", "plugins.md013.line_length=$#x", "scan", "clean.md"], "systemError", files={"clean.md": CLEAN})
    add("strict-bad-scheme-in-config", ["--set", "mode.return_code_scheme=nope", "scan", "clean.md"], "systemError", files={"clean.md": CLEAN},
        only=("none",))  # the configured scheme is only consulted when no --return-code-scheme argument is given
    add("bad-plugin-path", ["--add-plugin", "nope.py", "scan", "clean.md"], "systemError", files={"clean.md": CLEAN})
    add("plugin-error", ["--add-plugin", plug, "scan", "boom.md"], "systemError", "010100", {"boom.md": PLUGBOOM})
    add("plugin-error-continue", ["--add-plugin", plug, "--continue-on-error", "scan", "a_clean.md", "boom.md", "z_clean.md"],
        "systemError", "010100", {"a_clean.md": CLEAN, "boom.md": PLUGBOOM, "z_clean.md": CLEAN})
    add("plugin-error-continue-with-failures", ["--add-plugin", plug, "--continue-on-error", "scan", "boom.md", "unfix.md"],
        "systemError", "010101", {"boom.md": PLUGBOOM, "unfix.md": UNFIX})
    add("plugin-error-fix-continue-with-fixed", ["--add-plugin", plug, "--continue-on-error", "fix", "boom.md", "fixable.md"],
        "systemError", "010110", {"boom.md": PLUGBOOM, "fixable.md": FIXABLE})
    add("plugin-error-fix-after-fixed", ["--add-plugin", plug, "--continue-on-error", "fix", "a_fixable.md", "boom.md"],
        "systemError", "010110", {"boom.md": PLUGBOOM, "a_fixable.md": FIXABLE})
    add("parser-error", ["scan", "p.md"], "systemError", "010100", {"p.md": PARSEBOOM}, fault=True)
    add("parser-error-continue", ["--continue-on-error", "scan", "a.md", "p.md", "unfix.md"], "systemError", "010101",
        {"a.md": CLEAN, "p.md": PARSEBOOM, "unfix.md": UNFIX}, fault=True)
    add("parser-error-fix-continue", ["--continue-on-error", "fix", "fixable.md", "p.md"], "systemError", "010110",
        {"p.md": PARSEBOOM, "fixable.md": FIXABLE}, fault=True)
    add("parser-error-stdin", ["scan-stdin"], "systemError", "010100", stdin=PARSEBOOM, fault=True)
    add("parser-error-stdin-continue", ["--continue-on-error", "scan-stdin"], "systemError", "010100", stdin=PARSEBOOM, fault=True)
    add("plugin-error-stdin-continue", ["--add-plugin", plug, "--continue-on-error", "scan-stdin"], "systemError", "010100", stdin=PLUGBOOM)
    add("undecodable", ["scan", "u.md"], "systemError", files={"u.md": UNDEC})
    add("undecodable-fix", ["fix", "u.md"], "systemError", files={"u.md": UNDEC})
    add("undecodable-after-failures", ["scan", "a_unfix.md", "u.md"], "systemError", files={"a_unfix.md": UNFIX, "u.md": UNDEC})
    add("stdin-io-fault", ["-x-stdin", "scan-stdin"], "systemError", stdin=CLEAN)
    return S


def run_scenario(ws, sc, prefix):
    d = os.path.join(ws, "run")
    import shutil
    shutil.rmtree(d, ignore_errors=True)
    os.makedirs(d)
    for n, c in sc["files"].items():
        implib.write(os.path.join(d, n), c)
    argv = prefix + sc["argv"]
    if sc["fault"]:
        with implib.parser_fault():
            return vlib.run_main(argv, stdin_text=sc["stdin"], cwd=d)
    return vlib.run_main(argv, stdin_text=sc["stdin"], cwd=d)


NAMES = {"Verif.Model.ExitCode.Result." + k: k for k in PROPERTY_TABLE}


def run(ctx):
    ctx.level = "proof"
    ctx.lean_stage(["exit_table"], ["Verif.Props.C18"])
    drv = vlib.Driver("exit")
    evals, distinct, samples, dist = 0, set(), [], {}
    fails = []
    model_ok = ctx.lean.get("build_ok", False)
    with implib.workspace() as ws:
        sels = selectors(ws)
        scs = scenarios(ws)
        if ctx.quick():
            # every scenario under the ALWAYS selectors (no selector, command line over configuration both ways) + 2 chosen by seed; thorough = all 11
            rest = [x for x in sels if x[0] not in ALWAYS]
            ctx.rng.shuffle(rest)
            sels = [x for x in sels if x[0] in ALWAYS] + rest[:2]
        # model answers for scenarios that go through the flow
        reqs, idx = [], []
        for si, sc in enumerate(scs):
            if sc["obs"] is not None:
                for (lab, pre, scheme) in sels:
                    reqs.append(f"{scheme}|{sc['obs']}"); idx.append((si, lab))
        model = {}
        if model_ok:
            try:
                for (k, ans) in zip(idx, drv.run(reqs)):
                    model[k] = ans
            except vlib.MachineryError as e:
                ctx.broken.append(f"driver exit: {e}")
        for si, sc in enumerate(scs):
            for (lab, pre, scheme) in sels:
                if sc["only"] and lab not in sc["only"]:
                    continue
                # command-line errors detected by argparse happen before configuration is read
                code, out, err = run_scenario(ws, sc, pre)
                evals += 1
                want = PROPERTY_TABLE[sc["category"]][0 if scheme == "default" else 1]
                key = (sc["name"], lab)
                distinct.add((sc["category"], sc["argv"][0] if sc["argv"] else "", scheme, sc["name"]))
                dist[sc["category"]] = dist.get(sc["category"], 0) + 1
                if len(samples) < 6 and lab == sels[-1][0]:
                    samples.append({"scenario": sc["name"], "argv": pre[:1] + ["…"] + sc["argv"], "scheme": scheme, "exit": code})
                problem = None
                if code != want:
                    problem = f"exit {code}, documented table says {want} for {sc['category']} under {scheme}"
                m = model.get((si, lab))
                if m is not None:
                    parts = m.split()
                    mres, mcode = NAMES.get(parts[0], parts[0]), int(parts[1]) if len(parts) > 1 and parts[1].isdigit() else None
                    if mres != sc["category"]:
                        problem = problem or f"model result {mres} differs from scenario category {sc['category']}"
                        ctx.broken.append(f"correspondence exit-flow on {sc['name']}")
                    if mcode != code:
                        problem = problem or f"model exit {mcode}, implementation {code}"
                if problem:
                    fails.append((sc, lab, pre, scheme, code, want, problem, out[-300:], err[-300:]))
    for (sc, lab, pre, scheme, code, want, problem, out, err) in fails:
        case = {"scenario": sc["name"], "argv": sc["argv"], "selector": lab}
        ctx.report(case, "wrong-exit-code", {
            "files": {k: (v if isinstance(v, str) else v.hex()) for k, v in sc["files"].items()}, "stdin": sc["stdin"],
            "scheme": scheme, "expected": want, "actual": code, "oracle": problem, "stdout_tail": out, "stderr_tail": err,
            "parser_fault_injected": sc["fault"]})
    if ctx.broken and not ctx.violations and not fails:
        ctx.violation({"oracle": "theorems of Verif.Props.C18 / translator no longer check; the scenario sweep (all outcome "
                                 "categories x all producers x both schemes) found no wrong exit status"}, no_input=True)
    ctx.assumptions += ["scenario categories are assigned by hand from the user guide's category definitions",
                        "parser failures are injected at transform_from_provider by the harness (no such input is assumed to exist)"]
    ctx.write_evidence({
        "correspondence": {"evaluations": evals, "distinct_nontrivial": len(distinct),
                           "rule": "scenario x scheme selector; distinct by (category, subcommand, scheme, scenario); all are non-trivial (each is a full process-level run)",
                           "distribution": dist, "exhaustive": not ctx.quick(), "selectors": [s[0] for s in sels]},
        "samples": samples})


def replay(ctx, path):
    rp = json.load(open(path))
    if rp.get("kind") == "no-failing-input-found":
        print("replay names broken obligations only:", rp.get("broken"))
        return 1
    with implib.workspace() as ws:
        sel = {s[0]: s for s in selectors(ws)}[rp["input"]["selector"]]
        sc = next(s for s in scenarios(ws) if s["name"] == rp["input"]["scenario"])
        code, out, err = run_scenario(ws, sc, sel[1])
        want = PROPERTY_TABLE[sc["category"]][0 if sel[2] == "default" else 1]
        print(f"scenario {sc['name']} selector {sel[0]}: exit {code}, expected {want}")
        if code != want:
            print(f"VIOLATION property=C18 replay={path}")
            return 1
    return 0
